"""C01 - rendering implements the documented semantics (shape conditions of compositionality only)."""

from __future__ import annotations

import ast
import re

from sa.report import AnalysisError
from sa.report import Result
from sa.report import norm
from sa.srcmodel import ClassInfo
from sa.srcmodel import FunctionInfo
from sa.srcmodel import Program
from sa.srcmodel import dotted
from sa.util import render_methods

from checks.blank import check_blank_flags
from checks.shared import check_context_manager_pairing
from checks.shared import check_trim_carry_ownership

META = {
    "technique": "output-size non-interference taint (written-character counts may not reach a branch condition); blank-flag "
    "soundness; table agreement along lexer symbol -> TokenType -> parser arm -> Expression class -> printed symbol; "
    "ordering extraction of the precedence constants; shape table of the comparison/logical evaluators; sibling "
    "agreement of the two primitive parsers; scope push/pop typestate over RenderContext's context managers; trim-carry "
    "ownership dataflow over every Tag.parse",
    "level_text": "Decides seven shape conditions without which compositionality fails, not the semantics: no render method "
    "decides control flow from how many characters a sibling wrote; no node that writes text is treated as blank; every "
    "binary operator has a precedence, a parser arm building its own class, and prints the symbol that lexes back to it; "
    "the precedence constants are ordered as documented (`and` binds tighter than `or`, comparisons tighter than both); "
    "each comparison class calls the value-semantics helper with the documented operand order, identically in both twins; "
    "block scopes are popped on every exit of extend()/loop() (shared with C07.R1); every block of a multi-block tag is parsed "
    "with the whitespace-control carry of the tag right before it (shared with C18.R4). "
    "Truthiness tables, loop slicing arithmetic, stringification and trim results are value-level and NOT decided.",
    "level_note": "Oracle for precedence: docs/tag_reference.md and the constants' own names; the value-semantics helpers "
    "(is_truthy/_eq/_lt/_contains) are trusted as given.",
}
META["technique"] += "; sibling comparator unless/if (method by method after renaming); integer-exactness rule on the math filters' int branches"
META["technique"] += "; operator-semantics lint: truncating Decimal remainder beside a flooring integer branch"
META["technique"] += '; stringifier-use lint in the filters (str() of a parameter followed to the output); truthiness-by-membership lint'
META["technique"] += "; no in-place list method on a filter's parameter"

COUNT_SOURCES = {"render", "render_async", "render_with_context", "render_with_context_async", "write", "render_to_output", "render_to_output_async"}
EX = "liquid2/builtin/expressions.py"


def _count_taint_findings(prog: Program, res: Result, fi: FunctionInfo) -> int:
    """Variables that hold written-character counts must not be used in conditions."""
    tainted: set[str] = set()

    def is_count(e: ast.AST) -> bool:
        for n in ast.walk(e):
            if isinstance(n, ast.Call) and isinstance(n.func, ast.Attribute) and n.func.attr in COUNT_SOURCES:
                return True
            if isinstance(n, ast.Name) and n.id in tainted:
                return True
        return False

    changed = True
    while changed:
        changed = False
        for n in ast.walk(fi.node):
            tg = None
            if isinstance(n, ast.Assign) and len(n.targets) == 1 and isinstance(n.targets[0], ast.Name):
                tg, v = n.targets[0].id, n.value
            elif isinstance(n, ast.AugAssign) and isinstance(n.target, ast.Name):
                tg, v = n.target.id, n.value
            elif isinstance(n, ast.AnnAssign) and isinstance(n.target, ast.Name) and n.value is not None:
                tg, v = n.target.id, n.value
            else:
                continue
            if tg not in tainted and is_count(v):
                tainted.add(tg)
                changed = True
    n_tests = 0
    for n in ast.walk(fi.node):
        tests: list[ast.AST] = []
        if isinstance(n, (ast.If, ast.While, ast.IfExp)):
            tests.append(n.test)
        elif isinstance(n, ast.Assert):
            continue
        elif isinstance(n, ast.comprehension):
            tests += n.ifs
        elif isinstance(n, ast.Call) and isinstance(n.func, ast.Name) and n.func.id in ("any", "all", "bool") and n.args:
            tests.append(n.args[0])
        for t in tests:
            n_tests += 1
            site = f"{fi.file}:{getattr(t, 'lineno', fi.node.lineno)} {fi.qualname}"
            what = f"condition `{norm(t, 60)}` does not depend on how many characters were written"
            if is_count(t):
                res.fail(
                    "C01.R1",
                    file=fi.file,
                    line=getattr(t, "lineno", fi.node.lineno),
                    qualname=fi.qualname,
                    construct=f"condition {norm(t, 60)} on a written-character count",
                    message=f"`{norm(t, 60)}` branches on the number of characters a child wrote ({sorted(tainted) or 'a render() result'}): the meaning of this construct changes with what its neighbours happen to output (e.g. `else` of a `case` runs after a matching `when` that rendered nothing)",
                    what=what,
                )
            else:
                res.ok("C01.R1", site, what, "no flow from render()/write() return values")
    return n_tests


def run(prog: Program, res: Result) -> None:  # noqa: PLR0912, PLR0915
    res.explanation = (
        "R1 taints the integers returned by render()/write() and the variables they flow into and forbids them in any branch "
        "condition of a render method. R2 is the blank-flag rule (shared with C18). R3-R5 extract the operator tables, "
        "precedence constants and evaluator shapes from liquid2/builtin/expressions.py and liquid2/lexer.py and compare them."
    )
    res.not_decided += ["truthiness / equality / ordering tables (is_truthy, _eq, _lt, _contains bodies)", "loop slicing arithmetic, forloop helper values, counters, cycles", "stringification and trimming results", "composition of filters (C19 is not applicable to this technique)"]
    res.trusted_base += ["docs: `and` binds more tightly than `or`; comparison > membership is the implementation's documented order"]

    # ------------------------------------------------------------------ R1
    res.rule("C01.R1", "output-size non-interference: in every render method the count returned by a child render()/buffer.write() flows only into the returned total, never into a condition")
    n = 0
    for m in render_methods(prog):
        res.analysed_functions.add(m.fid)
        n += _count_taint_findings(prog, res, m)
    tmpl = prog.cls("liquid2.template.Template")
    for nm in ("render_with_context", "render_with_context_async"):
        m = tmpl.methods.get(nm)
        if m is not None:
            n += _count_taint_findings(prog, res, m)
    res.floor("C01.R1", "conditions in render methods", n, 40)

    # ------------------------------------------------------------------ R2
    res.rule("C01.R2", "blank-flag soundness: a node whose render writes its own text is never left blank (shared with C18.R2)")
    check_blank_flags(prog, res, "C01.R2")

    # ------------------------------------------------------------------ R3 operator tables
    res.rule("C01.R3", "operator tables are total and agree: BINARY_OPERATORS ⊆ keys(PRECEDENCES); one parser arm per operator building a distinct class whose __str__ prints a symbol that lexes back to that operator; both primitive parsers build literals the same way")
    ex = prog.mod(EX)
    prec = ex.globals_.get("PRECEDENCES")
    binops = ex.globals_.get("BINARY_OPERATORS")
    if not isinstance(prec, ast.Dict) or binops is None:
        raise AnalysisError("PRECEDENCES / BINARY_OPERATORS vanished")
    prec_map = {(dotted(k) or "").split(".")[-1]: norm(v) for k, v in zip(prec.keys, prec.values)}
    binop_set = {(dotted(x) or "").split(".")[-1] for x in ast.walk(binops) if isinstance(x, ast.Attribute)}
    res.floor("C01.R3", "binary operators", len(binop_set), 8)
    infix = prog.fn(EX, "parse_infix_expression")
    arms: dict[str, str] = {}
    for n_ in ast.walk(infix.node):
        if isinstance(n_, ast.Match):
            for case in n_.cases:
                key = None
                for x in ast.walk(case.pattern):
                    if isinstance(x, ast.MatchValue):
                        key = (dotted(x.value) or "").split(".")[-1]
                ctor = next((dotted(c.func) for b in case.body for c in ast.walk(b) if isinstance(c, ast.Call) and isinstance(c.func, ast.Name) and c.func.id.endswith("Expression")), None)
                if key and ctor:
                    arms[key] = ctor
        if isinstance(n_, ast.If) and isinstance(n_.test, ast.Compare) and "TokenType." in norm(n_.test):
            key = norm(n_.test).split("TokenType.")[-1].strip(")")
            ctor = next((dotted(c.func) for b in n_.body for c in ast.walk(b) if isinstance(c, ast.Call) and isinstance(c.func, ast.Name) and c.func.id.endswith("Expression")), None)
            if ctor:
                arms[key] = ctor
    lexer = prog.cls("liquid2.lexer.Lexer")

    def const_dict(name: str) -> dict[str, ast.expr]:
        v = lexer.class_attrs.get(name)
        if not isinstance(v, ast.Dict):
            raise AnalysisError(f"Lexer.{name} vanished")
        return {k.value: val for k, val in zip(v.keys, v.values) if isinstance(k, ast.Constant)}

    symbols = {k: v.value for k, v in const_dict("SYMBOLS").items() if isinstance(v, ast.Constant)}
    keyword_map = {k: (dotted(v) or "").split(".")[-1] for k, v in const_dict("KEYWORD_MAP").items()}
    token_map = {k: (dotted(v) or "").split(".")[-1] for k, v in const_dict("TOKEN_MAP").items()}
    used_classes: dict[str, str] = {}
    for op in sorted(binop_set):
        site = f"{EX}:{binops.lineno} BINARY_OPERATORS"
        what = f"operator {op}: precedence, parser arm, class, printed symbol agree"
        problems = []
        if op not in prec_map:
            problems.append("no entry in PRECEDENCES (parsed with the lowest precedence)")
        cls_name = arms.get(op)
        if cls_name is None:
            problems.append("no arm in parse_infix_expression")
        else:
            if cls_name in used_classes:
                problems.append(f"builds {cls_name}, already used for {used_classes[cls_name]}")
            used_classes[cls_name] = op
            ci = prog.resolve(ex, cls_name)
            sm = ci.methods.get("__str__") if isinstance(ci, ClassInfo) else None
            printed = None
            if sm is not None and isinstance(ci, ClassInfo):
                # the symbol is whatever stands between the operands when the class prints (a, b): symbolic evaluation
                # of the printer's source, so it does not matter whether __str__ formats it itself or delegates
                from sa.symprint import Sym, SymEval, Unsupported

                try:
                    txt = SymEval(prog).to_str(Sym(ci, {"left": Sym(None, name="a"), "right": Sym(None, name="b")}))
                    parts = txt.split()
                    if len(parts) == 3 and parts[0] == "a" and parts[2] == "b":
                        printed = parts[1]
                except Unsupported:
                    printed = None
            if printed is None:
                problems.append(f"{cls_name}.__str__ prints no single operator symbol")
            else:
                # which TokenType does the printed symbol lex to?
                lexes_to = {keyword_map[printed]} if printed in keyword_map else {token_map.get(name) for name, pat in symbols.items() if re.fullmatch(pat, printed) and name in token_map}
                # longest-match order of the lexer: the first SYMBOLS entry that matches at position 0
                first = next((name for name, pat in symbols.items() if re.match(pat, printed)), None)
                if printed not in keyword_map and first is not None:
                    lexes_to = {token_map.get(first)}
                if op not in lexes_to:
                    problems.append(f"{cls_name} prints `{printed}`, which lexes to {sorted(x for x in lexes_to if x)} not {op}")
        if problems:
            res.fail("C01.R3", file=EX, line=binops.lineno, qualname="BINARY_OPERATORS", construct=f"operator {op}: {problems[0]}", message=f"operator {op}: " + "; ".join(problems), what=what)
        else:
            res.ok("C01.R3", site, what, f"{prec_map[op]}, {arms[op]}")
    # every lexer operator token that can start an infix expression is in BINARY_OPERATORS
    for op, cls_name in arms.items():
        if op not in binop_set:
            res.fail("C01.R3", file=EX, line=infix.node.lineno, qualname="parse_infix_expression", construct=f"arm {op} not in BINARY_OPERATORS", message=f"parse_infix_expression has an arm for {op} which the Pratt loop never dispatches (missing from BINARY_OPERATORS)", what=f"arm {op} reachable")
    # sibling agreement of the primitive parsers
    def literal_arms(fn: FunctionInfo) -> dict[str, str]:
        """test -> what the arm builds, with the token variable written `token` whatever it is called (parameter or local) and
        `if not T: … else: ARM` read as the arm of T."""
        import copy
        from collections import Counter

        subj = Counter(c.args[0].id for c in ast.walk(fn.node) if isinstance(c, ast.Call) and isinstance(c.func, ast.Name) and c.func.id.startswith("is_") and c.args and isinstance(c.args[0], ast.Name))
        sname = subj.most_common(1)[0][0] if subj else "token"

        def canon(e: ast.AST, limit: int = 300) -> str:
            e2 = copy.deepcopy(e)
            for x in ast.walk(e2):
                if isinstance(x, ast.Name) and x.id == sname:
                    x.id = "token"
            return norm(e2, limit)

        out: dict[str, str] = {}
        for n_ in ast.walk(fn.node):
            if isinstance(n_, ast.If):
                test, body = n_.test, n_.body
                if isinstance(test, ast.UnaryOp) and isinstance(test.op, ast.Not) and n_.orelse:
                    test, body = test.operand, n_.orelse
                t = canon(test)
                if not (t.startswith("is_token_type(token, TokenType.") or t.startswith("is_") and "(token)" in t or t.startswith("token.value ==")):
                    continue
                b = body[0] if body else None
                v = b.value if isinstance(b, (ast.Return, ast.Assign)) else None
                if isinstance(b, ast.If):
                    continue
                if v is not None:
                    out[t] = canon(v)
        return out

    a1, a2 = literal_arms(prog.fn(EX, "parse_primitive")), literal_arms(prog.fn(EX, "parse_boolean_primitive"))
    shared = sorted(set(a1) & set(a2))
    res.floor("C01.R3", "literal arms shared by both primitive parsers", len(shared), 9)
    for t in shared:
        what = f"both primitive parsers build `{t}` the same way"
        if a1[t] == a2[t]:
            res.ok("C01.R3", f"{EX} parse_primitive/parse_boolean_primitive", what, a1[t][:80])
        else:
            res.fail("C01.R3", file=EX, line=prog.fn(EX, "parse_boolean_primitive").node.lineno, qualname="parse_boolean_primitive", construct=f"arm {t}: `{a1[t]}` vs `{a2[t]}`", message=f"a literal means different things in filtered and boolean expressions: `{a1[t][:60]}` vs `{a2[t][:60]}`", what=what)
    missing = sorted((set(a1) ^ set(a2)) - {"is_token_type(token, TokenType.NOT_WORD)", "is_token_type(token, TokenType.LPAREN)"})
    for t in missing:
        res.fail("C01.R3", file=EX, line=prog.fn(EX, "parse_boolean_primitive").node.lineno, qualname="parse_boolean_primitive", construct=f"arm {t} present in only one primitive parser", message=f"literal kind `{t}` is accepted by only one of the two primitive parsers", what="same literal kinds in both parsers")

    # ------------------------------------------------------------------ R4 precedence ordering
    res.rule("C01.R4", "precedence constants are ordered LOWEST < LOGICALRIGHT < OR < AND < RELATIONAL < MEMBERSHIP < PREFIX and each operator maps to its documented level")
    order = ["PRECEDENCE_LOWEST", "PRECEDENCE_LOGICALRIGHT", "PRECEDENCE_LOGICAL_OR", "PRECEDENCE_LOGICAL_AND", "PRECEDENCE_RELATIONAL", "PRECEDENCE_MEMBERSHIP", "PRECEDENCE_PREFIX"]
    vals = []
    for name in order:
        v = ex.globals_.get(name)
        if not (isinstance(v, ast.Constant) and isinstance(v.value, int)):
            raise AnalysisError(f"{name} vanished or is not an int constant")
        vals.append(v.value)
    what = "precedence constants strictly increase in the documented order"
    if all(a < b for a, b in zip(vals, vals[1:])):
        res.ok("C01.R4", f"{EX} precedence constants", what, " < ".join(f"{n_.split('PRECEDENCE_')[1]}={v}" for n_, v in zip(order, vals)))
    else:
        res.fail("C01.R4", file=EX, line=ex.globals_[order[0]].lineno, qualname="<module>", construct=f"precedence order {dict(zip(order, vals))}", message=f"precedence constants are not strictly increasing in the documented order: {dict(zip(order, vals))} (e.g. `or` would bind tighter than `and`)", what=what)
    expected = {"EQ": "RELATIONAL", "NE": "RELATIONAL", "LT": "RELATIONAL", "GT": "RELATIONAL", "LE": "RELATIONAL", "GE": "RELATIONAL", "CONTAINS": "MEMBERSHIP", "IN": "MEMBERSHIP", "AND_WORD": "LOGICAL_AND", "OR_WORD": "LOGICAL_OR", "NOT_WORD": "PREFIX", "RPAREN": "LOWEST"}
    for op, lvl in expected.items():
        what = f"{op} has precedence {lvl}"
        got = prec_map.get(op)
        if got == f"PRECEDENCE_{lvl}":
            res.ok("C01.R4", f"{EX}:{prec.lineno} PRECEDENCES", what, got)
        else:
            res.fail("C01.R4", file=EX, line=prec.lineno, qualname="PRECEDENCES", construct=f"{op}: {got}", message=f"operator {op} is parsed with {got}, documented level is PRECEDENCE_{lvl}", what=what)
    # the Pratt loop touches precedences only through `<`
    pb = prog.fn(EX, "parse_boolean_primitive")
    cmps = [c for c in ast.walk(pb.node) if isinstance(c, ast.Compare) and "PRECEDENCES.get" in norm(c)]
    what = "the Pratt loop stops when PRECEDENCES.get(token.type_, LOWEST) < precedence"
    if len(cmps) == 1 and norm(cmps[0]) == "PRECEDENCES.get(token.type_, PRECEDENCE_LOWEST) < precedence":
        res.ok("C01.R4", f"{EX}:{cmps[0].lineno} parse_boolean_primitive", what, "strict less-than: equal precedence continues (left-to-right grouping by the recursive call)")
    else:
        res.fail("C01.R4", file=EX, line=pb.node.lineno, qualname="parse_boolean_primitive", construct=f"loop comparison {[norm(c) for c in cmps]}", message="the Pratt loop compares precedences differently: associativity / grouping of equal-precedence operators changes", what=what)
    # infix parser passes the operator's own precedence to the right operand
    what = "parse_infix_expression parses the right operand with the operator's own precedence"
    t = norm(infix.node, 10000)
    if "precedence = PRECEDENCES.get(token.type_, PRECEDENCE_LOWEST)" in t and t.count("parse_boolean_primitive(env, stream, precedence)") >= len(binop_set):
        res.ok("C01.R4", f"{EX}:{infix.node.lineno} parse_infix_expression", what, f"{len(binop_set)} arms")
    else:
        res.fail("C01.R4", file=EX, line=infix.node.lineno, qualname="parse_infix_expression", construct="right operand precedence", message="an infix arm does not parse its right operand with the operator's precedence", what=what)

    # ------------------------------------------------------------------ R5 evaluator shapes
    res.rule("C01.R5", "each comparison/logical class evaluates the documented helper with the documented operand order, identically in the sync and async twin")
    L, R = "self.left.evaluate(context)", "self.right.evaluate(context)"
    shapes = {
        "EqExpression": [f"_eq({L}, {R})"],
        "NeExpression": [f"not _eq({L}, {R})"],
        "LtExpression": [f"_lt(self.token, {L}, {R})"],
        "GtExpression": [f"_lt(self.token, {R}, {L})"],
        "LeExpression": ["_eq(left, right) or _lt(self.token, left, right)"],
        "GeExpression": ["_eq(left, right) or _lt(self.token, right, left)"],
        "ContainsExpression": [f"_contains(self.token, {L}, {R})"],
        "InExpression": [f"_contains(self.token, {R}, {L})"],
        "LogicalAndExpression": [f"is_truthy({L}) and is_truthy({R})"],
        "LogicalOrExpression": [f"is_truthy({L}) or is_truthy({R})"],
        "LogicalNotExpression": ["not is_truthy(self.expression.evaluate(context))"],
    }
    from sa import twins

    for cname, want in shapes.items():
        ci = prog.resolve(ex, cname)
        if not isinstance(ci, ClassInfo):
            raise AnalysisError(f"{cname} vanished")
        for mname in ("evaluate", "evaluate_async"):
            m = ci.methods.get(mname)
            if m is None:
                res.fail("C01.R5", file=EX, line=ci.node.lineno, qualname=f"{cname}.{mname}", construct=f"{cname}.{mname} missing", message=f"{cname} has no {mname}", what=f"{cname}.{mname} shape")
                continue
            nf = twins.normalise(m.node, alpha=False)
            rets = [norm(r.value, 300) for r in ast.walk(nf) if isinstance(r, ast.Return)]
            # local temporaries left/right must be bound to the two operands in order
            binds = {norm(a.targets[0]): norm(a.value) for a in ast.walk(nf) if isinstance(a, ast.Assign)}
            ok = rets == want and all(binds.get(k, v) == v for k, v in (("left", L), ("right", R)))
            site = f"{EX}:{m.node.lineno} {cname}.{mname}"
            what = f"{cname}.{mname} returns `{want[0]}`"
            if ok:
                res.ok("C01.R5", site, what, "shape matches")
            else:
                res.fail("C01.R5", file=EX, line=m.node.lineno, qualname=f"{cname}.{mname}", construct=f"{cname}.{mname} returns {rets} with {binds}", message=f"{cname}.{mname} computes `{rets}` (locals {binds}); documented shape is `{want[0]}`", what=what)

    # ------------------------------------------------------------------ R6 / R7 shared structural rules
    res.rule("C01.R6", "variable scoping composes: in RenderContext's context managers every scope push / loop append / template swap is undone on all exits, so a name bound by a block is gone after it however the block is left (shared with C07.R1)")
    check_context_manager_pairing(prog, res, "C01.R6")
    res.rule("C01.R7", "explicit whitespace control applies to the text next to the marked tag: each parse_block of a multi-block tag (if/elsif/else, case/when, for/else …) is entered with the trim carry of the tag immediately before that block (shared with C18.R4)")
    check_trim_carry_ownership(prog, res, "C01.R7")
    res.rule("C01.R8", "a name bound to nil/false/0/'' is bound: the scope chain and the context's lookup functions decide presence from the failed key lookup, never from the looked-up value, so an inner nil binding shadows an outer binding of the same name (shared with C16.R6)")
    from checks.shared import check_presence_by_key

    check_presence_by_key(prog, res, "C01.R8")

    res.rule("C01.R10", "explicit whitespace control is honoured whatever markup follows the text: Content.parse takes the text's right trim from the left marker of every kind of marker-carrying token (tag, output, comment, raw, `{% liquid %}` lines) - otherwise `{%- liquid …` trims nothing while `{%- echo …` does, and layout changes the output (shared with C18.R3)")
    from checks.shared import check_content_right_trim

    check_content_right_trim(prog, res, "C01.R10")
    from checks.shared import check_parser_trim_threading

    check_parser_trim_threading(prog, res, "C01.R10")
    res.rule("C01.R14", "`render 'p' for items` renders each item in its own isolated scope: the context is re-created inside the item loop, so counters, cycles, captures and assigns of one item never reach the next (shared with C07.R8)")
    from checks.shared import check_render_for_item_isolation

    check_render_for_item_isolation(prog, res, "C01.R14")
    res.rule("C01.R15", "the meaning of a construct does not depend on what ran before it: syntax-tree objects (Node and Expression classes) are never written after parsing - a `call` node that memoises how its arguments bind keeps the binding of the first macro it met, whatever macro that name means later")
    from checks.shared import check_no_self_stores

    check_no_self_stores(prog, res, "C01.R15", ("liquid2.ast.Node", "liquid2.expression.Expression"), "the node is shared by every render of the template and by every execution of the tag, so what one execution memoises (a binding, a resolved name, a computed table) is what the next one uses, whatever changed in between", 300)

    res.rule("C01.R13", "the Liquid string form of a value does not depend on where it is printed: every definition of to_liquid_string (the one used by output statements and filters, and the private copy used for `${…}` interpolation in template strings) is the same function after normalisation")
    _stringifier_twins_rule(prog, res)
    res.rule("C01.R18", "a tag's arguments are evaluated in the scope the tag was written in, all of them before any of its bindings exists: no `<expr>.evaluate[_async](context)` inside the `with context.extend(…)` block that holds the tag's namespace (`{% with a: 2, b: a %}` binds b to the outer a) (= C07.R10 = C10.R5)")
    from checks.shared import check_arguments_before_bindings

    check_arguments_before_bindings(prog, res, "C01.R18")
    res.rule("C01.R19", "`unless` is `if` with its first condition negated, and nothing else: every method of UnlessNode / UnlessTag equals its IfNode / IfTag counterpart after renaming and one stripped `not` (elsif / else handling, blank flag, printing, error tokens)")
    from checks.shared import check_unless_mirrors_if

    check_unless_mirrors_if(prog, res, "C01.R19")
    res.rule("C01.R17", "integer arithmetic is integer arithmetic: plus, minus, times, modulo and divided_by each return one integer operator applied to the two operands where both are ints (`//` floors, as documented: 'if both are integers, integer division is performed') - not a float or Decimal result converted back (= C20.R9)")
    from checks.shared import check_integer_exactness

    check_integer_exactness(prog, res, "C01.R17")
    res.rule("C01.R20", "a math filter computes one function on both of its branches: Decimal's `%` / `//` truncate (sign of the dividend) where the integer branch's floor (sign of the divisor), so the Decimal remainder of `modulo` is brought to the divisor's sign before it is returned - `-5.0 | modulo: 3` is 1.0 as `-5 | modulo: 3` is 1")
    from checks.shared import check_decimal_remainder

    check_decimal_remainder(prog, res, "C01.R20")
    res.rule("C01.R21", "text a filter adds to its result is spelt as an output statement spells it: no filter parameter is turned into text with the builtin str() and then concatenated, joined, sliced or returned (Python's `True` / `None` where Liquid's are `true` / the empty string) - to_liquid_string() is the one stringifier; str() that only feeds a key lookup, a number parser or a comparison, or that is applied under an isinstance(str / number) test, is left alone")
    from checks.shared import check_filter_text_spelling

    check_filter_text_spelling(prog, res, "C01.R21")
    res.rule("C01.R22", "Liquid truth is identity with false and nil - 0, 0.0 and the empty string are truthy: no filter decides the truth of a data value by membership in a tuple holding True / False (`x not in (False, None)` compares with ==, and 0 == False), is_truthy() is the test; a membership test reached only after numbers were returned is left alone")
    from checks.shared import check_truthiness_by_membership

    check_truthiness_by_membership(prog, res, "C01.R22")
    res.rule("C01.R23", "a filter returns a new value and leaves its input as it was: no filter function calls an in-place list method (reverse, sort, append, extend, insert, pop, remove, clear) on a parameter it has not rebound to a fresh list - `{{ a | reverse }}{{ a | first }}` shows the first element of a, not the last")
    from checks.shared import check_filters_do_not_mutate_params

    check_filters_do_not_mutate_params(prog, res, "C01.R23")
    res.rule("C01.R16", "a template string evaluates to text, whatever it interpolates and however many parts it has: every return of TemplateString.evaluate[_async] is `<sep>.join(<stringifier>(part) …)` - no short cut that hands back a part's raw value")

    _template_string_is_text_rule(prog, res)
    res.rule("C01.R11", "a filter that searches with str.partition / str.rpartition reads 'found' from the separator slot, never from the head (rpartition) or tail (partition), which is also empty when the occurrence touches that end of the string")
    _partition_presence_rule(prog, res)
    res.rule("C01.R12", "the truncation filters (truncate, truncatewords and their helpers) agree on what fits: the input is returned when its measured length is <= the limit")
    _fits_rule(prog, res)
    # ------------------------------------------------------------------ R9 slice bounds computed by subtraction
    res.rule("C01.R9", "a slice bound computed by subtracting run-time quantities (`x[: n - k]`) is clamped at zero or its sign is decided by a dominating comparison: Python reads a negative bound as 'from the end', which no Liquid filter means (`truncate: 2` with the three-character ellipsis must cut to nothing, not to all but the last character)")
    _slice_bound_rule(prog, res)


_SLICE_POSITIVE = """
def cut(val, num, end):
    if len(val) < num:
        return val
    return val[: num - len(end)] + end
"""


def _slice_bound_rule(prog: Program, res: Result) -> None:
    from sa.cfg import CFG

    def sites(fn: ast.AST):  # noqa: ANN202
        for n in ast.walk(fn):
            if isinstance(n, ast.Subscript) and isinstance(n.slice, ast.Slice):
                for bound in (n.slice.lower, n.slice.upper):
                    if isinstance(bound, ast.BinOp) and isinstance(bound.op, ast.Sub) and not (isinstance(bound.left, ast.Constant) and isinstance(bound.right, ast.Constant)):
                        yield n, bound

    def decided(fn: ast.AST, sub: ast.Subscript, bound: ast.BinOp, parents) -> str | None:  # noqa: ANN001
        a, b = norm(bound.left), norm(bound.right)
        # the position itself (len(x) - k, self.pos - 1: an offset into the very text being sliced) is not a template quantity
        if isinstance(bound.right, ast.Constant) and ("pos" in a or "start" in a or "stop" in a or "index" in a or a.startswith("len(")):
            return "cursor / length arithmetic with a constant (lexer positions are kept inside the source by C17)"
        cfg = CFG(fn)
        node = next((n for n in cfg.nodes if n.node is not None and n.kind in ("stmt", "test") and any(x is sub for x in ast.walk(n.node))), None)
        if node is None:
            return None
        for t in cfg.nodes:
            if t.kind != "test" or t.node is None or not isinstance(t.node, ast.Compare) or len(t.node.ops) != 1:
                continue
            l, r = norm(t.node.left), norm(t.node.comparators[0])
            op = type(t.node.ops[0])
            good = None
            if (l, r) == (a, b) and op in (ast.GtE, ast.Gt):
                good = "true"
            elif (l, r) == (a, b) and op in (ast.Lt,):
                good = "false"
            elif (l, r) == (b, a) and op in (ast.LtE, ast.Lt):
                good = "true"
            elif (l, r) == (b, a) and op in (ast.Gt,):
                good = "false"
            if good is None:
                continue
            bad = "false" if good == "true" else "true"
            via_bad = any(lab == bad and (m is node or node.id in cfg.reachable(m, avoid=lambda x, t=t: x is t)) for m, lab in t.succ)
            without = node.id in cfg.reachable(cfg.entry, avoid=lambda x, t=t: x is t)
            if not via_bad and not without:
                return f"dominated by `{norm(t.node)}`"
        return None

    pos_fn = ast.parse(_SLICE_POSITIVE).body[0]
    if sum(1 for s_, b_ in sites(pos_fn) if decided(pos_fn, s_, b_, None) is None) != 1:
        raise AnalysisError("C01.R9: the positive example (val[: num - len(end)] without a clamp) is no longer reported exactly once")
    n_fn = n_sites = 0
    for fi in sorted(prog.all_functions(), key=lambda f: (f.file, f.node.lineno)):
        n_fn += 1
        for sub, bound in sites(fi.node):
            if prog.enclosing_function(fi.module, sub) is not fi:
                continue
            n_sites += 1
            site = f"{fi.file}:{sub.lineno} {fi.qualname}"
            what = f"`{norm(sub, 70)}`: the bound `{norm(bound)}` cannot be negative"
            why = decided(fi.node, sub, bound, None)
            if why:
                res.ok("C01.R9", site, what, why)
            else:
                res.fail("C01.R9", file=fi.file, line=sub.lineno, qualname=fi.qualname, construct=f"{fi.qualname}: slice bound `{norm(bound)}` may be negative", message=f"{fi.qualname} slices with the bound `{norm(bound)}`, a difference that is negative whenever `{norm(bound.right)}` exceeds `{norm(bound.left)}`: Python then counts from the end of the text (`'abcdefgh'[:2 - 3]` is 'abcdefg'), so the filter returns more text, not less", what=what)
    res.ok("C01.R9", "liquid2/**", f"{n_fn} functions scanned, {n_sites} slice bound(s) computed by subtraction", "every such bound is clamped with max(…, 0) (then it is not a bare subtraction), guarded, or cursor arithmetic")
    res.floor("C01.R9", "functions scanned for subtracted slice bounds", n_fn, 900)


def _partition_presence_rule(prog: Program, res: Result) -> None:
    """`head, sep, tail = s.rpartition(x)`: whether x occurs is told by `sep`; `head` is also empty when x starts the string."""
    n = 0
    probe = ast.parse("def f(val, arg):\n    before, _, after = val.rpartition(arg)\n    if before:\n        return before + after\n    return val\n").body[0]

    def findings(fn: ast.AST) -> list[tuple[ast.If, str, str]]:
        out = []
        for a in ast.walk(fn):
            if isinstance(a, ast.Assign) and isinstance(a.value, ast.Call) and isinstance(a.value.func, ast.Attribute) and a.value.func.attr in ("partition", "rpartition") and len(a.targets) == 1 and isinstance(a.targets[0], ast.Tuple) and len(a.targets[0].elts) == 3:
                head, _sep, tail = a.targets[0].elts
                ambiguous = head if a.value.func.attr == "rpartition" else tail
                if not isinstance(ambiguous, ast.Name):
                    continue
                recv = a.value.func.value
                if not isinstance(recv, ast.Name):
                    continue
                # "not found" is the reading when the branch taken for an empty part hands back the searched text itself, unchanged
                stmts = [st for b in ast.walk(fn) for fld in ("body", "orelse") for st in [getattr(b, fld, None)] if isinstance(st, list)]
                for i in ast.walk(fn):
                    if not isinstance(i, ast.If):
                        continue
                    neg = isinstance(i.test, ast.UnaryOp) and isinstance(i.test.op, ast.Not)
                    t = i.test.operand if neg else i.test
                    if not (isinstance(t, ast.Name) and t.id == ambiguous.id):
                        continue
                    if neg:
                        empty_branch = list(i.body)
                    else:
                        empty_branch = list(i.orelse)
                        if not empty_branch:
                            for blk in stmts:
                                if i in blk:
                                    empty_branch = blk[blk.index(i) + 1 :]
                    if any(isinstance(r, ast.Return) and isinstance(r.value, ast.Name) and r.value.id == recv.id for r in empty_branch):
                        out.append((i, a.value.func.attr, ambiguous.id))
        return out

    if len(findings(probe)) != 1:
        raise AnalysisError("C01.R11 matcher self-check failed")
    sites = 0
    for fi in sorted(prog.all_functions(), key=lambda f: (f.file, f.node.lineno)):
        n += 1
        uses = [c for c in ast.walk(fi.node) if isinstance(c, ast.Call) and isinstance(c.func, ast.Attribute) and c.func.attr in ("partition", "rpartition") and prog.enclosing_function(fi.module, c) is fi]
        if not uses:
            continue
        sites += len(uses)
        bad = [b for b in findings(fi.node) if prog.enclosing_function(fi.module, b[0]) is fi]
        if bad:
            i, kind, nm = bad[0]
            res.fail("C01.R11", file=fi.file, line=i.lineno, qualname=fi.qualname, construct=f"{fi.qualname}: occurrence decided from the {'head' if kind == 'rpartition' else 'tail'} of {kind}()", message=f"{fi.qualname} decides whether the text was found from `{nm}`, the {'head' if kind == 'rpartition' else 'tail'} of `{kind}()`: that part is also empty when the occurrence is at the very {'start' if kind == 'rpartition' else 'end'} of the string, so the filter leaves such input unchanged (`'abc' | remove_last: 'abc'` stays 'abc')", what=f"{fi.qualname}: found/not found is read from the separator slot of {kind}()")
        else:
            res.ok("C01.R11", f"{fi.file}:{uses[0].lineno} {fi.qualname}", f"{fi.qualname}: found/not found is read from the separator slot of {uses[0].func.attr}()", "no test of the ambiguous part")
    res.floor("C01.R11", "functions scanned for partition-based searches", n, 900)
    res.floor("C01.R11", "partition/rpartition call sites", sites, 2)


def _fits_rule(prog: Program, res: Result) -> None:
    """A truncation filter returns its input when it fits: measured length <= limit (a text of exactly the limit is not cut)."""
    n = 0
    for fi in sorted(prog.all_functions(), key=lambda f: (f.file, f.node.lineno)):
        if "truncate" not in fi.name or fi.cls is not None:
            continue
        params = set(fi.params())
        for i in ast.walk(fi.node):
            if not (isinstance(i, ast.If) and isinstance(i.test, ast.Compare) and len(i.test.ops) == 1 and any(isinstance(b, ast.Return) for b in i.body)):
                continue
            l, r, op = i.test.left, i.test.comparators[0], i.test.ops[0]
            if not (isinstance(r, ast.Name) and r.id in params and ("len" in norm(l) or "length" in norm(l))):
                continue
            n += 1
            site = f"{fi.file}:{i.lineno} {fi.qualname}"
            what = f"{fi.qualname}: `{norm(i.test)}` lets a text of exactly the limit through"
            if isinstance(op, ast.LtE):
                res.ok("C01.R12", site, what, "<=")
            elif isinstance(op, ast.Lt):
                res.fail("C01.R12", file=fi.file, line=i.lineno, qualname=fi.qualname, construct=f"{fi.qualname}: strict `<` in the fits test", message=f"{fi.qualname} returns its input only when `{norm(i.test)}`: a text of exactly the limit is truncated and gets the ellipsis although it fits (`'a b c' | truncatewords: 3` becomes 'a b c...')", what=what)
    res.floor("C01.R12", "fits tests of truncation filters", n, 2)


def _stringifier_twins_rule(prog: Program, res: Result) -> None:
    """The Liquid string form of a value is defined twice (stringify.to_liquid_string for output statements and filters, the private
    copy in builtin/expressions.py for `${…}` interpolation): the two agree statement for statement."""
    import copy

    from sa import twins as TW

    fns = [f for f in prog.all_functions() if f.name in ("to_liquid_string", "_to_liquid_string") and f.cls is None]
    res.floor("C01.R13", "definitions of the Liquid string form", len(fns), 2)
    ref = next((f for f in fns if f.file == "liquid2/stringify.py"), fns[0])

    def canon(f):  # noqa: ANN001, ANN202
        t = copy.deepcopy(f.node)
        for x in ast.walk(t):
            if isinstance(x, ast.Name) and x.id in ("to_liquid_string", "_to_liquid_string"):
                x.id = "to_liquid_string"
        return TW.normalise(t)

    a = canon(ref)
    for f in fns:
        if f is ref:
            continue
        diffs = TW.diff_functions(a, canon(f))
        site = f"{f.file}:{f.node.lineno} {f.qualname}"
        what = f"{f.file}::{f.qualname} is the same function as {ref.file}::{ref.qualname}"
        if not diffs:
            res.ok("C01.R13", site, what, "identical after normalisation")
        else:
            d = diffs[0]
            res.fail("C01.R13", file=f.file, line=f.node.lineno, qualname=f.qualname, construct=f"{f.qualname} differs from {ref.qualname}", message=f"the two definitions of the Liquid string form disagree: {ref.file} does `{d.sync_text[:90]}`, {f.file} does `{d.async_text[:90]}` - a value prints differently inside a template string (`'n=${{x}}'`) than in an output statement (`{{{{ x }}}}`)", what=what)


def _template_string_is_text_rule(prog: Program, res: Result) -> None:
    """A template string is a string whatever it interpolates: every return of TemplateString.evaluate[_async] is a join of stringified parts."""
    ts = prog.cls("liquid2.builtin.expressions.TemplateString")
    n = 0
    for nm in ("evaluate", "evaluate_async"):
        m = ts.methods.get(nm)
        if m is None:
            raise AnalysisError(f"TemplateString.{nm} vanished")
        for r in ast.walk(m.node):
            if not isinstance(r, ast.Return) or r.value is None:
                continue
            n += 1
            v = r.value
            site = f"{m.file}:{r.lineno} TemplateString.{nm}"
            what = f"TemplateString.{nm}: `return {norm(v, 60)}` is the concatenation of the stringified parts"
            ok = isinstance(v, ast.Call) and isinstance(v.func, ast.Attribute) and v.func.attr == "join" and len(v.args) == 1
            if ok:
                arg = v.args[0]
                elt = arg.elt if isinstance(arg, (ast.GeneratorExp, ast.ListComp)) else None
                ok = isinstance(elt, ast.Call) and (dotted(elt.func) or "").split(".")[-1] in ("_to_liquid_string", "to_liquid_string", "str")
            if ok:
                res.ok("C01.R16", site, what, "join of stringified parts")
            else:
                res.fail("C01.R16", file=m.file, line=r.lineno, qualname=f"TemplateString.{nm}", construct=f"TemplateString.{nm}: a return that is not the join of stringified parts", message=f"TemplateString.{nm} returns `{norm(v, 70)}`: a template string that is a single `${{…}}` then evaluates to the raw value (an int, a bool, a list), so `\"${{n}}\" == \"5\"`, `| size`, `| default` and `case` see something else than the text that `{{{{ \"${{n}}\" }}}}` prints", what=what)
    res.floor("C01.R16", "returns of TemplateString.evaluate[_async]", n, 2)
