"""C02 - parsing and rendering are total over the LiquidError model (exception-escape discipline)."""

from __future__ import annotations

import ast
import re

from sa.cfg import CFG
from sa.escape import Escapes
from sa.report import AnalysisError
from sa.report import Result
from sa.report import norm
from sa.srcmodel import Program
from sa.srcmodel import dotted

META = {
    "technique": "interprocedural exception-escape analysis: catalogue of partial operations and explicit raises, handler "
    "subtraction with the real exception hierarchy, name/receiver-typed call resolution with dynamic-dispatch edges "
    "(nodes, expressions, tags, registered filters, lexer states), fixpoint to the public entry points; catalogue sites that depend on declared types (annotation-driven type approximation), list-length lower-bound dataflow for pop(), interval-kind abstract interpretation for islice bounds; sibling agreement of __iter__/__getitem__ key domains on every Mapping subclass (the abc mixins)",
    "level_text": "Decides that no exception class outside LiquidError raised by a catalogued partial operation (int/float/"
    "Decimal conversion, ceil/floor/round, division, %-formatting, islice, next, constant-index reads, encode/decode, "
    "base64, timestamps, explicit raise/assert; str()/repr()/format()/f-string/escape() of a value declared object/Any (int/str digit limit), list.pop() on a list not proven non-empty, hashing of a value declared object/Any by `in`, islice bounds not proven within [0, k*len]) can propagate from its site through any call chain to "
    "Environment.from_string/parse/tokenize/get_template*, Template.render*/analyze* or extract_from_template, and "
    "that str()/detailed_message()/context() of a LiquidError reach no such site at all (every LiquidError built in liquid2 gets a str/None/exception message), and that no Mapping subclass of liquid2 lets the collections.abc mixins index it with a key its __getitem__ rejects (KeyError from `for x in drop` / `drop == y`). One uncovered site is one "
    "input that escapes. The time bound, RecursionError and exceptions raised inside user drops are not decided.",
    "level_note": "Trusted base: the partial-operation catalogue (printed in the evidence) and the exemption table "
    "(one named site + reason each); callee resolution over-approximates inside liquid2 and treats third-party "
    "callees as opaque except for the catalogued ones.",
}
META["technique"] += '; unconverted-operand dataflow (sa/rawflow.py: object/Any parameters used in ordering/arithmetic before any conversion); token= argument type lint on LiquidError constructors; non-negative-digits guard for round()'
META["technique"] += '; correlated-guard facts in the definite-assignment dataflow (no alarm on `if g: v = …` … `if g: use(v)`)'

# (function qualname, site text) -> reason.  One named site each; never a wildcard.
EXEMPT: dict[tuple[str, str], str] = {
    ("parse_primitive", "float(token.value)"): "token text matched the lexer's FLOAT regex; float() of a numeric string never raises (overflow gives inf)",
    ("parse_boolean_primitive", "float(token.value)"): "token text matched the lexer's FLOAT regex; float() of a numeric string never raises (overflow gives inf)",
    ("RenderContext.cycle", "idx % length"): "length = len(self.items) of a CycleNode; CycleTag.parse rejects an empty item list",
    ("_decode_escape_sequence", "value[index] (computed index)"): "index is the position after a backslash inside a string token's value; Lexer.accept_string / accept_template_string consume a backslash only together with the character after it (`peeked in ESCAPES or peeked == quote`, else 'invalid escape sequence'), and the callers' replace of \\' by ' only shortens pairs",
    ("RenderContext.get", "next(it)"): "path lists are built by the parser and are never empty (Path.__init__ from a PathToken with at least a root)",
    ("RenderContext.get_async", "next(it)"): "path lists are built by the parser and are never empty",
    ("_segments_str", "next(it)"): "called with path[: i + 2] where i >= 0: at least two segments",
    ("_segments_str", "str() of next(it)"): "called only after self.scope[root] succeeded for a root that RenderContext.get has checked to be a str (isinstance guard returns early otherwise)",
    ("RenderContext.get_item", "next(itertools.islice(obj.items(), 1))"): "guarded by `isinstance(obj, Mapping) and obj`: the mapping is non-empty",
    ("RenderContext.get_item_async", "next(itertools.islice(obj.items(), 1))"): "guarded by `isinstance(obj, Mapping) and obj`: the mapping is non-empty",
    ("Path.head", "self.path[0]"): "a Path always has a root segment (constructed from a PathToken / WORD)",
    ("_analyze_variables", "var.segments[0]"): "segments of a Path always include the root",
    ("CallNode.macro_args", "assert expr is not None"): "zip_longest(fillvalue=None): name and expr cannot both be None",
    ("CallNode.render_to_output_async", "assert isinstance(macro, Macro)"): "tag_namespace['macros'] holds Macro objects only; the Undefined default was handled by the is_undefined branch",
    ("TranslateTag.parse", "assert message_block"): "validate_message_block returns None only for a None block; the singular block is never None",
    ("to_liquid_string", "assert isinstance(val, str)"): "every branch above assigns a str (or escape() result, a str subclass)",
    ("_to_liquid_string", "assert isinstance(val, str)"): "every branch above assigns a str (or escape() result, a str subclass)",
    ("LoopExpression._to_iter", "len(obj)"): "the `isinstance(obj, range)` branch above returns or raises LiquidTypeError: at this point obj is a Sequence that is not a range (lists, tuples, strings: len() cannot overflow)",
    ("LoopExpression._slice", "assert isinstance(offset, int)"): "offset was produced by _to_int or is the 'continue' sentinel handled above",
    ("Unit.__call__", "assert isinstance(_length, str)"): "guarded by the membership test against three string constants just above",
    ("parse_infix_expression", "assert token is not None"): "TokenStream.next never returns None (returns the EOI token)",
    ("Lexer.accept_range", "assert is_token_type(rparen, TokenType.RPAREN)"): "C02.R4: the only call site sits under `kind == 'RPAREN'` right after the token was appended to the list that is passed",
    ("Lexer.accept_path", "self.path_stack.pop()"): "accept_path appends a PathToken before its loop and this pop sits in the else branch of `len(self.path_stack) == 1`: at least two entries",
    ("Lexer.accept_token", "self.path_stack.pop()"): "directly after self.accept_path(), which appends one PathToken and pops only entries pushed by nested brackets (guarded by len == 1): at least one entry remains",
    ("ReadOnlyChainMap.pop", "self._maps.popleft()"): "push/pop are paired (RenderContext.extend pushes before its try and pops in the finally; C07.R2 checks every push has exactly one pop) and the four base maps are never popped",
    ("to_liquid_string", "escape() of val"): "every branch above leaves a str (or an object with __html__, whose own code is outside the property) in val; escape(str) cannot raise",
    ("_to_liquid_string", "escape() of val"): "every branch above leaves a str (or an object with __html__) in val; escape(str) cannot raise",
    ("_analyze.<locals>._visit", "str() of partial.name.evaluate(static_context)"): "the static context carries no data: a partial name evaluates to a parsed string literal or an Undefined",
    ("_analyze_async.<locals>._visit", "str() of partial.name.evaluate(static_context)"): "the static context carries no data: a partial name evaluates to a parsed string literal or an Undefined",
    ("RenderNode.children_async", "str() of name"): "RenderTag.parse accepts only a string literal as the template name",
    ("Lexer.accept_token", "assert kind is not None"): "every alternative of TOKEN_RULES is a named group",
    ("Lexer.lex_markup", "assert self.pos == len(self.source)"): "the CONTENT rule `.+?(?=…|$)` with DOTALL matches any non-empty remainder",
    ("Lexer.accept_path", "self.path_stack[-1]"): "accept_path pushes a PathToken before its loop; nested pops are guarded by len(self.path_stack) == 1",
    ("Lexer.ignore_whitespace", "raise Exception"): "internal invariant start == pos, established on every path by the lexer typestate (C17.R1 checks no definitely-unsynced call)",
    ("Lexer.consume_whitespace", "raise Exception"): "internal invariant start == pos (C17.R1)",
    ("Lexer.ignore_line_space", "raise Exception"): "internal invariant start == pos (C17.R1)",
    ("_string_from_code_point", "chr(code_point)"): "code point comes from 4 hex digits / a decoded surrogate pair: <= 0x10FFFF",
    ("line_number", "raise ValueError"): "tokens of a parsed template start inside its non-empty source (C17): the loop always finds the line",
    ("line_number_factory.<locals>._line_number", "raise ValueError"): "tokens of a parsed template start inside its non-empty source (C17)",
    ("BreakNode.render_to_output", "raise BreakLoop"): "LiquidInterrupt: converted to LiquidSyntaxError by Template.render_with_context unless partial=True, which no entry point passes",
    ("ContinueNode.render_to_output", "raise ContinueLoop"): "LiquidInterrupt: converted to LiquidSyntaxError by Template.render_with_context unless partial=True",
    ("_FilterFilter.validate", "args[1]"): "inside `isinstance(arg, LambdaExpression) and len(args) != 1` after `len(args) not in (1, 2)` raised: len(args) == 2",
    ("FindFilter.validate", "args[1]"): "inside `isinstance(arg, LambdaExpression) and len(args) != 1` after `len(args) not in (1, 2)` raised: len(args) == 2",
    ("extract_from_template.<locals>.visit_expression", "_comments[-1][0]"): "same-expression guard `_comments and …`; entries are (lineno, text) pairs",
    ("extract_from_template.<locals>.visit", "_comments[-1][0]"): "same-expression guard `_comments and …`; entries are (lineno, text) pairs",
    ("extract_from_templates", "spec[0]"): "spec = keywords[funcname] or (1,): a non-empty Babel argument spec",
    ("extract_from_templates", "spec[0][0]"): "inside isinstance(spec[0], tuple): Babel context spec (index, 'c')",
    ("extract_from_templates", "messages[spec[0][0] - 1][0]"): "len(spec) == len(messages) was checked; context entries are (text, 'c') pairs",
    ("extract_from_templates", "message[0]"): "message is built from a non-empty spec of equal length to messages",
}

# exemptions that hold only while a computed fact holds (see run(): C02.R2b)
MESSAGE_EXEMPT: dict[tuple[str, str], str] = {
    ("LiquidError.detailed_message", "f-string of self.message"): "C02.R2b: every LiquidError constructed in liquid2 receives a str, None or an exception object as its message",
    ("LiquidError.detailed_message", "f-string of self._pointer_message()"): "C02.R2b: _pointer_message returns the message or a string constant",
}

# (caller qualname, call text) -> reason: escapes of the callee are not propagated through this one call
EXEMPT_EDGES: dict[tuple[str, str], str] = {
    ("int_literal", "to_int(mantissa)"): "mantissa is the digit run of an INT token (lexer regex -?[0-9]+): int() cannot fail; the length limit raises LiquidValueError",
    ("Lexer.accept_path", "to_int(match.group())"): "the text matched RE_INDEX (-?[0-9]+): int() cannot fail; the length limit raises LiquidValueError",
    ("int_literal", "to_int(exponent)"): "exponent is the digit run after e/E+ of an INT token: int() cannot fail",
}

ENTRY_POINTS = {
    "parse": [("liquid2/environment.py", "Environment." + n) for n in ("from_string", "parse", "tokenize", "get_template", "get_template_async")] + [("liquid2/__init__.py", n) for n in ("parse", "render", "render_async")],
    "render": [("liquid2/template.py", "Template." + n) for n in ("render", "render_async", "analyze", "analyze_async", "variables", "variables_async", "variable_paths", "variable_paths_async", "variable_segments", "variable_segments_async", "global_variables", "global_variables_async", "global_variable_paths", "global_variable_paths_async", "global_variable_segments", "global_variable_segments_async", "filter_names", "filter_names_async", "tag_names", "tag_names_async")],
    "extract": [("liquid2/messages.py", n) for n in ("extract_from_template", "extract_from_templates", "extract_liquid")],
    "errors": [],
}


_UNJUSTIFIED_ASSERTS: set[tuple[str, int]] = set()


def _classify_parser_asserts(prog: Program, res: Result) -> None:
    """C02.R10. `assert isinstance(tok, <…Token>)` in a Tag.parse cannot fail on user input only if something established the kind:
    the parser's dispatcher (the assert is about the first token the method reads), or a `stream.expect_tag(…)` / `stream.expect(…)`
    directly before the `tok = stream.current()` it checks. An assert left behind after its expect_tag was deleted fails on the
    end-of-input token of an unclosed block: AssertionError, not LiquidSyntaxError."""
    res.rule("C02.R10", "every `assert isinstance(tok, …Token)` in a tag's parse method is backed by code: tok is the first token the method reads (the parser dispatched on its kind) or it is read with stream.current() immediately after stream.expect_tag(…)/expect(…), with no other stream movement in between")
    _UNJUSTIFIED_ASSERTS.clear()
    n = 0
    moving = ("next", "parse_block", "expect", "expect_tag", "expect_one_of", "expect_eos", "eat", "eat_one_of", "parse", "next_token", "skip")
    for fi in sorted(prog.all_functions(), key=lambda f: (f.file, f.node.lineno)):
        if fi.name != "parse" or fi.cls is None:
            continue

        def blocks(node: ast.AST):  # noqa: ANN202
            for fld in ("body", "orelse", "finalbody"):
                b = getattr(node, fld, None)
                if isinstance(b, list) and b and isinstance(b[0], ast.stmt):
                    yield b
                    for st in b:
                        yield from blocks(st)
            for h in getattr(node, "handlers", []) or []:
                yield from blocks(h)

        first_line = min((c.lineno for c in ast.walk(fi.node) if isinstance(c, ast.Call) and isinstance(c.func, ast.Attribute) and c.func.attr in moving + ("current", "peek") and isinstance(c.func.value, ast.Name) and c.func.value.id in ("stream", "tokens")), default=10**9)
        for body in blocks(fi.node):
            for i, st in enumerate(body):
                if not (isinstance(st, ast.Assert) and isinstance(st.test, ast.Call) and norm(st.test.func) == "isinstance" and len(st.test.args) == 2 and isinstance(st.test.args[0], ast.Name) and "Token" in norm(st.test.args[1])):
                    continue
                n += 1
                var = st.test.args[0].id
                site = f"{fi.file}:{st.lineno} {fi.qualname}"
                what = f"{fi.qualname}: `{norm(st, 70)}` cannot fail on user input"
                # the binding this assert checks: the closest preceding statement of the same block that assigns var
                j = next((k for k in range(i - 1, -1, -1) if isinstance(body[k], ast.Assign) and any(isinstance(t, ast.Name) and t.id == var for t in body[k].targets)), None)
                if j is None:
                    res.ok("C02.R10", site, what, f"`{var}` is a parameter / bound outside this block (first use of the dispatcher's token)")
                    continue
                src = body[j].value
                is_read = isinstance(src, ast.Call) and isinstance(src.func, ast.Attribute) and src.func.attr in ("current", "next") and isinstance(src.func.value, ast.Name)
                if is_read and body[j].lineno <= first_line:
                    res.ok("C02.R10", site, what, "the first token the method reads: the parser dispatched on its kind")
                    continue
                prev = body[j - 1] if j > 0 else None
                expected = prev is not None and isinstance(prev, ast.Expr) and isinstance(prev.value, ast.Call) and isinstance(prev.value.func, ast.Attribute) and prev.value.func.attr in ("expect_tag", "expect") and is_read and src.func.attr == "current"
                # … or the block is entered only when the stream stands on a tag: `while stream.is_tag("elsif"):` with the read first in the body
                owner = next((a for a in fi.module.ancestors(st) if isinstance(a, (ast.While, ast.If)) and body is a.body), None)
                under_is_tag = owner is not None and any(isinstance(c, ast.Call) and isinstance(c.func, ast.Attribute) and c.func.attr in ("is_tag", "is_one_of") for c in ast.walk(owner.test)) and j == 0 and is_read
                if expected:
                    res.ok("C02.R10", site, what, f"read right after `{norm(prev, 50)}`")
                elif under_is_tag:
                    res.ok("C02.R10", site, what, f"first statement of a block entered under `{norm(owner.test, 50)}`")
                elif is_read and src.func.attr == "next" and "Tag" not in norm(st.test.args[1]):
                    res.ok("C02.R10", site, what, "kind of an expression token checked for the type checker only (TokenT union)")
                else:
                    _UNJUSTIFIED_ASSERTS.add((fi.file, st.lineno))
                    res.fail("C02.R10", file=fi.file, line=st.lineno, qualname=fi.qualname, construct=f"{fi.qualname}: assert on `{var}` with nothing establishing its kind", message=f"{fi.qualname} asserts `{norm(st.test, 60)}` for a token read in the middle of the tag (`{norm(body[j], 50)}`) without a stream.expect_tag(…)/expect(…) directly before the read: on an unclosed or malformed block the token is the end-of-input token and the assert raises AssertionError, which is not a LiquidError", what=what)
    res.floor("C02.R10", "token-kind asserts in parse methods", n, 25)


def _is_parser_invariant_assert(e) -> bool:  # noqa: ANN001
    """`assert isinstance(x, <…Token>)` / `assert x is not None` inside a Tag.parse, justified structurally by C02.R10."""
    if e.exc is not AssertionError or not e.qualname.endswith(".parse"):
        return False
    w = e.what
    if (e.file, e.line) in _UNJUSTIFIED_ASSERTS:
        return False
    return (w.startswith("assert isinstance(") and "Token)" in w) or w.endswith("is not None")


_RANGE_POSITIVE = """
def loop(obj: object, rev: bool):
    if isinstance(obj, range):
        it = iter(obj)
    elif isinstance(obj, Sequence):
        it = iter(obj)
    else:
        raise TypeError
    if rev:
        return reversed(list(it))
    return it
"""


def _range_copy_rule(prog: Program, res: Result) -> None:
    """C02.R8: a `(a..b)` literal is a Python range whose length the template text chooses (twelve digits: 10**12 elements); iterating
    it lazily is bounded by the loop limit, copying it is not bounded by anything - MemoryError, which is not a LiquidError, or
    minutes of allocation for a forty-character template."""
    from sa.rangeflow import RangeFlow

    res.rule("C02.R8", "a range taken from the render context is never copied into a container (list/tuple/sorted/set/[*x]/join/comprehension over it) by the loop machinery, the stringifiers or the filter-argument coercions: iterators over it stay lazy (may-be-a-range flow with isinstance refinement, per class / per module, sa/rangeflow.py)")
    import types

    pos_fn = ast.parse(_RANGE_POSITIVE).body[0]
    fake = types.SimpleNamespace(node=pos_fn, cls=None, qualname="loop", file="<positive>")
    pos = RangeFlow(prog, {"loop": fake})  # type: ignore[dict-item]
    if len(pos.copies) != 1:
        raise AnalysisError("C02.R8: the positive example (reversed(list(iter(range)))) is no longer reported exactly once")
    groups: list[tuple[str, str, dict]] = []
    anchors = [("liquid2/builtin/expressions.py", "LoopExpression"), ("liquid2/builtin/expressions.py", None), ("liquid2/stringify.py", None), ("liquid2/filter.py", None)]
    seen_groups: set[tuple[str, str | None]] = set()
    for rel, cname in anchors:
        mod = prog.mod(rel)
        if cname is not None and cname not in mod.classes:
            raise AnalysisError(f"C02.R8 anchor {rel}::{cname} vanished")
        seen_groups.add((rel, cname))
    # every other class / module that tells ranges apart
    for mod in prog.modules.values():
        for n in ast.walk(mod.tree):
            if isinstance(n, ast.Call) and isinstance(n.func, ast.Name) and n.func.id == "isinstance" and len(n.args) == 2 and "range" in {ast.unparse(x) for x in (n.args[1].elts if isinstance(n.args[1], ast.Tuple) else [n.args[1]])}:
                fi = prog.enclosing_function(mod, n)
                if fi is not None:
                    seen_groups.add((mod.relpath, fi.cls.name if fi.cls is not None else None))
    for rel, cname in sorted(seen_groups, key=lambda t: (t[0], t[1] or "")):
        mod = prog.mod(rel)
        if cname is not None:
            groups.append((rel, cname, dict(mod.classes[cname].methods)))
        else:
            groups.append((rel, "<module functions>", {n: f for n, f in mod.functions.items() if f.cls is None and "." not in n}))
    n_fn = 0
    for rel, label, methods in groups:
        rf = RangeFlow(prog, methods)
        n_fn += len(methods)
        for fi in methods.values():
            res.analysed_functions.add(fi.fid)
        bad: set[tuple[str, str]] = set()
        for c in rf.copies:
            how = (dotted(c.call.func) or "join").split(".")[-1] + "()" if isinstance(c.call, ast.Call) else ("comprehension" if isinstance(c.call, (ast.ListComp, ast.SetComp, ast.DictComp)) else ("membership test of a non-int" if isinstance(c.call, ast.Compare) else "display with *"))
            key = (c.fn.qualname, how)
            if key in bad:
                continue
            bad.add(key)
            kinds = " or ".join(sorted(c.kinds - {"other"}))
            res.fail("C02.R8", file=c.fn.file, line=getattr(c.call, "lineno", 0), qualname=c.fn.qualname, construct=f"{c.fn.qualname}: {how} copies a possible range" if not isinstance(c.call, ast.Compare) else f"{c.fn.qualname}: {how} walks a possible range", message=f"{c.fn.qualname}: `{norm(c.call, 80)}` copies `{c.arg}`, which can be a {kinds} whose length is chosen by the template (`(1..999999999999)`): the allocation is bounded by no limit and ends in MemoryError, which is not a LiquidError", what=f"{c.fn.qualname}: ranges stay lazy")
        if not rf.copies:
            res.ok("C02.R8", f"{rel} {label}", f"{len(methods)} functions: no container is built from a value that can be a range or an iterator over one", "may-be-a-range flow")
    res.floor("C02.R8", "functions analysed for range copies", n_fn, 40)



_POW_POSITIVE = """
def lit(val):
    mantissa, _, exponent = val.partition("e")
    exp = int(exponent)
    if len(mantissa) + len(exponent) > 4300:
        raise ValueError
    return int(mantissa) * 10**exp
"""


def _power_guard_rule(prog: Program, res: Result) -> None:
    """C02.R9: `b ** e` with an exponent that is not a constant costs time and memory exponential in the *text* that spelt e
    (`1e3000000` is ten characters). The exponent's VALUE must be bounded on every path to the power: a dominating test whose
    failing side raises and which reads the exponent variable itself - not the length of its spelling."""
    res.rule("C02.R9", "every power with a non-constant exponent (`10**exp` of an exponent-form literal) is dominated by a test that bounds the exponent's value - the exponent variable itself appears in a comparison whose failing side raises - so the work is bounded by the configured digit limit, not by 10**(digits of the exponent)")

    def findings(fn: ast.AST) -> list[tuple[ast.BinOp, str | None]]:
        out = []
        cfg = CFG(fn)
        for p in ast.walk(fn):
            if not (isinstance(p, ast.BinOp) and isinstance(p.op, ast.Pow) and not isinstance(p.right, ast.Constant)):
                continue
            e = p.right
            if not isinstance(e, ast.Name):
                out.append((p, None))
                continue
            node = next((n for n in cfg.nodes if n.node is not None and n.kind in ("stmt", "test") and any(x is p for x in ast.walk(n.node))), None)
            guarded = None
            for t in cfg.nodes:
                if t.kind != "test" or t.node is None or node is None:
                    continue
                bare = [x for c in ast.walk(t.node) if isinstance(c, ast.Compare) for side in [c.left, *c.comparators] for x in _bare_names(side)]
                if e.id not in bare:
                    continue
                raises_on = [lab for m, lab in t.succ if m.kind == "raise" or (m.node is not None and isinstance(m.node, ast.Raise))]
                if not raises_on:
                    continue
                if node.id not in cfg.reachable(cfg.entry, avoid=lambda x, t=t: x is t):
                    guarded = norm(t.node, 80)
            out.append((p, guarded))
        return out

    pos = findings(ast.parse(_POW_POSITIVE).body[0])
    if len(pos) != 1 or pos[0][1] is not None:
        raise AnalysisError("C02.R9: the positive example (a guard on the length of the exponent's spelling) is no longer reported")
    n = n_pow = 0
    for fi in sorted(prog.all_functions(), key=lambda f: (f.file, f.node.lineno)):
        n += 1
        if not any(isinstance(p, ast.BinOp) and isinstance(p.op, ast.Pow) for p in ast.walk(fi.node)):
            continue
        for p, guard in findings(fi.node):
            if prog.enclosing_function(fi.module, p) is not fi:
                continue
            n_pow += 1
            site = f"{fi.file}:{p.lineno} {fi.qualname}"
            what = f"{fi.qualname}: `{norm(p)}` is computed only for a bounded exponent"
            if guard:
                res.ok("C02.R9", site, what, f"dominated by `{guard}` (raises otherwise)")
            else:
                res.fail("C02.R9", file=fi.file, line=p.lineno, qualname=fi.qualname, construct=f"{fi.qualname}: power with an unbounded exponent", message=f"{fi.qualname} computes `{norm(p)}` without a dominating test that bounds `{norm(p.right)}` itself: an exponent-form literal such as `1e3000000` costs seconds and megabytes for ten characters, and the result fails later with a bare ValueError when it is printed", what=what)
    res.floor("C02.R9", "functions scanned for powers", n, 900)
    res.floor("C02.R9", "powers with a non-constant exponent", n_pow, 1)
    # round(x, d) with a negative d builds 10**(-d): the same hidden power. The digits argument must be known non-negative where round() has two arguments.
    from checks.C15 import _path_condition
    from checks.C17 import _known_leaves

    n_round = 0
    for fi in sorted(prog.all_functions(), key=lambda f: (f.file, f.node.lineno)):
        for c in ast.walk(fi.node):
            if not (isinstance(c, ast.Call) and isinstance(c.func, ast.Name) and c.func.id == "round" and len(c.args) == 2 and prog.enclosing_function(fi.module, c) is fi):
                continue
            n_round += 1
            d = c.args[1]
            site = f"{fi.file}:{c.lineno} {fi.qualname}"
            what = f"{fi.qualname}: `{norm(c)}` rounds to a non-negative number of digits"
            ok_ = isinstance(d, ast.Constant) and isinstance(d.value, int) and d.value >= 0
            if isinstance(d, ast.Name):
                known = [kl for t_, pol_ in _path_condition(fi.module, fi.node, c) for kl in _known_leaves(t_, pol_)]
                ok_ = any((txt == f"{d.id} < 0" and not v) or (txt in (f"{d.id} >= 0", f"{d.id} > 0") and v) or (txt == f"{d.id} <= 0" and not v) for txt, v in known)
            if ok_:
                res.ok("C02.R9", site, what, "behind a test that turns negative digits away")
            else:
                res.fail("C02.R9", file=fi.file, line=c.lineno, qualname=fi.qualname, construct=f"{fi.qualname}: round() with possibly negative digits", message=f"{fi.qualname} calls `{norm(c)}` where `{norm(d)}` may be negative: round(int, -n) computes 10**n, and n comes from the template (`{{{{ 5 | round: -99999999 }}}}`) - time and memory exponential in the length of the argument's text, ending in MemoryError", what=what)
    res.floor("C02.R9", "two-argument round() calls", n_round, 1)


def _bare_names(e: ast.AST) -> list[str]:
    """Names that contribute their VALUE to e: not those wrapped in len()/str()/repr() (the length of a spelling bounds nothing)."""
    if isinstance(e, ast.Call) and isinstance(e.func, ast.Name) and e.func.id in ("len", "str", "repr"):
        return []
    if isinstance(e, ast.Name):
        return [e.id]
    out: list[str] = []
    for ch in ast.iter_child_nodes(e):
        out += _bare_names(ch)
    return out


_NONE_POSITIVE = """
def f(items, key=None):
    first = None
    for it in items:
        if it:
            first = it
            break
    x = first.name
    if key:
        return key.upper()
    return key.lower()
"""


def _none_flow_rule(prog: Program, res: Result) -> None:
    """C02.R11: AttributeError / TypeError on None is not a LiquidError. With no type checker in the sandbox, sa/nullflow.py follows
    None through locals: the constant, conditional expressions, parameters declared Optional or defaulting to None, and calls of
    functions declared `-> X | None`; tests refine. A dereference of a may-be-None local, or a may-be-None value returned from a
    function whose annotation does not admit None (every caller trusts it), is reported."""
    import types

    from sa.nullflow import NullFlow

    res.rule("C02.R11", "no local that can be None is dereferenced (`x.attr`, `x[…]`, `x(…)`, `await x`, iteration), and no function whose return annotation excludes None returns a value that can be None: the guards that turn `None` away (`if not base: raise …`) are load-bearing for every caller that trusts the annotation (may-be-None dataflow over every function, sa/nullflow.py)")
    nf = NullFlow(prog)
    pos_fn = ast.parse(_NONE_POSITIVE).body[0]
    fake = types.SimpleNamespace(node=pos_fn, cls=None, qualname="f", file="<positive>", module=prog.mod("liquid2/context.py"), parent_fn=None)
    if sorted(f.name for f in nf.analyse(fake)) != ["first", "key"]:  # type: ignore[arg-type]
        raise AnalysisError("C02.R11: the positive example no longer yields its two findings")
    n = 0
    for fi in sorted(prog.all_functions(), key=lambda f: (f.file, f.node.lineno)):
        n += 1
        for f in nf.analyse(fi):
            if f.kind == "deref":
                res.fail("C02.R11", file=fi.file, line=getattr(f.node, "lineno", fi.node.lineno), qualname=fi.qualname, construct=f"{fi.qualname}: `{f.name}` can be None where it is dereferenced", message=f"{fi.qualname} dereferences `{f.name}`, which can be None here ({f.why}): AttributeError/TypeError, not a LiquidError, escapes", what=f"{fi.qualname}: no dereference of a possibly-None local")
            else:
                res.fail("C02.R11", file=fi.file, line=getattr(f.node, "lineno", fi.node.lineno), qualname=fi.qualname, construct=f"{fi.qualname}: returns a possibly-None value although declared `-> {ast.unparse(fi.node.returns) if fi.node.returns else '?'}`", message=f"{fi.qualname} can return None (`{f.name}`: {f.why}) although its annotation excludes it: callers use the result unchecked (`<result>.render_with_context(…)`), so AttributeError on None escapes where a LiquidError was raised", what=f"{fi.qualname}: the declared return type holds")
    res.ok("C02.R11", "liquid2/**", f"{n} functions: no possibly-None local is dereferenced or returned against the annotation", "forward may-be-None analysis with test refinement; positive example matched twice")
    res.floor("C02.R11", "functions analysed for None flow", n, 900)

def _error_token_rule(prog: Program, res: Result, E: Escapes) -> None:
    """C02.R13: what an error carries as its token is a token. LiquidError.__str__ / detailed_message() / context() read
    token.start, token.source and token.stop; handed an argument object, an expression or a string they raise AttributeError when the
    error is turned into text - after the LiquidError was raised, where nothing converts it."""
    res.rule("C02.R13", "every `token=` argument of a LiquidError constructor is a token: None, an expression the declared types resolve to a token class (TokenT, Token, TagToken, …), or - where no type is declared - a name or attribute called *token* / a token-stream read; an argument wrapper, expression or string there makes str(error) raise AttributeError")
    T = E.types
    base = prog.cls("liquid2.exceptions.LiquidError")
    n = 0

    def token_shaped(e: ast.AST) -> bool:
        if isinstance(e, ast.Constant):
            return e.value is None
        if isinstance(e, ast.Name):
            return "tok" in e.id.lower()
        if isinstance(e, ast.Attribute):
            return "tok" in e.attr.lower()
        if isinstance(e, ast.BoolOp):
            return all(token_shaped(v) for v in e.values)
        if isinstance(e, ast.IfExp):
            return token_shaped(e.body) and token_shaped(e.orelse)
        if isinstance(e, ast.Call):
            q = (dotted(e.func) or "").split(".")[-1]
            return q in ("current", "next", "peek", "eat", "expect", "into_inner") or q.endswith("Token")
        return False

    for fi in sorted(prog.all_functions(), key=lambda f: (f.file, f.node.lineno)):
        for c in E._own(fi.node):
            if not isinstance(c, ast.Call):
                continue
            q = (dotted(c.func) or "").split(".")[-1]
            ci = next((k for m in prog.modules.values() for k in m.classes.values() if k.name == q), None) if q and q[0].isupper() else None
            if ci is None or not prog.is_subclass(ci, base):
                continue
            for k in c.keywords:
                if k.arg != "token":
                    continue
                n += 1
                t = T.of(fi, k.value)
                site = f"{fi.file}:{c.lineno} {fi.qualname}"
                what = f"{fi.qualname}: {q}(token=…) is given a token"
                if t is not None:
                    parts = [p.strip() for p in t.split("|")]
                    ok = all(p == "None" or p == "TokenT" or p.endswith("Token") for p in parts)
                else:
                    ok = token_shaped(k.value)
                if ok:
                    res.ok("C02.R13", site, what, f"`{norm(k.value, 40)}`: {t or 'token-shaped, no declared type'}")
                else:
                    res.fail("C02.R13", file=fi.file, line=c.lineno, qualname=fi.qualname, construct=f"{fi.qualname}: {q}(token={norm(k.value, 30)}) is not a token", message=f"{fi.qualname} raises {q} with token=`{norm(k.value, 50)}` ({t or 'no token type'}): str(error), detailed_message() and context() read .start / .source of it and raise AttributeError - the LiquidError cannot be turned into a message", what=what)
    res.floor("C02.R13", "token= arguments of LiquidError constructors", n, 150)


def run(prog: Program, res: Result) -> None:  # noqa: PLR0912, PLR0915
    res.explanation = (
        "escapes(f) = catalogue sites and explicit raises in f not caught by an enclosing handler, plus the escapes of every "
        "resolved callee not caught around the call; iterated to a fixpoint over the functions reachable from the entry "
        "points. Whatever non-LiquidError class reaches an entry point is reported with its call chain."
    )
    res.not_decided += ["the time bound (termination / complexity) - only lexer resynchronisation is covered, under C17", "RecursionError (excluded by the property)", "exceptions raised inside user drops, loaders' own code and third-party libraries beyond the catalogued calls", "operations outside the catalogue (e.g. arbitrary arithmetic on Decimal values, attribute errors)", "stringification / hashing of operands whose type the code does not declare (counted in stats.undeclared_operands)"]
    from sa.escape import CALL_CATALOGUE
    from sa.escape import METHOD_CATALOGUE

    res.trusted_base += ["call catalogue: " + ", ".join(sorted(CALL_CATALOGUE)), "method catalogue: " + ", ".join(sorted(METHOD_CATALOGUE)), "operators: //, /, % (non-constant divisor; %-format on non-literal strings), constant-index subscripts, assert, explicit raise", "typed sites (sa.types reads the declared annotations): str()/repr()/format()/f-string/%-format/escape()/Markup() of a value declared object/Any (or an int inside a filter function) -> ValueError (int/str digit limit); list.pop()/deque.popleft() without a proven non-empty receiver (sa.lenflow) -> IndexError; `x in y` with y not a str/list/tuple and x declared object/Any -> TypeError (unhashable); itertools.islice unless every bound is proven None or within [0, k*len] (sa.bounds)"]
    exempt = dict(EXEMPT)
    msg_ok, msg_sites, msg_bad = _message_types(prog)
    if msg_ok:
        exempt.update(MESSAGE_EXEMPT)
    E = Escapes(prog, exempt_sites=exempt, exempt_edges=EXEMPT_EDGES)
    roots = []
    for kind, eps in ENTRY_POINTS.items():
        for rel, q in eps:
            f = prog.fn_opt(rel, q)
            if f is not None:
                roots.append((kind, f))
    le = prog.cls("liquid2.exceptions.LiquidError")
    err_methods = []
    for c in prog.subclasses(le):
        for nm in ("__str__", "detailed_message", "context", "_error_context", "_pointer_message", "__init__"):
            if nm in c.methods:
                err_methods.append(("errors", c.methods[nm]))
    res.floor("C02", "entry points", len(roots), 20)
    res.floor("C02", "LiquidError message methods", len(err_methods), 3)
    E.compute([f for _, f in roots + err_methods])
    _error_token_rule(prog, res, E)
    res.stats.update({"reachable_functions": len(E.reachable), "catalogue_sites": E.n_sites, "calls": E.n_calls, "calls_resolved": E.n_resolved, "fixpoint_rounds": E.rounds, "exempted_sites": len(E.exempted)})
    res.floor("C02", "reachable functions", len(E.reachable), 400)
    res.floor("C02", "catalogue sites", E.n_sites, 150)
    for fid in E.reachable:
        res.analysed_functions.add(fid)
    if E.n_calls and E.n_resolved / E.n_calls < 0.9:
        raise AnalysisError(f"call resolution rate dropped to {E.n_resolved / E.n_calls:.0%}")

    # ------------------------------------------------------------------ R1 entry points
    _classify_parser_asserts(prog, res)
    res.rule("C02.R1", "no exception class outside LiquidError escapes a public parse / render / analysis / extraction entry point")
    res.rule("C02.R2", "str(err), err.detailed_message() and err.context() of every LiquidError reach no partial operation that can raise")
    res.rule("C02.R2b", "every LiquidError (subclass) constructed inside liquid2 is given a str, None or an exception object as its message, so formatting the message cannot raise")
    res.floor("C02.R2b", "LiquidError construction sites", msg_sites, 120)
    if msg_ok:
        res.ok("C02.R2b", "liquid2/exceptions.py LiquidError", "message arguments are str / None / exception objects", f"{msg_sites} construction sites")
    for file, line, qual, text, ty in msg_bad:
        res.fail("C02.R2b", file=file, line=line, qualname=qual, construct=f"message {text}", message=f"a LiquidError is constructed with a message declared `{ty}`: str(err) / detailed_message() formats it and an int beyond the digit limit raises ValueError there", what=f"{qual}: message `{text}` is a str")
    res.stats["undeclared_operands"] = len(E.undeclared)
    res.stats["undeclared_operand_samples"] = sorted(set(E.undeclared))[:40]
    res.stats["islice_sites"] = [f"{a}: {b} -> {'bounded' if c else 'catalogued'}" for a, b, c in E.islice_checked]
    reported: set[tuple] = set()
    per_entry = 0
    for kind, f in roots + err_methods:
        rule = "C02.R2" if kind == "errors" else "C02.R1"
        escs = [e for e in E.escapes_of(f) if not E.is_liquid(e.exc) and not _is_parser_invariant_assert(e)]
        site = f"{f.file}:{f.node.lineno} {f.qualname}"
        what = f"entry {f.qualname}: only LiquidError subclasses can escape"
        per_entry += 1
        if not escs:
            res.ok(rule, site, what, f"{len(E.escapes_of(f))} escaping pairs, all LiquidError (or parser token-kind invariants)")
        for e in escs:
            k = e.key()
            if k in reported:
                continue
            reported.add(k)
            chain = [f.qualname] + list(e.chain) + [f"{e.qualname}:{e.line}"]
            res.fail(
                rule,
                file=e.file,
                line=e.line,
                qualname=e.qualname,
                construct=f"{e.exc.__name__}: {e.what}",
                message=f"{e.exc.__name__} raised by `{e.what}` in {e.qualname} is not caught/converted on the path from {f.qualname}: a non-LiquidError escapes",
                path=chain[:14],
                what=f"{e.qualname}: `{e.what}` cannot escape as {e.exc.__name__}",
            )
    # every catalogued site that was examined and is discharged (caught on all chains) counts as an obligation
    n_dis = 0
    for fid, fi in E.reachable.items():
        for node, exc, what in E.local_sites(fi):
            k = (exc.__name__, fi.file, fi.qualname, what)
            if k in reported:
                continue
            n_dis += 1
            if n_dis <= 400:
                why = "exempt: " + exempt[(fi.qualname, what)] if (fi.qualname, what) in exempt else "caught and converted (or defaulted) on every path to an entry point"
                res.ok("C02.R1", f"{fi.file}:{getattr(node, 'lineno', 0)} {fi.qualname}", f"`{what}` cannot escape as {exc.__name__}", why)
    res.stats["discharged_sites"] = n_dis
    # stale exemptions are reported (the table may only name existing sites)
    live = {(fi.qualname, what) for fi in E.reachable.values() for _n, _e, what in _all_sites(E, fi)}
    stale = sorted(k for k in exempt if k not in live)
    res.stats["stale_exemptions"] = [f"{q}: {w}" for q, w in stale]

    # ------------------------------------------------------------------ R4 caller-established preconditions
    res.rule("C02.R4", "Lexer.accept_range is called only from accept_token, under `kind == 'RPAREN'`, with the expression list the token was just appended to (proven non-empty at the call by sa.lenflow)")
    from sa.lenflow import LenFlow
    from sa.util import cfg_node_of

    lx = prog.cls("liquid2.lexer.Lexer")
    ar_sites = []
    for f in prog.all_functions():
        for c in ast.walk(f.node):
            if isinstance(c, ast.Call) and isinstance(c.func, ast.Attribute) and c.func.attr == "accept_range":
                ar_sites.append((f, c))
    res.floor("C02.R4", "accept_range call sites", len(ar_sites), 1)
    for f, c in ar_sites:
        what = f"{f.qualname}: accept_range({norm(c.args[0]) if c.args else ''}) receives a list ending in the RPAREN token"
        problems = []
        if f.cls is not lx or f.name != "accept_token":
            problems.append("called from outside Lexer.accept_token")
        if len(c.args) != 1 or not isinstance(c.args[0], ast.Name):
            problems.append("the expression list is not passed as the single argument")
        else:
            lf = LenFlow(prog, f, E._cfg(f))
            if lf.bound_before(c, c.args[0].id, cfg_node_of) < 1:
                problems.append(f"`{c.args[0].id}` is not proven non-empty at the call")
            guarded = any(isinstance(a, ast.If) and "kind == 'RPAREN'" in norm(a.test) and any(c is x for b in a.body for x in ast.walk(b)) for a in f.module.ancestors(c))
            if not guarded:
                problems.append("not under a `kind == 'RPAREN'` test")
            appended = [x for x in ast.walk(f.node) if isinstance(x, ast.Call) and isinstance(x.func, ast.Attribute) and x.func.attr == "append" and isinstance(x.func.value, ast.Name) and x.func.value.id == c.args[0].id]
            if not appended:
                problems.append("the token is appended to a different list than the one passed")
        if problems:
            res.fail("C02.R4", file=f.file, line=c.lineno, qualname=f.qualname, construct=f"accept_range call: {'; '.join(problems)}", message=f"accept_range pops the closing parenthesis from its argument: {'; '.join(problems)} - pop from an empty list / AssertionError on malformed input", what=what)
        else:
            res.ok("C02.R4", f"{f.file}:{c.lineno} {f.qualname}", what, "non-empty, guarded by the token kind")

    _mapping_protocol_rule(prog, res)
    _cast_belief_rule(prog, res)
    res.rule("C02.R7", "no function of liquid2 reads a local variable on a path that has not bound it: UnboundLocalError never escapes parse / render / analysis / extraction (definite-assignment dataflow over every function)")
    from checks.shared import check_definite_assignment

    check_definite_assignment(prog, res, "C02.R7")
    _range_copy_rule(prog, res)
    _power_guard_rule(prog, res)
    _none_flow_rule(prog, res)
    from checks.C17 import check_lexer_progress

    check_lexer_progress(prog, res, "C02.R12")
    # ------------------------------------------------------------------ R3 boundary converters
    res.rule("C02.R3", "Filter.evaluate[_async] wraps the dynamic filter call in a handler converting (TypeError, ValueError, ArithmeticError, LookupError, AttributeError, OSError) to LiquidTypeError; render_with_context converts stray LiquidInterrupts")
    flt = prog.mod("liquid2/builtin/expressions.py").classes.get("Filter")
    if flt is None:
        raise AnalysisError("Filter class vanished")
    for nm in ("evaluate", "evaluate_async"):
        m = flt.methods.get(nm)
        if m is None:
            raise AnalysisError(f"Filter.{nm} vanished")
        ok = False
        why = "dynamic call not inside a try"
        for t in ast.walk(m.node):
            if isinstance(t, ast.Try) and any(isinstance(c, ast.Call) and isinstance(c.func, ast.Name) and c.func.id == "func" for b in t.body for c in ast.walk(b)):
                caught: set[type] = set()
                converts = False
                for h in t.handlers:
                    cls = E.handler_classes(m.module, h)
                    if any(isinstance(r, ast.Raise) and r.exc is not None and "LiquidTypeError" in norm(r.exc) for r in ast.walk(h)):
                        caught |= set(cls)
                        converts = True
                need = (TypeError, ValueError, ArithmeticError, LookupError, AttributeError, OSError)
                missing = [n.__name__ for n in need if not any(issubclass(n, c) for c in caught)]
                ok = converts and not missing
                why = "converted: " + ", ".join(sorted(c.__name__ for c in caught)) if ok else f"not converted: {missing}"
        site = f"{m.file}:{m.node.lineno} Filter.{nm}"
        what = f"Filter.{nm}: filter failures become LiquidTypeError"
        if ok:
            res.ok("C02.R3", site, what, why)
        else:
            res.fail("C02.R3", file=m.file, line=m.node.lineno, qualname=f"Filter.{nm}", construct=f"Filter.{nm} boundary: {why}", message=f"the filter boundary does not convert every data-dependent builtin error class ({why}): a filter applied to odd data escapes with a non-LiquidError", what=what)
    tmpl = prog.cls("liquid2.template.Template")
    for nm in ("render_with_context", "render_with_context_async"):
        m = tmpl.methods.get(nm)
        what = f"Template.{nm}: LiquidInterrupt outside a loop becomes LiquidSyntaxError unless partial"
        t = norm(m.node, 20000) if m else ""
        if "except LiquidInterrupt as err:" in t and "if not partial or block_scope:" in t and "raise LiquidSyntaxError(" in t:
            res.ok("C02.R3", f"{m.file}:{m.node.lineno} Template.{nm}", what, "converted when not rendering a partial")
        else:
            res.fail("C02.R3", file="liquid2/template.py", line=m.node.lineno if m else 0, qualname=f"Template.{nm}", construct="interrupt conversion", message="a stray break/continue is no longer converted to a LiquidSyntaxError", what=what)
    for nm in ("render", "render_async"):
        m = tmpl.methods.get(nm)
        what = f"Template.{nm} never renders with partial=True"
        if m is not None and "partial=True" not in norm(m.node, 5000):
            res.ok("C02.R3", f"{m.file}:{m.node.lineno} Template.{nm}", what, "default partial=False")
        else:
            res.fail("C02.R3", file="liquid2/template.py", line=m.node.lineno if m else 0, qualname=f"Template.{nm}", construct="partial=True at an entry point", message="the top-level render passes partial=True: loop interrupts escape", what=what)


def _mapping_protocol_rule(prog: Program, res: Result) -> None:
    """C02.R5: the Mapping mixins (`keys/items/values/__eq__`, `dict(m)`) read `m[k] for k in iter(m)`. If `__getitem__` raises
    KeyError for keys outside a domain D, `__iter__` may only yield members of D - or the class supplies keys/items/values itself."""
    res.rule("C02.R5", "every Mapping subclass whose __getitem__ can raise KeyError iterates exactly the keys __getitem__ accepts (or overrides keys/items/values without iterating itself): the abc mixins reached from `for x in obj`, `==`, `dict(obj)` cannot raise KeyError")
    n = 0
    for ci in sorted(prog.all_classes(), key=lambda c: c.full):
        if not any(b.split(".")[-1] in ("Mapping", "MutableMapping") for b in ci.ext_bases) and not any(x.split("[")[0].split(".")[-1] in ("Mapping", "MutableMapping") for x in ci.base_exprs):
            continue
        gi, it = ci.methods.get("__getitem__"), ci.methods.get("__iter__")
        if gi is None or it is None:
            continue
        n += 1
        site = f"{ci.file}:{ci.node.lineno} {ci.qualname}"
        what = f"{ci.qualname}: __iter__ yields only keys __getitem__ accepts"
        raises_key = any(isinstance(r, ast.Raise) and r.exc is not None and norm(r.exc).startswith("KeyError") for r in ast.walk(gi.node))
        if not raises_key:
            res.ok("C02.R5", site, what, "__getitem__ never raises KeyError itself")
            continue
        key = gi.node.args.args[1].arg if len(gi.node.args.args) > 1 else "key"
        dom_attr: set[str] = set()
        dom_const: set[object] = set()
        for t in ast.walk(gi.node):
            if isinstance(t, ast.Compare) and len(t.ops) == 1 and isinstance(t.left, ast.Name) and t.left.id == key:
                rhs = t.comparators[0]
                if isinstance(t.ops[0], (ast.In, ast.NotIn)):
                    if isinstance(rhs, (ast.Tuple, ast.List, ast.Set)) and all(isinstance(e, ast.Constant) for e in rhs.elts):
                        dom_const |= {e.value for e in rhs.elts}  # type: ignore[attr-defined]
                    else:
                        dom_attr.add(norm(rhs))
                elif isinstance(t.ops[0], (ast.Eq, ast.NotEq)) and isinstance(rhs, ast.Constant):
                    dom_const.add(rhs.value)
            if isinstance(t, (ast.For, ast.AsyncFor)) and any(isinstance(x, ast.Subscript) and isinstance(x.slice, ast.Name) and x.slice.id == key and norm(x.value) == norm(t.target) for x in ast.walk(t)):
                dom_attr.add(norm(t.iter))  # chained lookup: for m in self._maps: m[key]
        rets = [r.value for r in ast.walk(it.node) if isinstance(r, ast.Return) and r.value is not None]
        ylds = [y for y in ast.walk(it.node) if isinstance(y, (ast.Yield, ast.YieldFrom))]
        problems = []
        if not rets and not ylds:
            problems.append("__iter__ returns nothing recognisable")
        for v in rets + [y.value for y in ylds if isinstance(y, ast.YieldFrom)]:
            ok = False
            if isinstance(v, ast.Call) and isinstance(v.func, ast.Name) and v.func.id == "iter" and len(v.args) == 1:
                a = v.args[0]
                if isinstance(a, (ast.List, ast.Tuple, ast.Set)) and all(isinstance(e, ast.Constant) and e.value in dom_const for e in a.elts):
                    ok = True
                elif norm(a) in dom_attr:
                    ok = True
            elif isinstance(v, ast.Call) and norm(v.func).split(".")[-1] == "chain" and len(v.args) == 1 and isinstance(v.args[0], ast.Starred) and norm(v.args[0].value) in dom_attr:
                ok = True
            elif v is not None and norm(v) in dom_attr:
                ok = True
            if not ok:
                problems.append(f"__iter__ hands out `{norm(v)[:40]}`, which is not the key domain of __getitem__ ({', '.join(sorted(dom_attr) + sorted(map(repr, dom_const))) or 'unrecognised'})")
        for y in ylds:
            if isinstance(y, ast.Yield):
                problems.append("__iter__ yields element-wise (not decided)")
        if problems:
            # escape hatch: the class supplies the three views itself, none of which iterates self
            own = [ci.methods.get(m) for m in ("keys", "items", "values")]
            if all(o is not None for o in own) and not any(
                (isinstance(x, (ast.For, ast.comprehension)) and norm(x.iter) == "self") or (isinstance(x, ast.Call) and norm(x.func) in ("iter", "list", "dict", "tuple") and x.args and norm(x.args[0]) == "self") or (isinstance(x, ast.Call) and norm(x.func).startswith("super()"))
                for o in own for x in ast.walk(o.node)  # type: ignore[union-attr]
            ):
                res.ok("C02.R5", site, what, "keys/items/values are the class's own and never iterate self; __eq__ and dict() go through them")
                continue
            res.fail("C02.R5", file=ci.file, line=it.node.lineno, qualname=f"{ci.qualname}.__iter__", construct=f"{ci.qualname}.__iter__ vs __getitem__: {problems[0]}", message=f"{ci.qualname} is a Mapping whose {problems[0]}: Mapping.items()/values()/__eq__ index self with whatever __iter__ yields, so `for x in obj` / `obj == obj` in a template raises a bare KeyError", what=what)
        else:
            res.ok("C02.R5", site, what, "same key domain")
    res.floor("C02.R5", "Mapping subclasses with __getitem__ and __iter__", n, 4)


_CAST_POSITIVE = """
def f(context):
    return cast(Translations, context.base_globals.get('translations', None))
def g(context):
    t = context.base_globals.get('translations', None)
    if not isinstance(t, Translations):
        raise LiquidTypeError('x', token=None)
    return t
"""


def _casts_of_context_data(tree: ast.AST) -> list[ast.Call]:
    """`cast(T, e)` where e reads render-time data through a `context` object: a stated belief about caller data."""
    out = []
    for c in ast.walk(tree):
        if isinstance(c, ast.Call) and norm(c.func).split(".")[-1] == "cast" and len(c.args) == 2:
            if any(isinstance(x, ast.Name) and x.id in ("context", "ctx", "render_context") for x in ast.walk(c.args[1])):
                out.append(c)
    return out


def _cast_belief_rule(prog: Program, res: Result) -> None:
    res.rule("C02.R6", "no typing.cast() of a value read from the render context (caller data) to a class or protocol: a cast is an unchecked belief, and the method calls that follow raise AttributeError/TypeError on data of another shape; such values are narrowed with isinstance instead")
    pos = _casts_of_context_data(ast.parse(_CAST_POSITIVE))
    if len(pos) != 1:
        raise AnalysisError("C02.R6 positive example no longer matches exactly once")
    n_cast = 0
    seen: set[int] = set()
    for fi in sorted(prog.all_functions(), key=lambda f: -f.node.lineno):  # innermost definitions first
        for c in ast.walk(fi.node):
            if isinstance(c, ast.Call) and norm(c.func).split(".")[-1] == "cast" and len(c.args) == 2 and id(c) not in seen:
                seen.add(id(c))
                n_cast += 1
                if c in _casts_of_context_data(c):
                    what = f"{fi.qualname}: cast({norm(c.args[0])}, <context data>)"
                    res.fail("C02.R6", file=fi.file, line=c.lineno, qualname=fi.qualname, construct=f"cast({norm(c.args[0])}, {norm(c.args[1])[:60]})", message=f"{fi.qualname} casts a value read from the render context to {norm(c.args[0])} without testing it: data of another shape under that name (e.g. `translations=[…]`) makes the following method call raise a bare AttributeError", what=what)
    res.ok("C02.R6", "liquid2/**", f"{n_cast} cast() calls inspected; none applied to render-context data", "positive example matched once")
    # the other half: a function that promises a liquid2 class / protocol (`-> T`) and returns a value read from the render context
    # tests it with isinstance(v, T) and leaves (raise / return something else) when the test fails
    n_ret = 0
    for fi in sorted(prog.all_functions(), key=lambda f: (f.file, f.node.lineno)):
        ann = fi.node.returns
        if ann is None:
            continue
        tname = norm(ann).strip("'\"")
        tcls = prog.resolve(fi.module, tname) if re.fullmatch(r"[A-Za-z_][A-Za-z0-9_.]*", tname) else None
        from sa.srcmodel import ClassInfo as _CI

        if not isinstance(tcls, _CI):
            continue
        from_ctx: set[str] = set()
        for a in ast.walk(fi.node):
            if isinstance(a, ast.Assign) and len(a.targets) == 1 and isinstance(a.targets[0], ast.Name) and isinstance(a.value, ast.Call) and isinstance(a.value.func, ast.Attribute) and a.value.func.attr in ("get", "resolve") and any(isinstance(x, ast.Name) and x.id in ("context", "ctx", "render_context") for x in ast.walk(a.value.func.value)):
                from_ctx.add(a.targets[0].id)
        rets = [r for r in ast.walk(fi.node) if isinstance(r, ast.Return) and isinstance(r.value, ast.Name) and r.value.id in from_ctx]
        for r in rets:
            n_ret += 1
            v = r.value.id  # type: ignore[union-attr]
            what = f"{fi.qualname} returns `{v}` (read from the render context) as {tname} only after isinstance({v}, {tname})"
            guarded = False
            for t in ast.walk(fi.node):
                if isinstance(t, ast.If):
                    core = t.test.operand if isinstance(t.test, ast.UnaryOp) and isinstance(t.test.op, ast.Not) else t.test
                    neg = core is not t.test
                    if norm(core) == f"isinstance({v}, {tname})":
                        leave = t.body if neg else t.orelse
                        if leave and isinstance(leave[-1], (ast.Raise, ast.Return)) and not any(x is r for b in leave for x in ast.walk(b)):
                            guarded = True
            if guarded:
                res.ok("C02.R6", f"{fi.file}:{r.lineno} {fi.qualname}", what, "narrowed, the failing branch leaves")
            else:
                res.fail("C02.R6", file=fi.file, line=r.lineno, qualname=fi.qualname, construct=f"{fi.qualname} returns context data as {tname} without an isinstance test", message=f"{fi.qualname} hands back `{v}`, a value read from the render context, as {tname} without testing it (or carries on when the test fails): data of another shape under that name makes the caller's method call raise a bare AttributeError", what=what)
    res.floor("C02.R6", "context values returned under a liquid2 type", n_ret, 2)


def _all_sites(E: Escapes, fi):  # noqa: ANN001, ANN202
    return E.local_sites(fi)


def _message_types(prog: Program):  # noqa: ANN202
    """(all ok, number of sites, offending sites) for the first positional argument of every LiquidError construction."""
    from sa.srcmodel import ClassInfo
    from sa.types import TypeApprox

    T = TypeApprox(prog)
    le = prog.cls("liquid2.exceptions.LiquidError")
    n = 0
    bad = []
    for fi in prog.all_functions():
        for c in ast.walk(fi.node):
            if not isinstance(c, ast.Call):
                continue
            d = ast.unparse(c.func)
            if not d.replace(".", "").replace("_", "").isalnum():
                continue
            r = prog.resolve(fi.module, d)
            if not (isinstance(r, ClassInfo) and prog.is_subclass(r, le)):
                continue
            n += 1
            if not c.args or isinstance(c.args[0], ast.Starred):
                continue
            t = T.of(fi, c.args[0])
            parts = {x.strip() for x in (t or "?").split("|")}
            if parts <= {"str", "None", "Exception", "Markup"}:
                continue
            if t is None and isinstance(c.args[0], ast.Call) and "getattribute" in ast.unparse(c.args[0]):
                continue  # StrictUndefined reads its own msg slot through object.__getattribute__
            bad.append((fi.file, c.lineno, fi.qualname, ast.unparse(c.args[0])[:40], t))
    return (not bad), n, bad
