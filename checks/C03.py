"""C03 - async rendering is observationally identical to sync rendering (twin agreement)."""

from __future__ import annotations

import ast
import json
from pathlib import Path

from sa import twins
from sa.report import Result
from sa.report import norm
from sa.srcmodel import Program
from sa.srcmodel import walk_no_nested

META = {
    "technique": "sync/async twin comparator (await-normalised AST equality over every X / X_async pair), "
    "missing-twin and sync-call-in-async lints over the resolved program",
    "level_text": "Decides that every hand-duplicated sync/async pair in the package is the same program modulo "
    "await-normalisation (an enumerated list of rewrites), that no async function calls the sync variant of a "
    "method that has an async twin, and that no overriding class leaves an async default pointing at a sync body "
    "that loads or evaluates. One differing pair is one template/loader input on which render_async() and "
    "render() diverge. Schedules themselves are not explored (see C09 for the shared-state audit).",
    "level_note": "Trusts the enumerated normaliser rewrites (sa/twins.py) and the triaged benign table "
    "(checks/twins_benign.json, one reason per differing statement pair). Behaviour of user drops whose sync and "
    "async item access differ by design is outside the claim.",
}

BENIGN_FILE = Path(__file__).with_name("twins_benign.json")

# names whose async variants matter for observable behaviour (loading / evaluating / rendering)
def _twinned_names(prog: Program) -> dict[str, list[str]]:
    out: dict[str, list[str]] = {}
    for f in prog.all_functions():
        b = twins.strip_async_name(f.name)
        if b != f.name and not b.startswith("__"):
            out.setdefault(b, []).append(f.fid)
    return out


CONTEXT_NAMES = {"context", "static_context", "ctx", "render_context"}
DICT_METHOD_NAMES = {"get"}  # names that collide with builtin container methods: need a typed receiver


def _receiver_ok(call: ast.Call) -> bool:
    """For ambiguous names (dict.get vs RenderContext.get) require a receiver that is a render context."""
    f = call.func
    if not isinstance(f, ast.Attribute):
        return True
    if f.attr not in DICT_METHOD_NAMES:
        return True
    v = f.value
    if isinstance(v, ast.Name) and (v.id in CONTEXT_NAMES or v.id == "self"):
        return True
    if isinstance(v, ast.Attribute) and v.attr == "context":
        return True
    return False


def run(prog: Program, res: Result) -> None:
    res.explanation = (
        "Every function X with a sibling X_async in the same scope (methods, module functions, nested defs; "
        "__call__/filter_async for filters) is normalised (strip await/async/_async, annotations, docstrings, asserts; "
        "executor thunks; yield-from vs return; comprehension vs generator under a consuming call; "
        "isinstance(_, Undefined) vs is_undefined; async protocol-hook helpers; single-use temporaries; alpha-renaming) "
        "and compared structurally. Residual differences must be in the triaged benign table or are violations."
    )
    res.not_decided += [
        "interleavings of concurrent coroutines (no schedule is explored; shared-state audit is C09)",
        "equality of outputs for drops whose __getitem__ and __getitem_async__ differ by design",
    ]
    res.trusted_base += ["sa/twins.py normaliser rewrites", "checks/twins_benign.json"]
    benign = json.loads(BENIGN_FILE.read_text()) if BENIGN_FILE.exists() else []
    benign_idx = {(b["pair"], b["sync"], b["async"]): b for b in benign}
    used_benign: set[tuple[str, str, str]] = set()

    pairs = twins.find_pairs(prog)
    res.floor("C03.R1", "sync/async pairs", len(pairs), 45)
    res.rule("C03.R1", "every sync/async twin pair is identical after await-normalisation, or is a default delegation `return self.<sync>(same args)`")
    n_ident = n_deleg = 0
    sync_ids = set()
    for fs, fa in pairs:
        sync_ids.add(fs.fid)
        res.analysed_functions.update((fs.fid, fa.fid))
        site = f"{fa.file}:{fa.node.lineno} {fa.qualname}"
        what = f"{fa.qualname} == {fs.qualname} modulo await"
        if twins.is_default_delegation(fa.node, fs.name):
            n_deleg += 1
            res.ok("C03.R1", site, what, "default delegation: returns the sync twin with the same arguments")
            continue
        ns, na = twins.normalise(fs.node), twins.normalise(fa.node)
        diffs = twins.diff_functions(ns, na)
        if not diffs:
            n_ident += 1
            res.ok("C03.R1", site, what, "identical after normalisation")
            continue
        pair_id = f"{fa.file}::{fa.qualname}"
        bad = []
        for d in diffs:
            k = (pair_id, d.sync_text, d.async_text)
            if k in benign_idx:
                used_benign.add(k)
            else:
                bad.append(d)
        if not bad:
            res.ok("C03.R1", site, what, "differs only in triaged benign statements: " + "; ".join(benign_idx[(pair_id, d.sync_text, d.async_text)]["reason"] for d in diffs)[:300])
            continue
        for d in bad[:3]:
            res.fail(
                "C03.R1",
                file=fa.file,
                line=d.async_line if d.async_line else fa.node.lineno,
                qualname=fa.qualname,
                construct=f"sync `{d.sync_text}` vs async `{d.async_text}`",
                message=f"async twin differs from {fs.qualname} (line {d.sync_line}): sync does `{d.sync_text[:120]}`, async does `{d.async_text[:120]}`",
                expected=d.sync_text,
                found=d.async_text,
                what=what,
            )
    res.stats["pairs"] = len(pairs)
    res.stats["identical"] = n_ident
    res.stats["default_delegations"] = n_deleg
    res.stats["benign_entries_used"] = len(used_benign)

    # ---------------------------------------------------------------- R2 missing twin
    res.rule(
        "C03.R2",
        "a class that overrides sync method m, inherits m_async from a base, and whose m loads/evaluates/renders "
        "through a twinned method must override m_async too; likewise a sync-only helper that calls a twinned "
        "method on the render path",
    )
    tw = _twinned_names(prog)
    heavy = {n for n in tw if n in ("evaluate", "render", "render_to_output", "render_with_context", "get_template", "load", "get_source", "get_item", "get", "evaluate_args", "_check_cache", "_build_block_stacks", "is_up_to_date")}
    res.stats["twinned_method_names"] = sorted(tw)
    n_over = 0
    for ci in prog.all_classes():
        for name, m in ci.methods.items():
            if m.is_async or name.startswith("__"):
                continue
            an = f"{name}_async"
            am = prog.find_method(ci, an)
            if am is None or am.cls is ci:
                continue
            # the async twin comes from a base; does ci override the sync one relative to that base?
            base_sync = prog.find_method(am.cls, name) if am.cls else None
            if base_sync is m:
                continue
            n_over += 1
            calls = [c for c in walk_no_nested(m.node) if isinstance(c, ast.Call) and isinstance(c.func, ast.Attribute) and c.func.attr in heavy and _receiver_ok(c)]
            site = f"{m.file}:{m.node.lineno} {m.qualname}"
            what = f"{ci.name}.{name} overridden without {an} (inherited from {am.cls.name if am.cls else '?'})"
            if twins.is_default_delegation(am.node, name) and not calls:
                res.ok("C03.R2", site, what, "inherited async default delegates to this body, which calls nothing that has an async variant")
            else:
                res.fail(
                    "C03.R2",
                    file=m.file,
                    line=m.node.lineno,
                    qualname=m.qualname,
                    construct=f"{ci.name}.{name} without {an}",
                    message=f"{ci.name} overrides {name} but inherits {an} from {am.cls.name if am.cls else '?'}; "
                    + (f"the sync body calls {sorted({c.func.attr for c in calls})} so async renders take the sync path" if calls else "the inherited async body is not this method"),
                    what=what,
                )
    res.stats["sync_overrides_with_inherited_async"] = n_over

    # sync-only helpers (no async sibling, not nested in a sync twin) calling heavy twinned methods
    heavy2 = heavy - {"get", "get_item", "is_up_to_date"}
    for f in prog.all_functions():
        if f.is_async or f.fid in sync_ids:
            continue
        p = f.parent_fn
        nested_in_twin = False
        while p is not None:
            if p.fid in sync_ids or p.is_async:
                nested_in_twin = True
            p = p.parent_fn
        if nested_in_twin:
            continue
        if f.cls is not None and prog.find_method(f.cls, f"{f.name}_async") is not None:
            continue
        for c in walk_no_nested(f.node):
            if isinstance(c, ast.Call) and isinstance(c.func, ast.Attribute) and c.func.attr in heavy2:
                res.fail(
                    "C03.R2",
                    file=f.file,
                    line=c.lineno,
                    qualname=f.qualname,
                    construct=f"sync-only {f.qualname} calls .{c.func.attr}()",
                    message=f"{f.qualname} has no async variant but calls `{norm(c, 80)}`; reached from an async render it evaluates synchronously "
                    "(async drops / async loaders are bypassed)",
                    what=f"{f.qualname} calls twinned method {c.func.attr}",
                )
                break

    # ---------------------------------------------------------------- R3 sync call inside async
    res.rule("C03.R3", "inside an async function, a call to a method that has an async twin is the awaited async variant (except the default delegation shape)")
    exceptions = {
        # (qualname, normalised call): reason
        ("LoopExpression.evaluate_async", "self.offset.evaluate(context)"): "narrowed to StringLiteral by isinstance; StringLiteral defines no evaluate_async",
        ("_analyze_async.<locals>._visit", "partial.name.evaluate(static_context)"): "static analysis context holds no data, so no awaitable drop can be involved",
    }
    n_async_calls = 0
    for f in prog.all_functions():
        if not f.is_async:
            continue
        res.analysed_functions.add(f.fid)
        sync_name = twins.strip_async_name(f.name)
        if twins.is_default_delegation(f.node, sync_name):
            continue
        for c in walk_no_nested(f.node):
            if not isinstance(c, ast.Call):
                continue
            nm = c.func.attr if isinstance(c.func, ast.Attribute) else (c.func.id if isinstance(c.func, ast.Name) else None)
            if nm is None:
                continue
            if nm.endswith("_async"):
                n_async_calls += 1
                par = f.module.parent(c)
                what = f"`{norm(c, 70)}` awaited"
                # allowed un-awaited uses: passed to partial(...) / returned as awaitable
                if isinstance(par, ast.Await):
                    res.ok("C03.R3", f"{f.file}:{c.lineno} {f.qualname}", what, "awaited")
                else:
                    res.fail("C03.R3", file=f.file, line=c.lineno, qualname=f.qualname, construct=c, message="async variant called without await: the coroutine object is used as the value", what=what)
                continue
            if nm in tw and not nm.startswith("_analyze"):
                if not _receiver_ok(c):
                    continue
                if isinstance(c.func, ast.Name) and nm not in ("_build_block_stacks", "_check_cache"):
                    continue
                key = (f.qualname, norm(c))
                if key in exceptions:
                    res.ok("C03.R3", f"{f.file}:{c.lineno} {f.qualname}", f"`{norm(c, 70)}` sync call in async function", "exception: " + exceptions[key])
                    continue
                res.fail(
                    "C03.R3",
                    file=f.file,
                    line=c.lineno,
                    qualname=f.qualname,
                    construct=c,
                    message=f"async function calls the sync `{nm}` although `{nm}_async` exists: async drops/loaders are bypassed on this path",
                    what=f"`{norm(c, 70)}` uses the async variant",
                )
    res.floor("C03.R3", "awaited async calls", n_async_calls, 80)

    # ------------------------------------------------------------------ R4 async-only hooks are found on the type
    res.rule("C03.R4", "an async-only protocol hook (__getitem_async__) is detected on the object's type, as Python looks special methods up: hasattr(obj, …) on the instance is also true for objects with a permissive __getattr__, which then take a path the sync renderer never takes")
    n_hook = 0
    for mod in prog.modules.values():
        for c in ast.walk(mod.tree):
            if isinstance(c, ast.Call) and isinstance(c.func, ast.Name) and c.func.id in ("hasattr", "getattr") and len(c.args) >= 2 and isinstance(c.args[1], ast.Constant) and isinstance(c.args[1].value, str) and c.args[1].value.endswith("_async__"):
                n_hook += 1
                fi = prog.enclosing_function(mod, c)
                q = fi.qualname if fi else "<module>"
                recv = c.args[0]
                on_type = isinstance(recv, ast.Call) and isinstance(recv.func, ast.Name) and recv.func.id == "type"
                what = f"`{norm(c)}` looks the hook up on the type"
                if on_type:
                    res.ok("C03.R4", f"{mod.relpath}:{c.lineno} {q}", what, "type(obj)")
                else:
                    res.fail("C03.R4", file=mod.relpath, line=c.lineno, qualname=q, construct=f"{norm(c)} on the instance", message=f"`{norm(c)}` asks the instance: an object whose __getattr__ answers every name (attribute-style dicts, mocks) is sent down the awaitable path, the await fails and render_async() sees the variable as undefined while render() finds it", what=what)
    res.floor("C03.R4", "async hook detections", n_hook, 1)

    # ------------------------------------------------------------------ R5 async element reads go through the awaiting helper
    res.rule("C03.R5", "in the async item getter every element of the data object is read through the helper that awaits __getitem_async__ when the object has one: no direct `obj[…]`, `obj.items()`, `obj.values()` or `obj.get(…)` outside that helper (those read an awaitable drop through its synchronous __getitem__, and render_async then shows what render would not)")
    n_r5 = 0
    for fi in sorted(prog.all_functions(), key=lambda f: (f.file, f.node.lineno)):
        if not isinstance(fi.node, ast.AsyncFunctionDef):
            continue
        helpers = [h for h in ast.walk(fi.node) if isinstance(h, (ast.FunctionDef, ast.AsyncFunctionDef)) and h is not fi.node and any(isinstance(c, ast.Constant) and c.value == "__getitem_async__" for c in ast.walk(h))]
        if not helpers:
            continue
        data_params = [p for p in fi.params() if p not in ("self", "cls", "key", "context")]
        inside_helper = {id(x) for h in helpers for x in ast.walk(h)}
        for x in ast.walk(fi.node):
            if id(x) in inside_helper:
                continue
            direct = None
            if isinstance(x, ast.Subscript) and isinstance(x.ctx, ast.Load) and isinstance(x.value, ast.Name) and x.value.id in data_params:
                direct = x
            elif isinstance(x, ast.Call) and isinstance(x.func, ast.Attribute) and x.func.attr in ("items", "values", "get", "__getitem__") and isinstance(x.func.value, ast.Name) and x.func.value.id in data_params:
                direct = x
            if direct is not None:
                n_r5 += 1
                res.fail("C03.R5", file=fi.file, line=direct.lineno, qualname=fi.qualname, construct=f"{fi.qualname}: direct element read {norm(direct, 40)} beside the awaiting helper", message=f"{fi.qualname} reads `{norm(direct, 50)}` directly although it has a helper that awaits __getitem_async__: an awaitable drop is read through its synchronous __getitem__ here, so render_async() and render() can differ", what=f"{fi.qualname}: element reads go through the awaiting helper")
        calls = [c for c in ast.walk(fi.node) if id(c) not in inside_helper and isinstance(c, ast.Call) and isinstance(c.func, ast.Name) and c.func.id in {h.name for h in helpers}]
        n_r5 += len(calls)
        res.ok("C03.R5", f"{fi.file}:{fi.node.lineno} {fi.qualname}", f"{fi.qualname}: {len(calls)} element reads through {[h.name for h in helpers]}", "no direct element read outside the helper (findings listed separately if any)")
    # no floor: when no async getter keeps an awaiting helper (e.g. it delegates to the sync getter) the rule has nothing to say and the twin comparison (R1) decides
    res.stats["C03.R5.element_reads"] = n_r5
