"""C04 - auto-escape: untrusted data never reaches the output unescaped (closure over all sinks)."""

from __future__ import annotations

import ast

from sa.report import Result
from sa.report import norm
from sa.srcmodel import ClassInfo
from sa.srcmodel import FunctionInfo
from sa.srcmodel import Program
from sa.srcmodel import dotted
from sa.taint import MARKUP
from sa.taint import Safety

META = {
    "technique": "closure argument over all output sinks: flow-sensitive abstract-value dataflow (content-safe / unknown) "
    "with isinstance(Markup) narrowing, discharging every buffer.write and every Markup(...) construction in the package",
    "level_text": "Output sites escape everything that is not Markup, so unescaped data can reach the output only through "
    "(S1) a buffer.write whose argument is not escaped/author-literal/engine-made, or (S2) a Markup(...) construction "
    "wrapping content that is not escaped, literal, percent-encoded, engine-rendered or already Markup. The check "
    "enumerates every such sink in liquid2 and discharges each by dataflow; it also checks that no class mints safe "
    "strings (__html__) and that the default registration wires auto_escape_message to env.auto_escape. "
    "Up to the markupsafe model this decides the property for the built-in tags and filters.",
    "level_note": "Trusted model of markupsafe (escape, Markup methods escape their arguments, unescape/striptags return "
    "plain str), urllib.parse.quote_plus (no HTML-significant output), strip_tags (keeps entity references), and the "
    "assumption that translation catalogues are translator-authored. `safe` and register_translation_filters("
    "autoescape_message=False) are the documented opt-outs. __html__ of user objects is outside the claim.",
}
META["technique"] += "; typestate over the trusted stringifiers' own bodies (every return escaped when auto_escape is true)"
META["technique"] += '; checked belief: strip_tags never decodes character references'
META["level_text"] += ' Also decided (S4): to_liquid_string/_to_liquid_string themselves return only escaped text on every path when auto_escape is true.'


def _is_render_method(fi: FunctionInfo) -> bool:
    return fi.name in ("render_to_output", "render_to_output_async", "render", "render_async")


def run(prog: Program, res: Result) -> None:
    res.explanation = (
        "Every `<buffer>.write(x)` in a Node render method and every `Markup(x)` construction anywhere in liquid2 is a "
        "sink. For each, the abstract value of x at that program point (flow-sensitive over the function's CFG) must be "
        "SAFE: a constant, an author literal (field of an AST node), escape()/to_liquid_string(auto_escape=<env flag>)/"
        "quote_plus output, the value of a render buffer, an engine integer, something narrowed by isinstance(_, Markup), "
        "or a safe combination of these. Anything else is reported."
    )
    res.not_decided += ["correctness of markupsafe itself", "__html__ implementations of user objects", "the non-default register_translation_filters(autoescape_message=False) opt-out"]
    res.trusted_base += [
        "markupsafe.escape / Markup method semantics",
        "urllib.parse.quote_plus emits no < > & ' \"",
        "liquid2.utils.html.strip_tags keeps entity references (convert_charrefs=False)",
        "AST node / expression fields are author text fixed at parse time (no render-time writes: C09.R2)",
    ]
    S = Safety(prog)
    filters, _ = prog.registries()
    safe_filter_fns = {t.fid for _, t, _, _ in filters.get("safe", []) if isinstance(t, FunctionInfo)}
    node_base = prog.cls("liquid2.ast.Node")

    # ------------------------------------------------------------------ S1
    res.rule("C04.S1", "every buffer.write(x) in a Node render method writes escaped, author-literal or engine-made text")
    n_w = 0
    for ci in prog.subclasses(node_base):
        for m in ci.methods.values():
            if not _is_render_method(m):
                continue
            params = m.params()
            bufs = {p for p in params if p in ("buffer", "buf")}
            res.analysed_functions.add(m.fid)
            for c in ast.walk(m.node):
                if not (isinstance(c, ast.Call) and isinstance(c.func, ast.Attribute) and c.func.attr == "write" and isinstance(c.func.value, ast.Name)):
                    continue
                recv = c.func.value.id
                if recv not in bufs:
                    # a local buffer obtained from get_output_buffer is a capture: its content is re-emitted via S2/markup()
                    continue
                n_w += 1
                site = f"{m.file}:{c.lineno} {m.qualname}"
                arg = c.args[0] if c.args else None
                what = f"`{norm(c, 90)}` writes safe text"
                st = S.state_at(m, c)
                if st is None:
                    res.ok("C04.S1", site, what, "unreachable")
                    continue
                if arg is not None and S.safe(m, arg, st):
                    res.ok("C04.S1", site, what, _why(S, m, arg, st))
                else:
                    res.fail(
                        "C04.S1",
                        file=m.file,
                        line=c.lineno,
                        qualname=m.qualname,
                        construct=c,
                        message=f"`{norm(arg, 80) if arg is not None else ''}` is written to the output without passing an escape: "
                        "render data can reach the page with < > & ' \" intact under auto_escape",
                        what=what,
                    )
    res.floor("C04.S1", "buffer.write sites in render methods", n_w, 15)

    # ------------------------------------------------------------------ S2
    res.rule("C04.S2", "every Markup(x) construction wraps content that is constant, author-literal, escaped, percent-encoded, engine-rendered or already Markup")
    n_m = 0
    for fi in prog.all_functions():
        for c in ast.walk(fi.node):
            if not isinstance(c, ast.Call) or prog.enclosing_function(fi.module, c) is not fi:
                continue
            if not S.is_markup_ctor(fi, c):
                continue
            n_m += 1
            res.analysed_functions.add(fi.fid)
            site = f"{fi.file}:{c.lineno} {fi.qualname}"
            arg = c.args[0] if c.args else None
            what = f"`{norm(c, 80)}` wraps safe content"
            if fi.fid in safe_filter_fns:
                res.ok("C04.S2", site, what, "the `safe` filter: the documented opt-out (identified by its registry name)")
                continue
            if fi.cls is not None and fi.cls.full == "liquid2.context.RenderContext" and fi.name == "markup":
                res.ok("C04.S2", site, what, "RenderContext.markup: the argument is checked at every call site by C04.S2b")
                continue
            par = fi.module.parent(c)
            if isinstance(par, ast.Attribute) and par.attr in ("unescape", "striptags"):
                res.ok("C04.S2", site, what, f"result is immediately .{par.attr}()'d: a plain str, escaped again at output")
                continue
            st = S.state_at(fi, c, param_safe=lambda p, fi=fi: S.param_safe(fi, p))
            if st is None:
                res.ok("C04.S2", site, what, "unreachable")
                continue
            if arg is None or S.safe(fi, arg, st):
                res.ok("C04.S2", site, what, _why(S, fi, arg, st) if arg is not None else "empty Markup")
            else:
                res.fail(
                    "C04.S2",
                    file=fi.file,
                    line=c.lineno,
                    qualname=fi.qualname,
                    construct=c,
                    message=f"Markup() wraps `{norm(arg, 80)}`, which is not known to be escaped / literal / already Markup: "
                    "the value will be emitted without escaping",
                    what=what,
                )
    res.floor("C04.S2", "Markup() constructions", n_m, 12)

    # callers of RenderContext.markup(s)
    res.rule("C04.S2b", "every context.markup(x) call passes the content of a render buffer (or other safe text)")
    n_mk = 0
    for fi in prog.all_functions():
        for c in ast.walk(fi.node):
            if isinstance(c, ast.Call) and isinstance(c.func, ast.Attribute) and c.func.attr == "markup" and len(c.args) == 1 and prog.enclosing_function(fi.module, c) is fi:
                n_mk += 1
                st = S.state_at(fi, c)
                site = f"{fi.file}:{c.lineno} {fi.qualname}"
                what = f"`{norm(c, 80)}` marks safe text"
                if st is None or S.safe(fi, c.args[0], st):
                    res.ok("C04.S2b", site, what, _why(S, fi, c.args[0], st or {}))
                else:
                    res.fail("C04.S2b", file=fi.file, line=c.lineno, qualname=fi.qualname, construct=c, message=f"context.markup() marks `{norm(c.args[0], 60)}` safe although it is not the content of a render buffer", what=what)
    res.floor("C04.S2b", "context.markup() calls", n_mk, 2)

    # ------------------------------------------------------------------ S2c safe-marking is conditioned like the escaping
    res.rule("C04.S2c", "where a function escapes its inputs under a condition (to_liquid_string(..., auto_escape=E)) and later marks its result safe under a condition G (if G: x = Markup(x)), G implies E: nothing is marked safe on a path where its inputs were not escaped")
    n_s2c = 0

    def _conj(e: ast.AST | None) -> set[str]:
        if e is None:
            return set()
        if isinstance(e, ast.BoolOp) and isinstance(e.op, ast.And):
            out: set[str] = set()
            for v in e.values:
                out |= _conj(v)
            return out
        return {norm(e)}

    for fi in prog.all_functions():
        escs = [c for c in ast.walk(fi.node) if isinstance(c, ast.Call) and (dotted(c.func) or "").endswith("to_liquid_string") and any(k.arg == "auto_escape" for k in c.keywords)]
        if not escs:
            continue
        e_sets = [_conj(next(k.value for k in c.keywords if k.arg == "auto_escape")) for c in escs]
        need = set.union(*e_sets) if e_sets else set()
        if need <= {"False"}:
            continue
        for t in ast.walk(fi.node):
            if not isinstance(t, ast.If):
                continue
            marks = [c for b in t.body for c in ast.walk(b) if isinstance(c, ast.Call) and S.qual(fi, c.func) in MARKUP and c.args and isinstance(c.args[0], ast.Name)]
            if not marks:
                continue
            n_s2c += 1
            g = _conj(t.test)
            site = f"{fi.file}:{t.lineno} {fi.qualname}"
            what = f"{fi.qualname}: `if {norm(t.test, 50)}: … Markup(…)` implies the inputs were escaped ({' and '.join(sorted(need))})"
            if need <= g:
                res.ok("C04.S2c", site, what, "guard covers the escaping condition")
            else:
                res.fail("C04.S2c", file=fi.file, line=t.lineno, qualname=fi.qualname, construct=f"Markup under `{norm(t.test, 40)}` while inputs are escaped under `{' and '.join(sorted(need))}`", message=f"{fi.qualname} escapes its inputs only when `{' and '.join(sorted(need))}` but marks the result safe whenever `{norm(t.test, 40)}`: when {sorted(need - g)} is false, render data passes through unescaped and is then protected from escaping by the Markup wrapper", what=what)
    res.floor("C04.S2c", "conditional safe-markings next to conditional escaping", n_s2c, 5)

    # ------------------------------------------------------------------ S4 the trusted sanitisers' own bodies
    res.rule("C04.S4", "the stringifiers the other rules trust (to_liquid_string, _to_liquid_string): with auto_escape true, every return hands back a value last assigned from escape(...) - no branch returns before the escape")
    from sa.cfg import CFG
    from sa.cfg import forward

    sanitisers = [f for f in (prog.fn_opt("liquid2/stringify.py", "to_liquid_string"), prog.fn_opt("liquid2/builtin/expressions.py", "_to_liquid_string")) if f is not None]
    res.floor("C04.S4", "stringifier functions", len(sanitisers), 2)
    for f in sanitisers:
        res.analysed_functions.add(f.fid)
        if "auto_escape" not in f.params():
            res.fail("C04.S4", file=f.file, line=f.node.lineno, qualname=f.qualname, construct="no auto_escape parameter", message="the stringifier lost its auto_escape parameter", what=f"{f.qualname}: escapes when auto_escape is true")
            continue
        cfg = CFG(f.node)

        def transfer(n, st, label):  # noqa: ANN001, ANN202
            if n.kind == "test" and n.node is not None and norm(n.node) == "auto_escape" and label == "false":
                return None  # analysed under the assumption auto_escape == True
            if n.kind == "test" and n.node is not None and norm(n.node) == "not auto_escape" and label == "true":
                return None
            if label == "exc":
                return st
            if n.kind == "stmt" and isinstance(n.node, (ast.Assign, ast.AnnAssign, ast.AugAssign)):
                tg = n.node.targets if isinstance(n.node, ast.Assign) else [n.node.target]
                v = n.node.value
                out = set(st)
                for t in tg:
                    if isinstance(t, ast.Name):
                        is_esc = not isinstance(n.node, ast.AugAssign) and isinstance(v, ast.Call) and S.qual(f, v.func) in ("markupsafe.escape",) and len(v.args) == 1  # noqa: B023
                        if is_esc:
                            out.add(t.id)
                        else:
                            out.discard(t.id)
                return frozenset(out)
            return st

        IN = forward(cfg, frozenset(), transfer, lambda a, b: a & b, bottom=None)
        rets = [n for n in cfg.nodes if n.kind == "stmt" and isinstance(n.node, ast.Return)]
        res.floor("C04.S4", f"return statements in {f.qualname}", len(rets), 1)
        for r in rets:
            site = f"{f.file}:{r.line} {f.qualname}"
            what = f"`{norm(r.node, 60)}` returns escaped text when auto_escape is true"
            if r.id not in IN:
                res.ok("C04.S4", site, what, "unreachable when auto_escape is true")
                continue
            v = r.node.value
            direct = isinstance(v, ast.Call) and S.qual(f, v.func) == "markupsafe.escape"
            if direct or (isinstance(v, ast.Name) and v.id in IN[r.id]) or (isinstance(v, ast.Constant)):
                res.ok("C04.S4", site, what, "value last assigned from escape(...) on every path")
            else:
                res.fail("C04.S4", file=f.file, line=r.line, qualname=f.qualname, construct=f"{norm(r.node, 60)} before escape", message=f"`{norm(r.node, 60)}` is reachable with auto_escape true without the value passing through escape(): every output statement, template string and filter argument relies on this function to escape context data", what=what)

    # ------------------------------------------------------------------ S3
    res.rule("C04.S5", "a template is rendered only by the Environment it was parsed for: the caching loaders return a hit only behind an unconditional `<cached>.env is not env` test (RenderContext.auto_escape is read from template.env, so a template cached for a non-escaping environment would render unescaped in an escaping one; shared with C14.R5)")
    from checks.shared import check_cache_hit_environment

    check_cache_hit_environment(prog, res, "C04.S5")
    res.rule("C04.S3", "no other minting of safe strings: no __html__ in liquid2, no auto_escape=False at an output node, default translation filters wired to env.auto_escape, render buffers filled only by node rendering")
    for ci in prog.all_classes():
        if "__html__" in ci.methods:
            m = ci.methods["__html__"]
            res.fail("C04.S3", file=ci.file, line=m.node.lineno, qualname=m.qualname, construct=f"{ci.name}.__html__", message="a liquid2 class defines __html__: its instances are emitted unescaped", what="no __html__ in liquid2")
    res.ok("C04.S3", "liquid2/**", "no class in liquid2 defines __html__", f"{sum(1 for _ in prog.all_classes())} classes scanned")
    # aliases of Markup that escape the ctor scan (getattr-style construction)
    for fi in prog.all_functions():
        for n in ast.walk(fi.node):
            if isinstance(n, ast.Attribute) and n.attr in ("__new__", "__html_format__") and (S.qual(fi, n.value) in MARKUP):
                res.fail("C04.S3", file=fi.file, line=n.lineno, qualname=fi.qualname, construct=n, message="Markup constructed through __new__", what="no Markup.__new__")
    # type(x)(...) / x.__class__(...) can mint a Markup from a Markup-typed operand without naming Markup
    n_dyn = 0
    for fi in prog.all_functions():
        for c in ast.walk(fi.node):
            if not isinstance(c, ast.Call):
                continue
            f = c.func
            dyn = (isinstance(f, ast.Call) and isinstance(f.func, ast.Name) and f.func.id == "type" and len(f.args) == 1) or (isinstance(f, ast.Attribute) and f.attr == "__class__")
            if not dyn or prog.enclosing_function(fi.module, c) is not fi:
                continue
            n_dyn += 1
            recv = f.args[0] if isinstance(f, ast.Call) else f.value
            if isinstance(recv, ast.Name) and recv.id in ("self", "cls"):
                res.ok("C04.S3", f"{fi.file}:{c.lineno} {fi.qualname}", f"`{norm(c, 60)}` constructs the receiver's own class", "self.__class__(…): not a string type")
            else:
                res.fail("C04.S3", file=fi.file, line=c.lineno, qualname=fi.qualname, construct=c, message="value constructed through type(x)(…)/x.__class__(…): if x is Markup this mints a safe string from unescaped content", what="no dynamic construction of string types")
    # auto_escape= at to_liquid_string call sites inside Node classes
    n_ae = 0
    for ci in prog.subclasses(node_base):
        for m in ci.methods.values():
            if not _is_render_method(m):
                continue  # helpers that stringify lookup keys (message contexts, template names) write nothing; what a render method writes is S1's business
            for c in ast.walk(m.node):
                if isinstance(c, ast.Call) and (dotted(c.func) or "").endswith("to_liquid_string"):
                    kw = {k.arg: k.value for k in c.keywords}
                    n_ae += 1
                    site = f"{m.file}:{c.lineno} {m.qualname}"
                    what = f"`{norm(c, 80)}` passes the environment's auto_escape flag"
                    if S.autoescape_flag_ok(kw.get("auto_escape"), {}) or _local_flag(m, kw.get("auto_escape")):
                        res.ok("C04.S3", site, what, f"auto_escape={norm(kw['auto_escape'])}")
                    else:
                        res.fail("C04.S3", file=m.file, line=c.lineno, qualname=m.qualname, construct=c, message="to_liquid_string at an output node without the environment's auto_escape flag (defaults to False)", what=what)
    res.floor("C04.S3", "to_liquid_string calls in nodes", n_ae, 6)
    # default registration: TranslatableFilter constructions pass auto_escape_message=env.auto_escape
    n_reg = 0
    reg = prog.fn_opt("liquid2/builtin/__init__.py", "register_default_tags_and_filters")
    if reg is not None:
        tf = prog.resolve_abs("liquid2.builtin.filters.translate.BaseTranslateFilter")
        for c in ast.walk(reg.node):
            if isinstance(c, ast.Call):
                r = prog.resolve(reg.module, dotted(c.func) or "")
                if isinstance(r, ClassInfo) and isinstance(tf, ClassInfo) and prog.is_subclass(r, tf):
                    n_reg += 1
                    kw = {k.arg: k.value for k in c.keywords}
                    site = f"{reg.file}:{c.lineno} {reg.qualname}"
                    what = f"`{norm(c, 80)}` escapes the message operand under auto-escape"
                    v = kw.get("auto_escape_message")
                    if v is not None and norm(v) in ("env.auto_escape", "True"):
                        res.ok("C04.S3", site, what, f"auto_escape_message={norm(v)}")
                    else:
                        res.fail("C04.S3", file=reg.file, line=c.lineno, qualname=reg.qualname, construct=c, message="translation filter registered without auto_escape_message=env.auto_escape: its Markup(text) wraps an unescaped operand", what=what)
    res.floor("C04.S3", "default translation filter registrations", n_reg, 5)
    # ------------------------------------------------------------------ S6 the belief about strip_tags, checked against its code
    res.rule("C04.S6", "strip_tags preserves the safety of what it is given - the taint engine lets `Markup(strip_tags(<Markup>))` pass - only because removing tags never decodes a character reference: the parser in liquid2/utils/html.py is constructed with convert_charrefs=False and nothing in that module unescapes (html.unescape, convert_charrefs=True); decoded, the `&lt;script&gt;` inside an already escaped capture becomes `<script>` under a Markup mark")
    html_mod = prog.mod("liquid2/utils/html.py")
    n_s6 = 0
    bad_s6 = []
    for c6 in ast.walk(html_mod.tree):
        if isinstance(c6, ast.Call):
            q6 = (dotted(c6.func) or "").split(".")[-1]
            if q6 in ("unescape", "html_unescape") or "unescape" in q6:
                bad_s6.append((c6, f"`{norm(c6, 40)}` decodes character references"))
            for k6 in c6.keywords:
                if k6.arg == "convert_charrefs":
                    n_s6 += 1
                    if not (isinstance(k6.value, ast.Constant) and k6.value.value is False):
                        bad_s6.append((c6, f"convert_charrefs={norm(k6.value)}"))
    if bad_s6:
        c6, why6 = bad_s6[0]
        fi6 = prog.enclosing_function(html_mod, c6)
        res.fail("C04.S6", file=html_mod.relpath, line=c6.lineno, qualname=fi6.qualname if fi6 else "<module>", construct=f"liquid2/utils/html.py: {why6[:50]}", message=f"{why6}: text that was escaped on its way into a Markup value (a capture of `{{{{ x }}}}` under auto-escape) is decoded back to raw `<`, `>`, `&` while strip_html keeps the Markup mark on Markup input - `{{% capture c %}}{{{{ x }}}}{{% endcapture %}}{{{{ c | strip_html }}}}` prints the script tag", what="strip_tags never decodes character references")
    else:
        res.ok("C04.S6", f"{html_mod.relpath}:1 StripParser", "strip_tags never decodes character references", "convert_charrefs=False, no unescape call")
    res.floor("C04.S6", "convert_charrefs settings in utils/html.py", n_s6, 1)
    # render buffers: a buffer obtained from get_output_buffer may only be passed to render calls (never written with data)
    for fi in prog.all_functions():
        bufs: set[str] = set()
        for n in ast.walk(fi.node):
            if isinstance(n, ast.Assign) and isinstance(n.value, ast.Call) and isinstance(n.value.func, ast.Attribute) and n.value.func.attr == "get_output_buffer":
                bufs |= {t.id for t in n.targets if isinstance(t, ast.Name)}
        for c in ast.walk(fi.node):
            if isinstance(c, ast.Call) and isinstance(c.func, ast.Attribute) and c.func.attr in ("write", "writelines") and isinstance(c.func.value, ast.Name) and c.func.value.id in bufs:
                st = S.state_at(fi, c)
                if st is not None and not (c.args and S.safe(fi, c.args[0], st)):
                    res.fail("C04.S3", file=fi.file, line=c.lineno, qualname=fi.qualname, construct=c, message="a capture buffer (later wrapped in Markup) is written with unescaped data", what="capture buffers hold only rendered output")


def _local_flag(m: FunctionInfo, e: ast.expr | None) -> bool:
    """`auto_escape` local assigned from context.env.auto_escape."""
    if not isinstance(e, ast.Name):
        return False
    for n in ast.walk(m.node):
        if isinstance(n, ast.Assign) and any(isinstance(t, ast.Name) and t.id == e.id for t in n.targets):
            if (dotted(n.value) or "").endswith("auto_escape"):
                return True
    return False


def _why(S: Safety, fi: FunctionInfo, arg: ast.AST | None, st: dict) -> str:
    if arg is None:
        return "no argument"
    if isinstance(arg, ast.Constant):
        return "constant"
    if isinstance(arg, ast.JoinedStr):
        return "f-string over constants / engine integers / safe parts"
    if isinstance(arg, ast.Name):
        return f"`{arg.id}` is safe on every path here (escaped / narrowed to Markup / safe-derived)"
    if isinstance(arg, ast.Attribute):
        return "author text: field of an AST node fixed at parse time"
    if isinstance(arg, ast.Call):
        d = dotted(arg.func) or norm(arg.func)
        return f"result of {d}(…) is safe by the model"
    return "safe combination"
