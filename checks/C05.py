"""C05 - templates cannot reach Python attributes of context objects (closed-world reflection audit)."""

from __future__ import annotations

import ast
import builtins
import collections.abc
import datetime
import decimal

from sa.cfg import CFG
from sa.report import AnalysisError
from sa.report import Result
from sa.report import norm
from sa.srcmodel import ClassInfo
from sa.srcmodel import FunctionInfo
from sa.srcmodel import Program
from sa.srcmodel import dotted

META = {
    "technique": "closed-world reflection audit (every getattr/hasattr/__getattribute__/format site classified against a "
    "protocol table), attribute-vocabulary + isinstance-dominance check on data-plane receivers over the CFG",
    "level_text": "Decides that the set of attribute names the engine can read on a context value is a fixed finite set "
    "none of which comes from template text: every reflective site is constant-named with a protocol name, or a "
    "getattr(self, key) guarded by a literal key set of public members, and every attribute read on a data-plane "
    "variable is a method of a builtin/stdlib value type, a protocol hook, or dominated by an isinstance narrowing to "
    "an engine class. Exhaustive over the package; what a user drop's own __getitem__ exposes is outside the claim.",
    "level_note": "Trusts CPython ast; the data-plane variable classification (filter parameters, evaluate()/get()/"
    "resolve() results and what is derived from them by iteration/subscript) is the rule's own table, printed in evidence.",
}
META["technique"] += '; no-call rule on data-plane values'
META["technique"] += '; base_globals forwarding of every context built in RenderContext.copy'
META["technique"] += '; dict() of a parameter only behind an isinstance(Mapping) test'
META["level_text"] += ' Also decided (R4): no data-plane value is ever called.'

PROTOCOL = {
    "__liquid__", "__html__", "__getitem__", "__getitem_async__", "force_liquid_default", "with_context",
    "with_environment", "filter_async", "validate", "get_int_max_str_digits", "poke",
}
REFLECTIVE_CALLS = {"getattr", "hasattr", "setattr", "delattr", "vars", "eval", "exec", "compile", "__import__", "globals", "locals", "dir"}
REFLECTIVE_ATTRS = {"__dict__", "__getattribute__", "__globals__", "__subclasses__", "__mro__", "__bases__", "__code__", "__closure__", "__builtins__", "__reduce__", "__reduce_ex__", "__init_subclass__"}
REFLECTIVE_QUAL = {"operator.attrgetter", "operator.methodcaller", "importlib.import_module", "string.Formatter", "string.Template", "inspect.getmembers", "inspect.getattr_static"}

VALUE_TYPES = [str, bytes, list, tuple, dict, set, frozenset, int, float, bool, range, complex, decimal.Decimal, datetime.datetime, datetime.date, datetime.time, datetime.timedelta, collections.abc.Mapping, collections.abc.Sequence, collections.abc.Iterator]
VOCAB = {a for t in VALUE_TYPES for a in dir(t) if not a.startswith("_")}
# scalars: what the conversion part of the protocol (string/number conversion, dates) hands to a filter
SCALAR_TYPES = [str, bytes, int, float, bool, range, complex, decimal.Decimal, datetime.datetime, datetime.date, datetime.time, datetime.timedelta]
SCALAR_VOCAB = {a for t in SCALAR_TYPES for a in dir(t) if not a.startswith("_")}
# containers: the protocol is item access, length and iteration; a mapping is iterated through its views
CONTAINER_ITERATION = {"items", "keys", "values"}

CONTROL_PARAMS = {"self", "cls", "context", "environment", "env", "static_context", "token", "stream", "buffer", "buf"}
DATA_SOURCES = {"evaluate", "evaluate_async", "resolve", "get", "get_async", "get_item", "get_item_async", "_getitem", "getitem"}


def _data_plane_functions(prog: Program) -> dict[str, tuple[FunctionInfo, str]]:
    out: dict[str, tuple[FunctionInfo, str]] = {}
    for name, fns in prog.filter_callables().items():
        for f in fns:
            out[f.fid] = (f, f"registered filter {name}")
    for mod in prog.modules.values():
        if mod.relpath.startswith(("liquid2/builtin/filters/", "liquid2/shopify/filters/")) or mod.relpath in ("liquid2/filter.py", "liquid2/stringify.py"):
            for f in mod.functions.values():
                out.setdefault(f.fid, (f, "filter helper"))
    for rel, q in [
        ("liquid2/context.py", "RenderContext.get"), ("liquid2/context.py", "RenderContext.get_async"), ("liquid2/context.py", "RenderContext.get_item"),
        ("liquid2/context.py", "RenderContext.get_item_async"), ("liquid2/context.py", "RenderContext.get_item_async.<locals>._get_item"), ("liquid2/context.py", "RenderContext.resolve"),
    ]:
        f = prog.fn_opt(rel, q)
        if f:
            out[f.fid] = (f, "context lookup")
    ex = prog.mod("liquid2/builtin/expressions.py")
    for q, f in ex.functions.items():
        if f.cls is None and f.parent_fn is None and not q.startswith("parse"):
            out.setdefault(f.fid, (f, "value-semantics helper"))
    return out


def run(prog: Program, res: Result) -> None:
    res.explanation = (
        "R1 classifies every reflective construct in liquid2 (getattr/hasattr/setattr/delattr/vars/eval/exec/compile/"
        "__import__, __dict__/__getattribute__ and friends, operator.attrgetter, str.format on non-literals). R2 takes "
        "every variable that can hold a context value (filter parameters, evaluate()/get()/resolve() results, and "
        "what is iterated or subscripted from them) and requires each attribute read on it to be a method of a builtin "
        "value type, a protocol hook, or dominated by isinstance(v, <engine class>) / is_undefined(v) / hasattr(v, same)."
    )
    res.not_decided += ["what a user drop's own __getitem__/__liquid__ exposes", "attribute access performed inside third-party libraries (babel, dateutil) on values handed to them"]
    res.trusted_base += ["CPython ast", "dir() of builtin/stdlib value types as the attribute vocabulary"]
    res.stats["protocol_names"] = sorted(PROTOCOL)

    # ------------------------------------------------------------------ R1
    res.rule("C05.R1", "every reflective site is constant-named with a protocol name, a getattr(self, key) under a literal public key set, or StrictUndefined's own __getattribute__")
    n_ref = 0
    for mod in prog.modules.values():
        for node in ast.walk(mod.tree):
            q = prog.qual_at(mod, node)
            site = f"{mod.relpath}:{getattr(node, 'lineno', 0)} {q}"
            if isinstance(node, ast.Call):
                fname = node.func.id if isinstance(node.func, ast.Name) else None
                d = dotted(node.func) or ""
                ext = prog.resolve(mod, d) if d else None
                if fname in REFLECTIVE_CALLS or (isinstance(ext, str) and ext in REFLECTIVE_QUAL):
                    if fname == "compile" and False:
                        continue
                    n_ref += 1
                    what = f"`{norm(node, 70)}`"
                    ok, why = _classify_reflective(prog, mod, node, fname or str(ext))
                    if ok:
                        res.ok("C05.R1", site, what, why)
                    else:
                        res.fail("C05.R1", file=mod.relpath, line=node.lineno, qualname=q, construct=node, message=f"reflective access not in the closed protocol table: {why}", what=what)
                # object.__getattribute__(x, name)
                if isinstance(node.func, ast.Attribute) and node.func.attr == "__getattribute__":
                    n_ref += 1
                    fi = prog.enclosing_function(mod, node)
                    inside = fi is not None and fi.name == "__getattribute__" and fi.cls is not None and prog.is_subclass(fi.cls, "liquid2.undefined.Undefined")
                    if inside and norm(node.func.value) == "object" and len(node.args) == 2 and norm(node.args[0]) == "self":
                        res.ok("C05.R1", site, f"`{norm(node, 70)}`", "inside an Undefined subclass's own __getattribute__, on self")
                    else:
                        res.fail("C05.R1", file=mod.relpath, line=node.lineno, qualname=q, construct=node, message="__getattribute__ called outside StrictUndefined's own guard", what=f"`{norm(node, 70)}`")
                # .format / .format_map on a non-literal
                if isinstance(node.func, ast.Attribute) and node.func.attr in ("format", "format_map", "substitute", "safe_substitute", "vformat"):
                    n_ref += 1
                    if isinstance(node.func.value, ast.Constant):
                        res.ok("C05.R1", site, f"`{norm(node, 70)}`", "format string is a literal")
                    else:
                        res.fail("C05.R1", file=mod.relpath, line=node.lineno, qualname=q, construct=node, message="str.format on a non-literal format string: `{0.__class__}`-style fields traverse attributes", what=f"`{norm(node, 70)}`")
            elif isinstance(node, ast.Name) and isinstance(node.ctx, ast.Load) and node.id in REFLECTIVE_CALLS and not (isinstance(mod.parent(node), ast.Call) and mod.parent(node).func is node):
                # a reflective builtin passed around as a value (callback) escapes the call-site classification
                if node.id in ("compile",) and isinstance(mod.parent(node), ast.Attribute):
                    continue
                if prog.resolve(mod, node.id) is not None or node.id in mod.functions or node.id in mod.globals_:
                    continue  # a module-level definition that shadows the builtin
                fi0 = prog.enclosing_function(mod, node)
                shadowed = False
                while fi0 is not None:
                    if node.id in fi0.params() or any(isinstance(x, ast.Name) and x.id == node.id and isinstance(x.ctx, ast.Store) for x in ast.walk(fi0.node)):
                        shadowed = True
                        break
                    fi0 = fi0.parent_fn
                if shadowed:
                    continue  # a local variable / parameter of that name, not the builtin
                n_ref += 1
                res.fail("C05.R1", file=mod.relpath, line=node.lineno, qualname=q, construct=f"{node.id} used as a value", message=f"reflective builtin `{node.id}` passed as a value: attribute access by name escapes the closed table", what=f"`{node.id}` as a value")
            elif isinstance(node, ast.Attribute) and node.attr in REFLECTIVE_ATTRS and not (isinstance(mod.parent(node), ast.Call) and mod.parent(node).func is node and node.attr == "__getattribute__"):
                n_ref += 1
                res.fail("C05.R1", file=mod.relpath, line=node.lineno, qualname=q, construct=node, message=f"reflective attribute .{node.attr}", what=f"`{norm(node, 70)}`")
            elif isinstance(node, ast.FunctionDef) and node.name in ("__getattr__", "__getattribute__", "__setattr__", "__delattr__"):
                n_ref += 1
                fi = next((f for f in mod.functions.values() if f.node is node), None)
                if fi is not None and fi.cls is not None and prog.is_subclass(fi.cls, "liquid2.undefined.Undefined"):
                    ok, why = _strict_getattribute_ok(fi)
                    if ok:
                        res.ok("C05.R1", site, f"def {node.name}", why)
                    else:
                        res.fail("C05.R1", file=mod.relpath, line=node.lineno, qualname=q, construct=f"def {node.name}", message=why, what=f"def {node.name}")
                else:
                    res.fail("C05.R1", file=mod.relpath, line=node.lineno, qualname=q, construct=f"def {node.name}", message="attribute-hook override outside the Undefined family", what=f"def {node.name}")
    res.floor("C05.R1", "reflective sites", n_ref, 18)
    # self-check of the matcher (the expected count of forbidden forms is zero on a healthy tree)
    probe = ast.parse("msg.format(**vars)\ngetattr(obj, key)\nobj.__dict__")
    hits = sum(1 for n in ast.walk(probe) if (isinstance(n, ast.Call) and isinstance(n.func, ast.Attribute) and n.func.attr == "format") or (isinstance(n, ast.Call) and isinstance(n.func, ast.Name) and n.func.id in REFLECTIVE_CALLS) or (isinstance(n, ast.Attribute) and n.attr in REFLECTIVE_ATTRS))
    res.floor("C05.R1", "matcher self-check hits", hits, 3)

    # ------------------------------------------------------------------ R2
    res.rule("C05.R2", "every attribute read on a data-plane variable is a builtin value-type method, a protocol hook, or dominated by an isinstance/is_undefined/hasattr narrowing")
    n_attr = 0
    dp = _data_plane_functions(prog)
    # plus: every Node/Expression method (variables assigned from evaluate()/get()/resolve())
    for base in ("liquid2.ast.Node", "liquid2.expression.Expression"):
        for ci in prog.subclasses(base):
            for m in ci.methods.values():
                dp.setdefault(m.fid, (m, "AST method (evaluate()/get() results only)"))
    res.floor("C05.R2", "data-plane functions", len(dp), 150)
    for fid in sorted(dp):
        fi, kind = dp[fid]
        params_are_data = not kind.startswith("AST method")
        data_vars = _data_vars(fi, params_are_data)
        if not data_vars:
            continue
        res.analysed_functions.add(fid)
        cfg = None
        for node in ast.walk(fi.node):
            if not (isinstance(node, ast.Attribute) and isinstance(node.value, ast.Name) and node.value.id in data_vars):
                continue
            if prog.enclosing_function(fi.module, node) is not fi and not _is_lambda_of(fi, node):
                continue
            v, attr = node.value.id, node.attr
            n_attr += 1
            site = f"{fi.file}:{node.lineno} {fi.qualname}"
            what = f"`{v}.{attr}` on a context value"
            if attr in PROTOCOL:
                res.ok("C05.R2", site, what, "protocol hook")
                continue
            if attr in SCALAR_VOCAB:
                # a scalar's method is the builtin's only once the value IS that scalar: coerced by the filter's decorator, converted in
                # this function, or narrowed by isinstance on the path here - a parameter annotation is a wish, filters receive any object
                why_s = _scalar_known(prog, fi, v)
                if why_s is None:
                    if cfg is None:
                        cfg = CFG(fi.node)
                    why_s = _narrowed(prog, fi, cfg, node, v, attr)
                if why_s:
                    res.ok("C05.R2", site, what, f"method of a builtin scalar value type; {why_s}")
                else:
                    res.fail(
                        "C05.R2",
                        file=fi.file,
                        line=node.lineno,
                        qualname=fi.qualname,
                        construct=f"{v}.{attr}",
                        message=f"`.{attr}` is read on `{v}`, which can hold any context object here: nothing coerces or narrows it to the builtin type whose method this is meant to be, "
                        f"so `{v}.{attr}(…)` calls a Python method of a user object (with template-supplied arguments) and prints what it returns",
                        what=what,
                    )
                continue
            if attr in CONTAINER_ITERATION:
                res.ok("C05.R2", site, what, "iteration of a mapping through its views")
                continue
            if attr in VOCAB and _engine_made(fi, v):
                res.ok("C05.R2", site, what, "container built by the engine in this function (display / comprehension / list() / sorted())")
                continue
            if attr in VOCAB:
                res.fail(
                    "C05.R2",
                    file=fi.file,
                    line=node.lineno,
                    qualname=fi.qualname,
                    construct=f"{v}.{attr}",
                    message=f"`.{attr}` is read on `{v}`, which can hold a context object: containers are read through item access, length and iteration only - "
                    f"`.{attr}()` of a user's Mapping/Sequence (or of a dict subclass, where it bypasses __getitem__) is application code the protocol does not expose",
                    what=what,
                )
                continue
            if attr in ("__class__", "__name__") and any(isinstance(a, ast.Raise) for a in fi.module.ancestors(node)):
                res.ok("C05.R2", site, what, "type name used in an error message only")
                continue
            if cfg is None:
                cfg = CFG(fi.node)
            why = _narrowed(prog, fi, cfg, node, v, attr)
            if why:
                res.ok("C05.R2", site, what, why)
            else:
                res.fail(
                    "C05.R2",
                    file=fi.file,
                    line=node.lineno,
                    qualname=fi.qualname,
                    construct=f"{v}.{attr}",
                    message=f"attribute `.{attr}` is read on `{v}`, which can hold a context object, without an isinstance/is_undefined/hasattr narrowing: "
                    "a Python attribute of a user object becomes reachable from a template",
                    what=what,
                )
    res.floor("C05.R2", "attribute reads on data-plane variables", n_attr, 40)

    # ------------------------------------------------------------------ R3 key sets of getattr-by-key drops
    res.rule("C05.R3", "every key of a `_keys` set behind getattr(self, key) names a public attribute/property defined by that class")
    n_keys = 0
    for ci in prog.all_classes():
        uses = [c for m in ci.methods.values() for c in ast.walk(m.node) if isinstance(c, ast.Call) and isinstance(c.func, ast.Name) and c.func.id == "getattr" and c.args and norm(c.args[0]) == "self"]
        if not uses:
            continue
        keys_expr = ci.class_attrs.get("_keys")
        keys = _literal_strings(keys_expr)
        defined = _public_members(ci)
        for k in sorted(keys or []):
            n_keys += 1
            site = f"{ci.file}:{ci.node.lineno} {ci.name}"
            what = f"{ci.name}._keys member {k!r}"
            if not k.startswith("_") and k in defined:
                res.ok("C05.R3", site, what, f"public {defined[k]}")
            else:
                res.fail("C05.R3", file=ci.file, line=ci.node.lineno, qualname=ci.name, construct=f"_keys member {k!r}", message=f"key {k!r} exposed through getattr(self, key) is private or not defined by {ci.name}", what=what)
    res.floor("C05.R3", "drop key-set members", n_keys, 15)

    # ------------------------------------------------------------------ R5 engine-injected arguments cannot be replaced by a template
    res.rule("C05.R5", "the keyword arguments the engine injects into filters (RenderContext.filter: context=, environment=) cannot be supplied by a template: Filter rejects keyword arguments with those names, so a filter never calls methods of a context value passed as `context:` / `environment:`")
    ctx_cls = prog.cls("liquid2.context.RenderContext")
    ff = ctx_cls.methods.get("filter")
    if ff is None:
        raise AnalysisError("RenderContext.filter vanished")
    injected = sorted({s_.slice.value for s_ in ast.walk(ff.node) if isinstance(s_, ast.Subscript) and isinstance(s_.ctx, ast.Store) and isinstance(s_.value, ast.Name) and s_.value.id == "kwargs" and isinstance(s_.slice, ast.Constant) and isinstance(s_.slice.value, str)})
    res.floor("C05.R5", "names injected by RenderContext.filter", len(injected), 2)
    flt = prog.mod("liquid2/builtin/expressions.py").classes.get("Filter")
    if flt is None:
        raise AnalysisError("Filter vanished")
    rejected: set[str] = set()
    init = flt.methods.get("__init__")
    if init is None:
        raise AnalysisError("Filter.__init__ vanished")

    def _unconditional(m: FunctionInfo, node: ast.AST) -> bool:
        """node runs on every call of m: its only enclosing compound statements are for loops over the arguments."""
        for a in m.module.ancestors(node):
            if a is m.node:
                return True
            if isinstance(a, (ast.If, ast.While, ast.Try, ast.With, ast.IfExp, ast.Match)) and a is not node:
                return False
        return True

    # methods that every construction of a Filter runs: __init__ and whatever it calls unconditionally on self
    always = {"__init__"}
    for st in ast.walk(init.node):
        if isinstance(st, ast.Expr) and isinstance(st.value, ast.Call) and isinstance(st.value.func, ast.Attribute) and isinstance(st.value.func.value, ast.Name) and st.value.func.value.id == "self" and _unconditional(init, st):
            always.add(st.value.func.attr)
    for m in flt.methods.values():
        if m.name not in always:
            continue
        for t in ast.walk(m.node):
            if isinstance(t, ast.If) and any(isinstance(r, ast.Raise) for r in ast.walk(t)) and _unconditional(m, t):
                for c in ast.walk(t.test):
                    if isinstance(c, ast.Compare) and len(c.ops) == 1 and isinstance(c.ops[0], (ast.In, ast.Eq)) and norm(c.left).endswith(".name"):
                        comp = c.comparators[0]
                        for x in comp.elts if isinstance(comp, (ast.Tuple, ast.List, ast.Set)) else [comp]:
                            if isinstance(x, ast.Constant) and isinstance(x.value, str):
                                rejected.add(x.value)
    for name in injected:
        site = f"{ff.file}:{ff.node.lineno} RenderContext.filter"
        what = f"injected keyword `{name}` is refused as a template keyword argument"
        if name in rejected:
            res.ok("C05.R5", site, what, "every Filter construction raises for that argument name (unconditionally, whatever the environment's options)")
        else:
            res.fail("C05.R5", file=flt.file, line=flt.node.lineno, qualname="Filter", construct=f"template keyword argument `{name}:` is accepted", message=f"RenderContext.filter injects `{name}=` with functools.partial and Filter passes template keyword arguments through unchecked: `{{{{ x | f: {name}: obj }}}}` replaces the engine's object by a context value, whose attributes and methods the filter then uses", what=what)

    # ------------------------------------------------------------------ R6 objects whose methods the engine calls come from global data
    res.rule("C05.R6", "the message catalog (`translations`), the one context object whose methods the engine calls by name, is read from the render's global data (context.base_globals), never from the template-writable scope (context.resolve / context.get / scope[...]): a template cannot rebind it to an arbitrary context object")
    n_tr = 0
    for f in prog.all_functions():
        if f.name not in ("_resolve_translations", "resolve_translations"):
            continue
        n_tr += 1
        calls = [c for c in ast.walk(f.node) if isinstance(c, ast.Call) and isinstance(c.func, ast.Attribute)]
        from_scope = [c for c in calls if c.func.attr in ("resolve", "get_async") or (c.func.attr == "get" and norm(c.func.value) in ("context", "context.scope", "context.locals")) ] + [s_ for s_ in ast.walk(f.node) if isinstance(s_, ast.Subscript) and norm(s_.value) in ("context.scope", "context.locals")]
        from_globals = [c for c in calls if c.func.attr == "get" and norm(c.func.value) in ("context.base_globals", "context.env.globals")]
        site = f"{f.file}:{f.node.lineno} {f.qualname}"
        what = f"{f.qualname} reads the catalog from global data"
        if from_globals and not from_scope:
            res.ok("C05.R6", site, what, norm(from_globals[0], 70))
        else:
            bad = from_scope[0] if from_scope else f.node
            res.fail("C05.R6", file=f.file, line=getattr(bad, "lineno", f.node.lineno), qualname=f.qualname, construct=f"{f.qualname} resolves the catalog through the scope", message=f"{f.qualname} looks the catalog object up in the whole scope: `{{% assign translations = obj %}}` (or a with/for binding) makes the translation filters and the translate tag call obj.gettext()/ngettext()/pgettext()/npgettext() - methods of a context object chosen by the template", what=what)
    res.floor("C05.R6", "catalog resolvers", n_tr, 2)
    # R6b: the mapping those resolvers read is the data the render was given, in every context ever built
    res.rule("C05.R6b", "`base_globals`, the mapping the catalog is read from, only ever holds the data the render was given: every construction of a render context passes its parent's `base_globals` on unchanged (or omits it at the root, where __init__ falls back to the global data) and nothing else stores to the field - a copy that substitutes the scope makes `translations` assignable by a template")
    n_bg = 0

    def _is_base_globals(e: ast.AST | None, fn: ast.AST, depth: int = 0) -> bool:
        if e is None:
            return False
        if isinstance(e, ast.Attribute) and e.attr == "base_globals":
            return True
        if isinstance(e, ast.IfExp):
            return _is_base_globals(e.body, fn, depth) and _is_base_globals(e.orelse, fn, depth)
        if isinstance(e, ast.Name) and depth < 3:
            defs = [a.value for a in ast.walk(fn) if isinstance(a, ast.Assign) and any(isinstance(t, ast.Name) and t.id == e.id for t in a.targets)]
            return bool(defs) and all(_is_base_globals(d, fn, depth + 1) for d in defs)
        return False

    ctx_cls = prog.cls("liquid2.context.RenderContext")
    for f in prog.all_functions():
        for c in ast.walk(f.node):
            if isinstance(c, ast.Call):
                kw = next((k for k in c.keywords if k.arg == "base_globals"), None)
                if kw is None:
                    continue
                n_bg += 1
                site = f"{f.file}:{c.lineno} {f.qualname}"
                what = f"{f.qualname}: base_globals={norm(kw.value, 40)} is the parent's base_globals"
                if _is_base_globals(kw.value, f.node):
                    res.ok("C05.R6b", site, what, "passed on unchanged")
                else:
                    res.fail("C05.R6b", file=f.file, line=c.lineno, qualname=f.qualname, construct=f"{f.qualname}: base_globals={norm(kw.value, 40)}", message=f"{f.qualname} builds a render context whose base_globals is `{norm(kw.value, 60)}`, not the parent's base_globals: the catalog object (`translations`) is then looked up in a mapping templates can write to, so the engine calls gettext()/ngettext() methods of whatever object a template binds to that name", what=what)
            if isinstance(c, (ast.Assign, ast.AugAssign, ast.AnnAssign)):
                tgts = c.targets if isinstance(c, ast.Assign) else [c.target]
                for t in tgts:
                    if isinstance(t, ast.Attribute) and t.attr == "base_globals":
                        n_bg += 1
                        site = f"{f.file}:{c.lineno} {f.qualname}"
                        what = f"{f.qualname}: store to .base_globals"
                        in_init = f.cls is ctx_cls and f.name == "__init__"
                        v = c.value if not isinstance(c, ast.AugAssign) else None
                        ok_init = in_init and isinstance(v, ast.IfExp) and norm(v.body) == "base_globals" and norm(v.orelse) in ("self.globals", "global_data") or (in_init and norm(v) == "base_globals" if v is not None else False)
                        if ok_init:
                            res.ok("C05.R6b", site, what, "__init__: the constructor argument, or the global data at the root")
                        else:
                            res.fail("C05.R6b", file=f.file, line=c.lineno, qualname=f.qualname, construct=f"{f.qualname}: store to base_globals", message=f"{f.qualname} rebinds base_globals outside RenderContext.__init__ (or to something other than the constructor argument / the global data)", what=what)
    res.floor("C05.R6b", "writers of base_globals", n_bg, 2)
    # R6c: every child context is handed the root's base_globals - the translations catalog is looked up there, not among template bindings
    res.rule("C05.R6c", "the translation catalog stays application data in every context: each context RenderContext.copy() constructs is given `base_globals=self.base_globals`; without it the constructor falls back to the child's global_data, which for a block-scoped copy holds everything the template has bound - a template could then bind `translations` and have its gettext methods called")
    copy_m = ctx_cls.methods.get("copy")
    if copy_m is None:
        raise AnalysisError("RenderContext.copy vanished")
    ctors6c = [c for c in ast.walk(copy_m.node) if isinstance(c, ast.Call) and norm(c.func) in ("self.__class__", "RenderContext", "type(self)")]
    for c in ctors6c:
        kw = next((k.value for k in c.keywords if k.arg == "base_globals"), None)
        site = f"{copy_m.file}:{c.lineno} RenderContext.copy"
        what = "RenderContext.copy: the child context receives the root's base_globals"
        if kw is not None and norm(kw) == "self.base_globals":
            res.ok("C05.R6c", site, what, "base_globals=self.base_globals")
        else:
            res.fail("C05.R6c", file=copy_m.file, line=c.lineno, qualname="RenderContext.copy", construct=f"RenderContext.copy: child built with base_globals={norm(kw) if kw is not None else '<missing>'}", message=f"RenderContext.copy constructs a child context with base_globals={norm(kw) if kw is not None else 'left out'}: the child's base_globals becomes its own global_data (template bindings included), and the translate tag / filters resolve `translations` there - an object the template bound is then used as the catalog and its gettext / ngettext methods are called", what=what)
    res.floor("C05.R6c", "child context constructions in copy()", len(ctors6c), 2)
    res.rule("C05.R7", "`dict(x)` runs x.keys(): in the argument helpers of liquid2/filter.py and in the filters it is applied to a template-supplied parameter only behind `isinstance(x, Mapping)` - otherwise a context object that merely has a Python `keys()` method gets it called and its result printed (zero or more sites; every site must be narrowed)")
    from checks.shared import check_dict_of_data_is_narrowed

    check_dict_of_data_is_narrowed(prog, res, "C05.R7")

    # ------------------------------------------------------------------ R4 data values are never called
    res.rule("C05.R4", "a value that can hold a context object is never called: no `v(...)`, `v[k](...)` on data-plane variables (calling is not part of the item/length/iteration/conversion protocol)")
    n_calls = 0
    n_data_fns = 0
    for fid in sorted(dp):
        fi, kind = dp[fid]
        data_vars = _data_vars(fi, not kind.startswith("AST method"))
        if not data_vars:
            continue
        n_data_fns += 1
        for c in ast.walk(fi.node):
            if not isinstance(c, ast.Call):
                continue
            n_calls += 1
            f = c.func
            called = None
            if isinstance(f, ast.Name) and f.id in data_vars:
                called = f.id
            elif isinstance(f, ast.Subscript) and _is_data_expr(f.value, data_vars):
                called = norm(f)
            elif isinstance(f, ast.Call) and _is_data_expr(f, data_vars):
                called = norm(f)
            if called is None:
                continue
            site = f"{fi.file}:{c.lineno} {fi.qualname}"
            res.fail("C05.R4", file=fi.file, line=c.lineno, qualname=fi.qualname, construct=f"call of {called}", message=f"`{norm(c)[:60]}` calls a value that can hold a context object: a template path or filter argument invokes Python code (a bound method, a class, any callable) of a user object", what=f"{site}: data value `{called}` is not called")
    res.floor("C05.R4", "calls examined in data-plane functions", n_calls, 600)
    res.ok("C05.R4", "liquid2 data plane", f"{n_calls} calls in {n_data_fns} functions with data variables", "none of them calls a data-plane value")


def _literal_strings(e: ast.expr | None) -> set[str] | None:
    if e is None:
        return None
    if isinstance(e, ast.Call) and isinstance(e.func, ast.Name) and e.func.id in ("frozenset", "set", "tuple", "list") and len(e.args) == 1:
        return _literal_strings(e.args[0])
    if isinstance(e, (ast.List, ast.Tuple, ast.Set)):
        out = set()
        for x in e.elts:
            if isinstance(x, ast.Constant) and isinstance(x.value, str):
                out.add(x.value)
            else:
                return None
        return out
    return None


def _public_members(ci: ClassInfo) -> dict[str, str]:
    out: dict[str, str] = {}
    for n, m in ci.methods.items():
        if any((dotted(d) or "") == "property" for d in m.node.decorator_list):
            out[n] = "property"
    slots = _literal_strings(ci.class_attrs.get("__slots__")) or set()
    init = ci.methods.get("__init__")
    assigned = set()
    if init is not None:
        for a in ast.walk(init.node):
            if isinstance(a, ast.Attribute) and isinstance(a.ctx, ast.Store) and isinstance(a.value, ast.Name) and a.value.id == "self":
                assigned.add(a.attr)
    for s in slots | assigned:
        out.setdefault(s, "instance attribute set in __init__")
    return out


def _classify_reflective(prog: Program, mod, node: ast.Call, fname: str) -> tuple[bool, str]:
    if fname in ("getattr", "hasattr"):
        if len(node.args) >= 2 and isinstance(node.args[1], ast.Constant) and isinstance(node.args[1].value, str):
            name = node.args[1].value
            if name in PROTOCOL:
                return True, f"constant protocol name {name!r}"
            return False, f"constant attribute name {name!r} is not a protocol name"
        if fname == "getattr" and len(node.args) == 2 and norm(node.args[0]) == "self" and isinstance(node.args[1], ast.Name):
            key = node.args[1].id
            # dominated by `if key in self._keys:`
            for a in mod.ancestors(node):
                if isinstance(a, ast.If) and norm(a.test) == f"{key} in self._keys" and any(node is x for b in a.body for x in ast.walk(b)):
                    fi = prog.enclosing_function(mod, node)
                    if fi is not None and fi.cls is not None and _literal_strings(fi.cls.class_attrs.get("_keys")) is not None:
                        return True, "getattr(self, key) guarded by `key in self._keys` (literal key set, members checked by C05.R3)"
            # bound by iterating the literal key set itself: `for key in self._keys` / `{… for key in sorted(self._keys)}`
            def _iterates_keys(it: ast.AST) -> bool:
                while isinstance(it, ast.Call) and isinstance(it.func, ast.Name) and it.func.id in ("sorted", "tuple", "list", "iter", "frozenset", "set") and len(it.args) == 1 and not it.keywords:
                    it = it.args[0]
                return norm(it) == "self._keys"

            for a in mod.ancestors(node):
                binders = []
                if isinstance(a, (ast.ListComp, ast.SetComp, ast.DictComp, ast.GeneratorExp)):
                    binders = [(g.target, g.iter) for g in a.generators]
                elif isinstance(a, (ast.For, ast.AsyncFor)) and any(node is x for b in a.body for x in ast.walk(b)):
                    binders = [(a.target, a.iter)]
                for tgt, it in binders:
                    if isinstance(tgt, ast.Name) and tgt.id == key and _iterates_keys(it):
                        fi = prog.enclosing_function(mod, node)
                        rebound = fi is not None and any(isinstance(x, ast.Name) and x.id == key and isinstance(x.ctx, ast.Store) and x is not tgt for x in ast.walk(fi.node))
                        if fi is not None and fi.cls is not None and not rebound and _literal_strings(fi.cls.class_attrs.get("_keys")) is not None:
                            return True, "getattr(self, key) with key drawn from the literal key set self._keys (members checked by C05.R3)"
            return False, "getattr(self, <variable>) without a literal key-set guard"
        return False, "attribute name is not a constant"
    if fname == "compile":
        return False, "compile()"
    return False, f"{fname}() is not allowed in the engine"


def _strict_getattribute_ok(fi: FunctionInfo) -> tuple[bool, str]:
    """`if name in object.__getattribute__(self, "allowed_properties"): return object.__getattribute__(self, name)` then raise."""
    body = [s for s in fi.node.body if not (isinstance(s, ast.Expr) and isinstance(s.value, ast.Constant))]
    if len(body) == 2 and isinstance(body[0], ast.If) and isinstance(body[1], ast.Raise):
        t = norm(body[0].test)
        if "allowed_properties" in t and " in " in t:
            return True, "StrictUndefined.__getattribute__: allows only names in allowed_properties, raises UndefinedError otherwise"
    return False, "__getattribute__ override does not have the allow-list-then-raise shape"


def _is_lambda_of(fi: FunctionInfo, node: ast.AST) -> bool:
    return any(isinstance(a, ast.Lambda) for a in fi.module.ancestors(node))


def _data_vars(fi: FunctionInfo, params_are_data: bool) -> set[str]:
    data: set[str] = set()
    if params_are_data:
        a = fi.node.args
        for p in a.posonlyargs + a.args + a.kwonlyargs:
            if p.arg in CONTROL_PARAMS:
                continue
            ann = norm(p.annotation) if p.annotation is not None else ""
            if ann.startswith(("Callable[", "typing.Callable[")):
                continue  # a function object supplied by Python code (decorator argument), not a context value
            if any(t in ann for t in ("RenderContext", "Environment", "TokenT", "TokenStream", "Translations", "Expression", "Filter", "Callable", "Node")) and "object" not in ann and "Any" not in ann:
                continue
            data.add(p.arg)
        if a.vararg:
            data.add(a.vararg.arg)
    changed = True
    while changed:
        changed = False
        for n in ast.walk(fi.node):
            tgt = val = None
            if isinstance(n, ast.Assign) and len(n.targets) == 1:
                tgt, val = n.targets[0], n.value
            elif isinstance(n, ast.AnnAssign) and n.value is not None:
                tgt, val = n.target, n.value
            elif isinstance(n, ast.NamedExpr):
                tgt, val = n.target, n.value
            elif isinstance(n, (ast.For, ast.AsyncFor)):
                tgt, val = n.target, n.iter
            elif isinstance(n, ast.comprehension):
                tgt, val = n.target, n.iter
            if tgt is None or val is None:
                continue
            if _is_data_expr(val, data):
                for t in ast.walk(tgt):
                    if isinstance(t, ast.Name) and t.id not in data and t.id not in CONTROL_PARAMS:
                        data.add(t.id)
                        changed = True
    return data


def _is_data_expr(e: ast.AST, data: set[str]) -> bool:
    if isinstance(e, ast.Await):
        return _is_data_expr(e.value, data)
    if isinstance(e, ast.Name):
        return e.id in data
    if isinstance(e, ast.Subscript):
        return _is_data_expr(e.value, data)
    if isinstance(e, ast.Starred):
        return _is_data_expr(e.value, data)
    if isinstance(e, ast.IfExp):
        return _is_data_expr(e.body, data) or _is_data_expr(e.orelse, data)
    if isinstance(e, ast.BoolOp):
        return any(_is_data_expr(v, data) for v in e.values)
    if isinstance(e, ast.Call):
        f = e.func
        nm = f.attr if isinstance(f, ast.Attribute) else (f.id if isinstance(f, ast.Name) else None)
        if nm in DATA_SOURCES:
            if nm == "get" and isinstance(f, ast.Attribute):
                # dict.get on a data mapping is data; context.get is data; other .get receivers: only if receiver is data/context
                recv = f.value
                return _is_data_expr(recv, data) or (isinstance(recv, ast.Name) and recv.id in ("context", "static_context"))
            return True
        if nm in ("iter", "list", "tuple", "reversed", "sorted", "enumerate", "zip", "next", "islice", "chain", "filter", "map") and e.args:
            return any(_is_data_expr(a, data) for a in e.args)
        if isinstance(f, ast.Attribute) and f.attr in ("items", "values", "keys", "copy", "pop", "__liquid__") and _is_data_expr(f.value, data):
            return True
    return False


def _scalar_known(prog: Program, fi: FunctionInfo, v: str) -> str | None:
    """Why the variable holds a builtin scalar: coerced by a decorator of the filter, or every binding of it is a conversion."""
    decos = [norm(d) for d in fi.node.decorator_list]
    params = [p for p in fi.params() if p not in ("self", "cls")]
    if params and v == params[0] and any(k in d for d in decos for k in ("string_filter", "math_filter", "liquid_filter", "sequence_filter", "array_filter")):
        return f"first parameter of a filter wrapped by {[d for d in decos if 'filter' in d][0]} (coerced before the call)"
    conv = {"str", "int", "float", "to_liquid_string", "_to_liquid_string", "to_int", "int_arg", "num_arg", "decimal_arg", "soft_str", "escape", "Markup", "repr", "len", "round", "abs", "Decimal", "bool", "sequence_arg", "list", "tuple", "sorted"}

    def is_conv(x: ast.AST) -> bool:
        return (isinstance(x, ast.Call) and (dotted(x.func) or "").split(".")[-1] in conv) or isinstance(x, (ast.Constant, ast.JoinedStr))

    # the parameter is converted at the top of the function, under no condition: `left = sequence_arg(left)`
    for st in fi.node.body:
        if isinstance(st, ast.Assign) and any(isinstance(t, ast.Name) and t.id == v for t in st.targets) and is_conv(st.value):
            return f"converted at the top of the function (`{norm(st, 50)}`)"
        # … or only when it is not the scalar yet: `if not isinstance(v, str): v = str(v)`
        if isinstance(st, ast.If) and isinstance(st.test, ast.UnaryOp) and isinstance(st.test.op, ast.Not) and isinstance(st.test.operand, ast.Call) and norm(st.test.operand.func) == "isinstance" and st.test.operand.args and norm(st.test.operand.args[0]) == v:
            if any(isinstance(b, ast.Assign) and any(isinstance(t, ast.Name) and t.id == v for t in b.targets) and is_conv(b.value) for b in st.body) and not st.orelse:
                return f"converted unless already of that type (`{norm(st.test, 50)}`)"
    # helpers of the printers: every caller is a __str__ / *_str function, whose operands are parse-time text, not render data
    callers = [g for g in prog.all_functions() if g is not fi and any(isinstance(c, ast.Call) and isinstance(c.func, ast.Name) and c.func.id == fi.name for c in ast.walk(g.node))]
    if fi.cls is None and callers and all("str" in g.name.lower() for g in callers):
        return f"called only from printers ({sorted({g.qualname for g in callers})[:3]}): operands are parse-time text"
    vals = []
    for n in ast.walk(fi.node):
        if isinstance(n, ast.Assign) and any(isinstance(t, ast.Name) and t.id == v for t in n.targets):
            vals.append(n.value)
        elif isinstance(n, ast.AnnAssign) and isinstance(n.target, ast.Name) and n.target.id == v and n.value is not None:
            vals.append(n.value)
    if v not in fi.params() and vals and all(is_conv(x) for x in vals):
        return "bound from a conversion only"
    return None


def _engine_made(fi: FunctionInfo, v: str) -> bool:
    """Every binding of v in fi is a fresh container the engine builds (never a parameter or a context value)."""
    if v in fi.params():
        return False
    vals = []
    for n in ast.walk(fi.node):
        if isinstance(n, ast.Assign) and any(isinstance(t, ast.Name) and t.id == v for t in n.targets):
            vals.append(n.value)
        elif isinstance(n, ast.AnnAssign) and isinstance(n.target, ast.Name) and n.target.id == v and n.value is not None:
            vals.append(n.value)
        elif isinstance(n, (ast.For, ast.comprehension)) and any(isinstance(x, ast.Name) and x.id == v for x in ast.walk(n.target)):
            return False
    fresh = (ast.List, ast.Dict, ast.Set, ast.Tuple, ast.ListComp, ast.DictComp, ast.SetComp)
    return bool(vals) and all(isinstance(x, fresh) or (isinstance(x, ast.Call) and isinstance(x.func, ast.Name) and x.func.id in ("list", "dict", "set", "sorted", "tuple", "defaultdict", "OrderedDict", "deque")) for x in vals)


def _narrowed(prog: Program, fi: FunctionInfo, cfg: CFG, node: ast.AST, v: str, attr: str) -> str | None:
    target = next((n for n in cfg.nodes if n.node is not None and n.kind in ("stmt", "test") and any(x is node for x in ast.walk(n.node))), None)
    if target is None:
        # inside a lambda / comprehension condition etc.: look for a guard in the same expression
        target = None

    def narrowing(test: ast.AST) -> tuple[str, bool] | None:
        """(reason, holds_on_true_branch) if this test narrows v."""
        neg = False
        t = test
        while isinstance(t, ast.UnaryOp) and isinstance(t.op, ast.Not):
            neg = not neg
            t = t.operand
        if isinstance(t, ast.Call) and isinstance(t.func, ast.Name):
            if t.func.id == "isinstance" and len(t.args) == 2 and norm(t.args[0]) == v:
                ts = t.args[1].elts if isinstance(t.args[1], ast.Tuple) else [t.args[1]]
                names = [dotted(x) or norm(x) for x in ts]
                resolved = [prog.resolve(fi.module, n) for n in names]
                if all(isinstance(r, (ClassInfo, str)) or n in dir(builtins) for r, n in zip(resolved, names)):
                    return f"isinstance({v}, {', '.join(names)})", not neg
            if t.func.id == "is_undefined" and len(t.args) == 1 and norm(t.args[0]) == v:
                return f"is_undefined({v})", not neg
            if t.func.id == "hasattr" and len(t.args) == 2 and norm(t.args[0]) == v and isinstance(t.args[1], ast.Constant) and t.args[1].value == attr:
                return f"hasattr({v}, {attr!r})", not neg
        return None

    # same-expression guards:  `isinstance(v, T) and v.attr`  /  `v.attr if isinstance(v, T) else …`
    for a in fi.module.ancestors(node):
        if isinstance(a, ast.BoolOp) and isinstance(a.op, ast.And):
            idx = next((i for i, x in enumerate(a.values) if any(y is node for y in ast.walk(x))), None)
            for prev in a.values[: idx or 0]:
                nr = narrowing(prev)
                if nr and nr[1]:
                    return f"guarded in the same expression by {nr[0]}"
        if isinstance(a, ast.IfExp) and any(y is node for y in ast.walk(a.body)):
            nr = narrowing(a.test)
            if nr and nr[1]:
                return f"guarded by {nr[0]} in a conditional expression"
        if a is fi.node:
            break
    if target is None:
        return None
    for t in cfg.nodes:
        if t.kind != "test" or t.node is None:
            continue
        cands = [t.node]
        if isinstance(t.node, ast.BoolOp) and isinstance(t.node.op, ast.And):
            cands = list(t.node.values)
        for cnd in cands:
            nr = narrowing(cnd)
            if nr is None:
                continue
            good = "true" if nr[1] else "false"
            bad = "false" if nr[1] else "true"
            if isinstance(t.node, ast.BoolOp) and not nr[1]:
                continue
            # the target is unreachable once the good edge of t is cut, and unreachable from the bad edge
            via_bad = any(lab == bad and (m is target or target.id in cfg.reachable(m, avoid=lambda x, t=t: x is t)) for m, lab in t.succ)
            without = target.id in cfg.reachable(cfg.entry, avoid=lambda x, t=t: x is t)
            if not via_bad and not without:
                return f"dominated by {nr[0]} (line {t.line})"
            del good
    return None
