"""C06 - configured resource limits are hard bounds (enforcement points on every growth path)."""

from __future__ import annotations

import ast

from sa.cfg import CFG
from sa.report import AnalysisError
from sa.report import Result
from sa.report import norm
from sa.srcmodel import Program
from sa.srcmodel import dotted
from sa.srcmodel import root_name
from sa.util import cfg_node_of
from sa.util import enclosing_with
from sa.util import guarded_by_test
from sa.util import is_self_attr
from sa.util import render_methods

META = {
    "technique": "who-may-construct / who-may-write audits for buffers, scopes, contexts and locals; CFG dominance of the "
    "limit tests over each growth statement; loop-registration rule over every data-driven loop in a render method",
    "level_text": "Decides that every path by which output, iterations, context depth or locals can grow passes an "
    "enforcement point (buffers only from the two limit-aware factories and always chained to the parent buffer; "
    "every data-driven loop that renders children runs inside context.loop; scope pushes and context copies only "
    "behind their depth tests; locals written only in assign behind the size test) and that configuring an output "
    "limit does not change StringIO write semantics. The arithmetic of carries/products is value-level and not decided.",
    "level_note": "Trusts io.StringIO semantics (newline default) and the CFG; off-by-one correctness of products and "
    "sys.getsizeof accuracy are not decided.",
}
META["technique"] += '; carry_loop_iterations on every context copy made by a tag; who-may-read the template cache'

CTX = "liquid2.context.RenderContext"


from checks.shared import check_buffer_factories_fresh  # noqa: E402
from checks.shared import check_newline_transparency  # noqa: E402


def run(prog: Program, res: Result) -> None:  # noqa: PLR0912, PLR0915
    res.explanation = (
        "Slots are filled from the code: the buffer factories are the functions that construct LimitedStringIO, the "
        "loop registrar is the context manager that appends to self.loops, the depth tests are the comparisons against "
        "env.context_depth_limit, the locals store is the only subscript store into self.locals."
    )
    res.not_decided += ["off-by-one of loop products / namespace carries as arithmetic", "sys.getsizeof accuracy", "termination of mutually recursive partials beyond the presence of the depth tests"]
    res.trusted_base += ["io.StringIO(initial_value='', newline='\\n') defaults", "sa.cfg dominance"]
    ctx = prog.cls(CTX)
    out_mod = prog.mod("liquid2/output.py")
    lim = prog.cls("liquid2.output.LimitedStringIO")

    # ------------------------------------------------------------------ R1 buffers
    res.rule("C06.R1", "output buffers are constructed only by the limit-aware factories, chained to the parent buffer; LimitedStringIO.write counts before it delegates and compares size > limit")
    allowed_factories = {("liquid2/template.py", "Template._get_buffer"), ("liquid2/context.py", "RenderContext.get_output_buffer")}
    n_buf = 0
    for mod in prog.modules.values():
        for c in ast.walk(mod.tree):
            if not isinstance(c, ast.Call):
                continue
            d = dotted(c.func) or ""
            r = prog.resolve(mod, d) if d else None
            is_sio = (isinstance(r, str) and r in ("io.StringIO", "io.BytesIO", "io.TextIOWrapper", "_io.StringIO")) or (hasattr(r, "full") and r.full in ("liquid2.output.LimitedStringIO",))
            is_null = hasattr(r, "full") and r.full == "liquid2.output.NullIO"
            if not (is_sio or is_null):
                continue
            n_buf += 1
            q = prog.qual_at(mod, c)
            site = f"{mod.relpath}:{c.lineno} {q}"
            what = f"`{norm(c, 60)}` constructed by a limit-aware factory"
            if is_null:
                if mod.relpath == "liquid2/ast.py" and q.startswith("BlockNode.render_to_output"):
                    res.ok("C06.R1", site, what, "NullIO for blank-block suppression (writes nothing)")
                else:
                    res.fail("C06.R1", file=mod.relpath, line=c.lineno, qualname=q, construct=c, message="NullIO constructed outside BlockNode's blank-block suppression", what=what)
                continue
            if (mod.relpath, q) in allowed_factories:
                res.ok("C06.R1", site, what, "inside a buffer factory")
            else:
                res.fail("C06.R1", file=mod.relpath, line=c.lineno, qualname=q, construct=c, message="output buffer constructed outside Template._get_buffer / RenderContext.get_output_buffer: its content bypasses the output limit", what=what)
    res.floor("C06.R1", "buffer constructions", n_buf, 6)
    # factories: unlimited only when the limit is None; limited otherwise with limit derived from the env limit
    for rel, q in sorted(allowed_factories):
        f = prog.fn(rel, q)
        res.analysed_functions.add(f.fid)
        cfg = CFG(f.node)
        site = f"{rel}:{f.node.lineno} {q}"
        for n in cfg.nodes:
            if n.kind == "stmt" and isinstance(n.node, ast.Return) and isinstance(n.node.value, ast.Call) and (dotted(n.node.value.func) or "") == "StringIO":
                what = "`return StringIO()` only when output_stream_limit is None"
                t = guarded_by_test(cfg, n, lambda e: (False if norm(e) in ("self.env.output_stream_limit is None",) else (True if norm(e) in ("self.env.output_stream_limit is not None", "self.env.output_stream_limit") else None)))
                if t is not None:
                    res.ok("C06.R1", site, what, f"dominated by `{norm(t.node)}`")
                else:
                    res.fail("C06.R1", file=rel, line=n.line, qualname=q, construct=n.node, message="an unlimited StringIO can be returned although an output limit is configured", what=what)
        lims = [c for c in ast.walk(f.node) if isinstance(c, ast.Call) and (dotted(c.func) or "") == "LimitedStringIO"]
        if not lims:
            res.fail("C06.R1", file=rel, line=f.node.lineno, qualname=q, construct="no LimitedStringIO()", message="factory never returns a limited buffer", what="factory returns LimitedStringIO")
        for c in lims:
            kw = {k.arg: k.value for k in c.keywords}
            limit = kw.get("limit") or (c.args[0] if c.args else None)
            what = f"`{norm(c, 70)}` limit derives from env.output_stream_limit"
            txt = norm(limit) if limit is not None else ""
            ok = "output_stream_limit" in txt
            if q.endswith("get_output_buffer"):
                # carry: parent_buffer.size when the parent is limited
                ok = ok and isinstance(limit, ast.BinOp) and isinstance(limit.op, ast.Sub)
                # the subtrahend - written in place or through a local - is the parent's size when the parent is a limited buffer
                sub_ = limit.right if isinstance(limit, ast.BinOp) else None
                if isinstance(sub_, ast.Name):
                    defs_ = [a.value for a in ast.walk(f.node) if isinstance(a, ast.Assign) and any(isinstance(t_, ast.Name) and t_.id == sub_.id for t_ in a.targets)]
                    sub_ = defs_[0] if len(defs_) == 1 else None
                # `<parent>.size if isinstance(<parent>, LimitedStringIO) else 0` (the normal form has already undone a negated test)
                carry_ok = isinstance(sub_, ast.IfExp) and norm(sub_.test) == "isinstance(parent_buffer, LimitedStringIO)" and norm(sub_.body) == "parent_buffer.size" and isinstance(sub_.orelse, ast.Constant) and sub_.orelse.value == 0
                ok = ok and carry_ok
            if ok:
                res.ok("C06.R1", site, what, f"limit={txt}")
            else:
                res.fail("C06.R1", file=rel, line=c.lineno, qualname=q, construct=c, message="limited buffer not created with (env.output_stream_limit - bytes already written to the parent)", what=what)
    check_buffer_factories_fresh(prog, res, "C06.R1")
    # call sites of get_output_buffer pass the enclosing buffer
    n_gob = 0
    for mod in prog.modules.values():
        for c in ast.walk(mod.tree):
            if isinstance(c, ast.Call) and isinstance(c.func, ast.Attribute) and c.func.attr == "get_output_buffer":
                n_gob += 1
                q = prog.qual_at(mod, c)
                arg = c.args[0] if c.args else next((k.value for k in c.keywords if k.arg == "parent_buffer"), None)
                what = f"`{norm(c)}` chains to the enclosing buffer"
                fi = prog.enclosing_function(mod, c)
                good = arg is not None and ((isinstance(arg, ast.Name) and fi is not None and arg.id in fi.params()) or is_self_attr(arg, "buffer"))
                if good:
                    res.ok("C06.R1", f"{mod.relpath}:{c.lineno} {q}", what, f"parent buffer `{norm(arg)}`")
                else:
                    res.fail("C06.R1", file=mod.relpath, line=c.lineno, qualname=q, construct=c, message="capture buffer not chained to the enclosing output buffer: captured output does not count towards the limit", what=what)
    res.floor("C06.R1", "get_output_buffer call sites", n_gob, 2)
    # forbidden buffer operations
    for mod in prog.modules.values():
        for c in ast.walk(mod.tree):
            if isinstance(c, ast.Call) and isinstance(c.func, ast.Attribute) and c.func.attr in ("writelines", "seek", "truncate") and root_name(c.func.value) in ("buffer", "buf", "self"):
                if root_name(c.func.value) == "self" and not is_self_attr(c.func.value, "buffer"):
                    continue
                res.fail("C06.R1", file=mod.relpath, line=c.lineno, qualname=prog.qual_at(mod, c), construct=c, message=f"buffer.{c.func.attr}() bypasses or rewinds the counted write path", what="no writelines/seek/truncate on output buffers")
            if isinstance(c, ast.Call) and isinstance(c.func, ast.Name) and c.func.id == "print" and any(k.arg == "file" for k in c.keywords):
                res.fail("C06.R1", file=mod.relpath, line=c.lineno, qualname=prog.qual_at(mod, c), construct=c, message="print(file=buffer) bypasses the counted write path only if write is overridden consistently", what="no print(file=)")
    # LimitedStringIO.write
    w = lim.methods.get("write")
    if w is None:
        raise AnalysisError("LimitedStringIO.write vanished")
    res.analysed_functions.add(w.fid)
    cfg = CFG(w.node)
    sup = [n for n in cfg.nodes if n.kind == "stmt" and n.node is not None and any(isinstance(c, ast.Call) and isinstance(c.func, ast.Attribute) and c.func.attr == "write" and norm(c.func.value) == "super()" for c in ast.walk(n.node))]
    arg = [p for p in w.params() if p != "self"][0]
    what = "size is updated by len(<arg>.encode(...)) and compared `self.size > self.limit` before delegating"
    ok = bool(sup)
    why = []
    tests = [n for n in cfg.nodes if n.kind == "test" and n.node is not None and norm(n.node) in ("self.size > self.limit", "self.limit < self.size")]
    def byte_len(e: ast.AST) -> bool:
        """e is the UTF-8 byte length of the argument: len(arg.encode(...)), or len(arg) where arg.isascii() is known to hold."""
        if isinstance(e, ast.IfExp) and norm(e.test) == f"{arg}.isascii()":
            return norm(e.body) == f"len({arg})" and byte_len(e.orelse)
        if isinstance(e, ast.IfExp) and norm(e.test) == f"not {arg}.isascii()":
            return norm(e.orelse) == f"len({arg})" and byte_len(e.body)
        return norm(e).startswith(f"len({arg}.encode(")

    incs = [n for n in cfg.nodes if n.kind == "stmt" and isinstance(n.node, ast.AugAssign) and is_self_attr(n.node.target, "size") and isinstance(n.node.op, ast.Add) and byte_len(n.node.value)]
    if not tests:
        ok = False
        why.append("no `self.size > self.limit` test")
    if not incs:
        ok = False
        why.append("no `self.size += len(arg.encode())`")
    for t in tests:
        if not any(lab == "true" and isinstance(m.node, ast.Raise) and "OutputStreamLimitError" in norm(m.node) for m, lab in t.succ):
            ok = False
            why.append("limit test does not raise OutputStreamLimitError")
        if incs and not all(cfg.all_paths_pass(t, lambda x, i=i: x is i) for i in incs[:1]):
            ok = False
            why.append("size is not updated before the comparison")
    # every path to the delegating write either has an empty string or passed the test
    for s in sup:
        def skip_ok(e: ast.AST) -> bool | None:
            return False if norm(e) == arg else None  # `if __s:` false edge = empty string

        passes_test = all(cfg.all_paths_pass(s, lambda x: x in tests or (x.kind == "test" and norm(x.node) == arg)) for _ in [0])
        if not passes_test:
            ok = False
            why.append("a path reaches super().write() without the limit test")
        # non-empty path must go through inc and test
        for t in cfg.nodes:
            if t.kind == "test" and t.node is not None and norm(t.node) == arg:
                for m, lab in t.succ:
                    if lab == "true":
                        r = cfg.reachable(m, avoid=lambda x: x in tests or x in incs)
                        if s.id in r or m is s:
                            ok = False
                            why.append("non-empty write reaches super().write() uncounted")
    if ok:
        res.ok("C06.R1", f"{w.file}:{w.node.lineno} LimitedStringIO.write", what, "count, compare (>), raise, then delegate")
    else:
        res.fail("C06.R1", file=w.file, line=w.node.lineno, qualname="LimitedStringIO.write", construct="write() enforcement shape: " + "; ".join(why), message="LimitedStringIO.write does not enforce `bytes written <= limit` before delegating: " + "; ".join(why), what=what)

    # ------------------------------------------------------------------ R2 neutrality
    res.rule("C06.R2", "limit neutrality: LimitedStringIO forwards to StringIO the same newline mode as a plain StringIO() (default '\\n', no universal-newline translation)")
    check_newline_transparency(prog, res, "C06.R2")

    # ------------------------------------------------------------------ R3 loops
    res.rule("C06.R3", "every data-driven loop in a render method whose body renders children runs inside `with context.loop(...)` (limit test + registration on the loop stack)")
    loop_fn = ctx.methods.get("loop")
    if loop_fn is None:
        raise AnalysisError("RenderContext.loop vanished")
    # the registrar really checks and registers
    body_txt = norm(loop_fn.node, 2000)
    what = "RenderContext.loop checks the limit and pushes the loop before yielding"
    if "self.raise_for_loop_limit(forloop.length)" in body_txt and "self.loops.append(forloop)" in body_txt and "self.loops.pop()" in body_txt:
        res.ok("C06.R3", f"{loop_fn.file}:{loop_fn.node.lineno} RenderContext.loop", what, "raise_for_loop_limit(forloop.length); loops.append; …; loops.pop")
    else:
        res.fail("C06.R3", file=loop_fn.file, line=loop_fn.node.lineno, qualname="RenderContext.loop", construct="loop() body shape", message="RenderContext.loop no longer checks the limit and registers the loop", what=what)
    rfl = ctx.methods.get("raise_for_loop_limit")
    if rfl is None:
        raise AnalysisError("raise_for_loop_limit vanished")
    cmp_ok = False
    for n in ast.walk(rfl.node):
        if isinstance(n, ast.Compare) and len(n.ops) == 1 and isinstance(n.ops[0], ast.Gt) and "loop_iteration_limit" in norm(n.comparators[0]) and "reduce(mul" in norm(n.left) and "self.loop_iteration_carry" in norm(n.left) and "self.loops" in norm(n.left):
            cmp_ok = True
    what = "raise_for_loop_limit compares product(loop lengths) * carry > loop_iteration_limit"
    if cmp_ok and any(isinstance(n, ast.Raise) and "LoopIterationLimitError" in norm(n) for n in ast.walk(rfl.node)):
        res.ok("C06.R3", f"{rfl.file}:{rfl.node.lineno} RenderContext.raise_for_loop_limit", what, "reduce(mul, lengths, length * carry) > limit -> LoopIterationLimitError")
    else:
        res.fail("C06.R3", file=rfl.file, line=rfl.node.lineno, qualname="RenderContext.raise_for_loop_limit", construct="limit comparison shape", message="loop limit comparison is not `product > limit` over the loop stack and carry", what=what)
    res.rule("C06.R3b", "a data-driven loop that is not registered through context.loop is at least dominated by raise_for_loop_limit(length)")
    n_loops = 0
    for m in render_methods(prog):
        res.analysed_functions.add(m.fid)
        for loop in ast.walk(m.node):
            if not isinstance(loop, (ast.For, ast.AsyncFor)):
                continue
            renders = [c for b in loop.body for c in ast.walk(b) if isinstance(c, ast.Call) and isinstance(c.func, ast.Attribute) and c.func.attr in ("render", "render_async", "render_with_context", "render_with_context_async")]
            if not renders:
                continue
            it = loop.iter
            structural = (isinstance(it, ast.Name) and it.id == "self") or (isinstance(it, ast.Attribute) and is_self_attr(it)) or (isinstance(it, ast.Call) and isinstance(it.func, ast.Name) and it.func.id in ("zip", "enumerate", "reversed") and all(is_self_attr(a) for a in it.args))
            if structural:
                continue  # iteration over the node's own children (bounded by the template text)
            n_loops += 1
            site = f"{m.file}:{loop.lineno} {m.qualname}"
            what = f"`for {norm(loop.target)} in {norm(loop.iter, 40)}` runs inside context.loop()"
            w_ = enclosing_with(m.module, loop, lambda i: isinstance(i.context_expr, ast.Call) and isinstance(i.context_expr.func, ast.Attribute) and i.context_expr.func.attr == "loop" and root_name(i.context_expr.func.value) in ("context", "ctx"))
            if w_ is not None:
                res.ok("C06.R3", site, what, f"inside `with {norm(w_.items[0].context_expr, 50)}`")
            else:
                # weaker enforcement that must at least stay: a one-off raise_for_loop_limit(len) before the loop
                cfg_m = CFG(m.node)
                ln = cfg_node_of(cfg_m, loop.iter)
                pre = ln is not None and cfg_m.all_paths_pass(ln, lambda x: x.kind == "stmt" and x.node is not None and any(isinstance(c, ast.Call) and isinstance(c.func, ast.Attribute) and c.func.attr == "raise_for_loop_limit" for c in ast.walk(x.node)))
                whatb = f"`for {norm(loop.target)} in {norm(loop.iter, 40)}` preceded by raise_for_loop_limit(length)"
                if pre:
                    res.ok("C06.R3b", site, whatb, "one-off limit test dominates the loop")
                else:
                    res.fail("C06.R3b", file=m.file, line=loop.lineno, qualname=m.qualname, construct=f"for {norm(loop.target)} in {norm(loop.iter, 40)} without raise_for_loop_limit", message="a data-driven loop outside context.loop() is not even preceded by raise_for_loop_limit(length): its own iterations are unbounded", what=whatb)
                res.fail(
                    "C06.R3",
                    file=m.file,
                    line=loop.lineno,
                    qualname=m.qualname,
                    construct=f"for {norm(loop.target)} in {norm(loop.iter, 40)}",
                    message="a data-driven loop renders its body without registering on the loop stack (context.loop): nested loops inside it multiply without being counted against loop_iteration_limit",
                    what=what,
                )
    res.floor("C06.R3", "data-driven render loops", n_loops, 4)

    # ------------------------------------------------------------------ R4 depth
    res.rule("C06.R4", "scope pushes only in RenderContext.extend behind the scope-depth test; child contexts only in RenderContext.copy behind the copy-depth test, passing copy_depth + 1; partial templates are rendered through render_with_context (which extends)")
    n_push = 0
    for mod in prog.modules.values():
        for c in ast.walk(mod.tree):
            if isinstance(c, ast.Call) and isinstance(c.func, ast.Attribute) and c.func.attr == "push" and isinstance(c.func.value, ast.Attribute) and c.func.value.attr == "scope" and root_name(c.func.value) in ("self", "context", "ctx"):
                n_push += 1
                q = prog.qual_at(mod, c)
                fi = prog.enclosing_function(mod, c)
                what = f"`{norm(c)}` behind the context-depth test"
                if fi is not None and fi.cls is ctx and fi.name == "extend":
                    cfg = CFG(fi.node)
                    tn = cfg_node_of(cfg, c)
                    t = guarded_by_test(cfg, tn, lambda e: True if (isinstance(e, ast.Compare) and len(e.ops) == 1 and isinstance(e.ops[0], ast.Gt) and "self.scope.size()" in norm(e.left) and "context_depth_limit" in norm(e.comparators[0])) else None) if tn else None
                    if t is not None and any(lab == "true" and isinstance(m_.node, ast.Raise) and "ContextDepthError" in norm(m_.node) for m_, lab in t.succ):
                        res.ok("C06.R4", f"{mod.relpath}:{c.lineno} {q}", what, f"dominated by `{norm(t.node)}` -> ContextDepthError")
                    else:
                        res.fail("C06.R4", file=mod.relpath, line=c.lineno, qualname=q, construct=c, message="scope.push not dominated by the context_depth_limit test", what=what)
                else:
                    res.fail("C06.R4", file=mod.relpath, line=c.lineno, qualname=q, construct=c, message="render scope pushed outside RenderContext.extend (bypasses the depth test and the pop in finally)", what=what)
    res.floor("C06.R4", "scope.push sites", n_push, 1)
    n_ctor = 0
    allowed_roots = {("liquid2/template.py", "Template.render"), ("liquid2/template.py", "Template.render_async"), ("liquid2/static_analysis.py", "_analyze"), ("liquid2/static_analysis.py", "_analyze_async"), ("liquid2/messages.py", "extract_from_template")}
    for mod in prog.modules.values():
        for c in ast.walk(mod.tree):
            if not isinstance(c, ast.Call):
                continue
            d = dotted(c.func) or ""
            r = prog.resolve(mod, d) if d else None
            is_ctor = (hasattr(r, "full") and r.full == CTX) or (isinstance(c.func, ast.Attribute) and c.func.attr == "__class__" and root_name(c.func.value) in ("self", "context", "ctx"))
            if not is_ctor:
                continue
            fi = prog.enclosing_function(mod, c)
            if fi is None:
                continue
            n_ctor += 1
            q = fi.qualname
            what = f"`{norm(c, 50)}` constructed at a render root or in copy() behind the depth test"
            if fi.cls is ctx and fi.name == "copy":
                cfg = CFG(fi.node)
                tn = cfg_node_of(cfg, c)
                t = guarded_by_test(cfg, tn, lambda e: True if (isinstance(e, ast.Compare) and len(e.ops) == 1 and isinstance(e.ops[0], ast.Gt) and "self._copy_depth" in norm(e.left) and "context_depth_limit" in norm(e.comparators[0])) else None) if tn else None
                kw = {k.arg: norm(k.value) for k in c.keywords}
                depth_ok = kw.get("copy_depth") == "self._copy_depth + 1"
                carry_ok = kw.get("local_namespace_carry") == "self.get_size_of_locals()" and kw.get("loop_iteration_carry") == "loop_iteration_carry"
                if t is not None and depth_ok and carry_ok:
                    res.ok("C06.R4", f"{mod.relpath}:{c.lineno} {q}", what, f"dominated by `{norm(t.node)}`; copy_depth + 1; carries forwarded")
                else:
                    res.fail("C06.R4", file=mod.relpath, line=c.lineno, qualname=q, construct=f"{norm(c.func)}(copy_depth={kw.get('copy_depth')}, local_namespace_carry={kw.get('local_namespace_carry')}, loop_iteration_carry={kw.get('loop_iteration_carry')})", message="child context not created behind the copy-depth test with copy_depth + 1 and both carries forwarded", what=what)
            elif (mod.relpath, q.split(".<locals>")[0]) in allowed_roots:
                res.ok("C06.R4", f"{mod.relpath}:{c.lineno} {q}", what, "root context of a render / analysis entry point")
            else:
                res.fail("C06.R4", file=mod.relpath, line=c.lineno, qualname=q, construct=c, message="RenderContext constructed outside the render roots and RenderContext.copy: depth and carries restart from zero", what=what)
    res.floor("C06.R4", "RenderContext constructions", n_ctor, 5)
    # partial templates are rendered only through render_with_context* (never by iterating template.nodes in a tag)
    for m in render_methods(prog):
        for loop in ast.walk(m.node):
            if isinstance(loop, (ast.For, ast.AsyncFor)) and isinstance(loop.iter, ast.Attribute) and loop.iter.attr == "nodes" and not is_self_attr(loop.iter):
                res.fail("C06.R4", file=m.file, line=loop.lineno, qualname=m.qualname, construct=f"for … in {norm(loop.iter)}", message="a tag renders another template's nodes directly instead of through render_with_context (no extend, no depth test)", what="partials rendered through render_with_context")
    # copy() carry_loop_iterations computation
    cp = ctx.methods.get("copy")
    if cp is not None:
        txt = norm(cp.node, 4000)
        what = "copy(carry_loop_iterations=True) carries product(loop lengths) * carry"
        guard_ok = False
        for n in ast.walk(cp.node):
            if isinstance(n, ast.If) and any(isinstance(b, ast.Assign) and norm(b.targets[0]) == "loop_iteration_carry" and "reduce(mul" in norm(b.value) for b in n.body):
                # the carry may be reset to 1 only when the caller did not ask for it: the test is exactly the flag
                guard_ok = norm(n.test) == "carry_loop_iterations" and len(n.orelse) == 1 and norm(n.orelse[0]) == "loop_iteration_carry = 1"
        if "reduce(mul, (loop.length for loop in self.loops), self.loop_iteration_carry)" in txt and guard_ok:
            res.ok("C06.R4", f"{cp.file}:{cp.node.lineno} RenderContext.copy", what, "if carry_loop_iterations: reduce(mul, lengths, self.loop_iteration_carry) else 1")
        else:
            res.fail("C06.R4", file=cp.file, line=cp.node.lineno, qualname="RenderContext.copy", construct="loop_iteration_carry computation", message="copied contexts no longer carry the product of the active loop lengths", what=what)
        # render/include tags that loop must carry
        for rel, q in (("liquid2/builtin/tags/render_tag.py", "RenderNode.render_to_output"), ("liquid2/builtin/tags/render_tag.py", "RenderNode.render_to_output_async"), ("liquid2/builtin/tags/macro_tag.py", "CallNode.render_to_output"), ("liquid2/builtin/tags/macro_tag.py", "CallNode.render_to_output_async")):
            f = prog.fn_opt(rel, q)
            if f is None:
                continue
            for c in ast.walk(f.node):
                if isinstance(c, ast.Call) and isinstance(c.func, ast.Attribute) and c.func.attr == "copy" and root_name(c.func.value) == "context":
                    kw = {k.arg: norm(k.value) for k in c.keywords}
                    what = f"{q}: context.copy(carry_loop_iterations=True)"
                    if kw.get("carry_loop_iterations") == "True":
                        res.ok("C06.R4", f"{rel}:{c.lineno} {q}", what, "loop product carried across the render/macro boundary")
                    else:
                        res.fail("C06.R4", file=rel, line=c.lineno, qualname=q, construct=f"context.copy(carry_loop_iterations={kw.get('carry_loop_iterations')})", message="loop iterations are not carried into the rendered template / macro: loops across the boundary are not multiplied", what=what)

    # ------------------------------------------------------------------ R5 locals
    res.rule("C06.R5", "the only store into RenderContext.locals is in assign(), which compares get_size_of_locals() (including the carry) with the limit on every path")
    n_loc = 0
    for mod in prog.modules.values():
        for n in ast.walk(mod.tree):
            tgt = None
            if isinstance(n, ast.Subscript) and isinstance(n.ctx, (ast.Store, ast.Del)) and isinstance(n.value, ast.Attribute) and n.value.attr == "locals":
                tgt = n
            elif isinstance(n, ast.Call) and isinstance(n.func, ast.Attribute) and n.func.attr in ("update", "setdefault", "pop", "clear", "popitem", "__setitem__") and isinstance(n.func.value, ast.Attribute) and n.func.value.attr == "locals":
                tgt = n
            if tgt is None:
                continue
            n_loc += 1
            fi = prog.enclosing_function(mod, tgt)
            q = fi.qualname if fi else "<module>"
            what = f"`{norm(tgt, 50)}` inside RenderContext.assign"
            if fi is not None and fi.cls is ctx and fi.name == "assign":
                res.ok("C06.R5", f"{mod.relpath}:{tgt.lineno} {q}", what, "the owning writer")
            else:
                res.fail("C06.R5", file=mod.relpath, line=tgt.lineno, qualname=q, construct=tgt, message="template locals written outside RenderContext.assign: the local-namespace limit is bypassed", what=what)
    res.floor("C06.R5", "stores into locals", n_loc, 1)
    asg = ctx.methods.get("assign")
    if asg is None:
        raise AnalysisError("RenderContext.assign vanished")
    cfg = CFG(asg.node)
    def _limit_test(e: ast.AST | None) -> bool:
        if e is None:
            return False
        parts = e.values if isinstance(e, ast.BoolOp) and isinstance(e.op, ast.And) else [e]
        texts = [norm(x, 300) for x in parts]
        cmp_ = "self.get_size_of_locals() > self.env.local_namespace_limit"
        return cmp_ in texts and all(t in (cmp_, "self.env.local_namespace_limit", "self.env.local_namespace_limit is not None") for t in texts)

    tests = [n for n in cfg.nodes if n.kind == "test" and _limit_test(n.node)]
    what = "assign(): every normal exit passes the `get_size_of_locals() > local_namespace_limit` test"
    if tests and all(cfg.all_paths_pass(cfg.exit, lambda x: x in tests) for _ in [0]) and any(lab == "true" and isinstance(m_.node, ast.Raise) and "LocalNamespaceLimitError" in norm(m_.node) for t in tests for m_, lab in t.succ):
        res.ok("C06.R5", f"{asg.file}:{asg.node.lineno} RenderContext.assign", what, f"`{norm(tests[0].node, 90)}` -> LocalNamespaceLimitError")
    else:
        res.fail("C06.R5", file=asg.file, line=asg.node.lineno, qualname="RenderContext.assign", construct="assign() limit test", message="assign can return without comparing the namespace size with the limit", what=what)
    gs = ctx.methods.get("get_size_of_locals")
    what = "get_size_of_locals() adds self.local_namespace_carry"
    if gs is not None and any(isinstance(r, ast.Return) and r.value is not None and "self.local_namespace_carry" in norm(r.value, 300) and "self.locals.values()" in norm(r.value, 300) for r in ast.walk(gs.node)):
        res.ok("C06.R5", f"{gs.file}:{gs.node.lineno} RenderContext.get_size_of_locals", what, "sum(getsizeof(values)) + carry")
    else:
        res.fail("C06.R5", file=ctx.file, line=gs.node.lineno if gs else 0, qualname="RenderContext.get_size_of_locals", construct="size computation", message="namespace size no longer includes the carry from parent contexts", what=what)
    # ------------------------------------------------------------------ R6 block.super renders inside the block's own context
    res.rule("C06.R6", "the BlockDrop handed to an overriding block renders `block.super` in that block's own (block-scoped) context, where the loops around it are registered and its assignments are counted: after `ctx = context.copy(..., block_scope=True)` the drop's context is set to ctx")
    bn = prog.cls("liquid2.builtin.tags.extends_tag.BlockNode")
    n_bd = 0
    for nm in ("render_to_output", "render_to_output_async"):
        m = bn.methods.get(nm)
        if m is None:
            raise AnalysisError(f"BlockNode.{nm} vanished")
        for a in ast.walk(m.node):
            if not (isinstance(a, ast.Assign) and isinstance(a.value, ast.Call) and isinstance(a.value.func, ast.Attribute) and a.value.func.attr == "copy" and any(k.arg == "block_scope" and isinstance(k.value, ast.Constant) and k.value.value is True for k in a.value.keywords)):
                continue
            n_bd += 1
            ctx_name = a.targets[0].id if isinstance(a.targets[0], ast.Name) else None
            ns = next((k.value for k in a.value.keywords if k.arg == "namespace"), None)
            drop = ns.values[0] if isinstance(ns, ast.Dict) and ns.values else None
            site = f"{m.file}:{a.lineno} BlockNode.{nm}"
            what = f"BlockNode.{nm}: the block drop renders super in `{ctx_name}`"
            rebound = isinstance(drop, ast.Name) and any(isinstance(s_, ast.Assign) and s_.lineno > a.lineno and any(isinstance(t, ast.Attribute) and t.attr == "context" and isinstance(t.value, ast.Name) and t.value.id == drop.id for t in s_.targets) and isinstance(s_.value, ast.Name) and s_.value.id == ctx_name for s_ in ast.walk(m.node))
            if rebound:
                res.ok("C06.R6", site, what, f"`{drop.id}.context = {ctx_name}` after the copy")
            else:
                res.fail("C06.R6", file=m.file, line=a.lineno, qualname=f"BlockNode.{nm}", construct=f"{nm}: block drop keeps the outer context", message=f"the BlockDrop given to the overriding block keeps the context the block tag was rendered from: `{{{{ block.super }}}}` used inside a for loop renders the parent block outside that loop's iteration count (and its assignments outside the block's namespace count), so loop_iteration_limit / local_namespace_limit are exceeded without an error", what=what)
    res.floor("C06.R6", "block-scoped copies in BlockNode", n_bd, 2)
    # ------------------------------------------------------------------ R7 "no limit" is None, never a falsy limit
    res.rule("C06.R7", "a configured limit is compared with None to find out whether it applies: no `*_limit` attribute of the environment is used as a bare truth value (0 is a limit, not 'unlimited')")
    n_lim = 0
    for mod in prog.modules.values():
        for t in ast.walk(mod.tree):
            tests: list[ast.AST] = []
            if isinstance(t, (ast.If, ast.IfExp, ast.While)):
                tests = [t.test]
            elif isinstance(t, ast.BoolOp):
                tests = list(t.values)
            elif isinstance(t, ast.UnaryOp) and isinstance(t.op, ast.Not):
                tests = [t.operand]
            for e in tests:
                if isinstance(e, ast.Attribute) and e.attr.endswith("_limit") and "env" in norm(e.value):
                    n_lim += 1
                    fi = prog.enclosing_function(mod, e)
                    q = fi.qualname if fi else "<module>"
                    res.fail("C06.R7", file=mod.relpath, line=e.lineno, qualname=q, construct=f"{norm(e)} used as a truth value in {q}", message=f"`{norm(e)}` is tested for truth in {q}: a limit of 0 is treated as 'no limit' and nothing is enforced", what=f"`{norm(e)}` compared with None")
    n_cmp = 0
    for mod in prog.modules.values():
        for c in ast.walk(mod.tree):
            if isinstance(c, ast.Compare) and isinstance(c.left, ast.Attribute) and c.left.attr.endswith("_limit") and isinstance(c.ops[0], (ast.Is, ast.IsNot)) and isinstance(c.comparators[0], ast.Constant) and c.comparators[0].value is None:
                n_cmp += 1
                res.ok("C06.R7", f"{mod.relpath}:{c.lineno} {prog.qual_at(mod, c)}", f"`{norm(c)}`", "None means unlimited")
    res.floor("C06.R7", "limit presence tests (is / is not None)", n_cmp, 1)
    del out_mod

    # ------------------------------------------------------------------ R8 the interpreter's stack is the last depth limit
    res.rule("C06.R8", "Template.render_with_context[_async] - the frame every partial, parent and macro-free recursion passes through - converts RecursionError into ContextDepthError: a cyclic template graph whose levels nest several block tags exhausts Python's stack before the configured context depth is reached, and must still end in a depth error")
    tmpl8 = prog.cls("liquid2.template.Template")
    for nm in ("render_with_context", "render_with_context_async"):
        m8 = tmpl8.methods.get(nm)
        if m8 is None:
            raise AnalysisError(f"Template.{nm} vanished")
        ok8 = False
        for h in ast.walk(m8.node):
            if isinstance(h, ast.ExceptHandler) and h.type is not None and "RecursionError" in {norm(x).split(".")[-1] for x in (h.type.elts if isinstance(h.type, ast.Tuple) else [h.type])}:
                if any(isinstance(r, ast.Raise) and r.exc is not None and "ContextDepthError" in norm(r.exc) for r in h.body):
                    ok8 = True
        what8 = f"Template.{nm}: RecursionError becomes ContextDepthError"
        if ok8:
            res.ok("C06.R8", f"{m8.file}:{m8.node.lineno} Template.{nm}", what8, "except RecursionError: raise ContextDepthError(...)")
        else:
            res.fail("C06.R8", file=m8.file, line=m8.node.lineno, qualname=f"Template.{nm}", construct=f"Template.{nm} lets RecursionError through", message=f"Template.{nm} does not convert RecursionError: mutually recursive partials whose bodies nest a few block tags (about six) exhaust the interpreter's stack before context_depth_limit (30) is reached and the render dies with RecursionError instead of a depth error", what=what8)

    res.rule("C06.R9", "a limit that is not exceeded never changes what is rendered: the loop stack and scope pushes of RenderContext's context managers are undone on every exit (try/finally) - a loop left by StopRender or an error that stays on context.loops multiplies every later loop by its length (shared with C01.R6 / C07.R1)")
    from checks.shared import check_context_manager_pairing

    check_context_manager_pairing(prog, res, "C06.R9")
    # ------------------------------------------------------------------ R10 child contexts inherit the loop nesting
    res.rule("C06.R10", "the loop-iteration limit bounds the product of all enclosing loops, across context copies: every RenderContext.copy() made by a tag while rendering passes carry_loop_iterations=True (a copy starts with an empty loop stack; without the carry a loop inside the copy is checked as if it were outermost)")
    n10 = 0
    node_base10 = prog.cls("liquid2.ast.Node")
    for fi in sorted(prog.all_functions(), key=lambda f: (f.file, f.node.lineno)):
        if fi.cls is None or not prog.is_subclass(fi.cls, node_base10):
            continue
        for c in ast.walk(fi.node):
            if not (isinstance(c, ast.Call) and isinstance(c.func, ast.Attribute) and c.func.attr == "copy" and isinstance(c.func.value, ast.Name) and "context" in c.func.value.id and (c.args or c.keywords)):
                continue
            n10 += 1
            kw = next((k for k in c.keywords if k.arg == "carry_loop_iterations"), None)
            site = f"{fi.file}:{c.lineno} {fi.qualname}"
            what = f"{fi.qualname}: the copied context carries the enclosing loops' iteration count"
            if kw is not None and isinstance(kw.value, ast.Constant) and kw.value.value is True:
                res.ok("C06.R10", site, what, "carry_loop_iterations=True")
            else:
                res.fail("C06.R10", file=fi.file, line=c.lineno, qualname=fi.qualname, construct=f"{fi.qualname}: context.copy() without carry_loop_iterations=True", message=f"{fi.qualname} renders in `{norm(c, 70)}`: the copy's loop stack is empty and nothing carries the enclosing loops over, so a loop inside it is tested against loop_iteration_limit on its own - 10 x 10 iterations pass a limit of 50", what=what)
    res.floor("C06.R10", "context copies made by tags", n10, 8)
    res.rule("C06.R11", "the limits in force are those of the environment that renders: a cached template is handed out only by CachingLoaderMixin's hit path, which reloads a template bound to another Environment (all limits are read from template.env) - no loader reads the cache on its own (= C14.R8)")
    from checks.shared import check_cache_read_ownership

    check_cache_read_ownership(prog, res, "C06.R11")
