"""C07 - render/macro scopes are isolated and block scopes do not leak (pairing + isolation wiring)."""

from __future__ import annotations

import ast

from sa.cfg import CFG
from sa.cfg import forward
from sa.report import AnalysisError
from sa.report import Result
from sa.report import norm
from sa.srcmodel import Program
from sa.srcmodel import dotted
from sa.srcmodel import root_name

from checks.shared import check_context_manager_pairing
from checks.shared import check_scope_stack_ownership
from sa.util import is_self_attr
from sa.util import render_methods

META = {
    "technique": "acquire/release typestate over the CFG (exception edges included) of RenderContext's context managers; "
    "with-only usage lint; isolation-wiring dataflow in copy() and in the render/call tags; who-may-call audits",
    "level_text": "Decides the pairing and wiring that isolation rests on: every push/append/template-swap in "
    "RenderContext.extend/loop is undone on all exits including exceptions raised before the yield; extend/loop are "
    "only ever used as `with` items; copy() without block_scope builds the child's globals from the namespace and "
    "self.globals only and inherits the parent's disabled tags; render and call pass the *copy* (never the caller's "
    "context) to everything they render, with include disabled; nodes are rendered only through Node.render (where "
    "disabled tags are enforced); only assign/capture write template locals. Non-interference as behaviour is not decided.",
    "level_note": "Trusts contextlib.contextmanager semantics (an exception at the yield is re-raised inside the "
    "generator). Generator finalisation timing of LambdaExpression.map on non-refcounting interpreters is an assumption.",
}
META["technique"] += '; who-may-read audits (locals, counters, RenderContext.parent); identity-preservation of namespaces handed to a context; exception-escape analysis for loop interrupts at the macro-call boundary'
META["technique"] += "; call-site expressions told from macro defaults before anything is evaluated in the caller's context"
META["level_text"] += " Also decided (R6-R9): a namespace handed to a new context is stored by identity (late-bound with/for values reach it); `render … for` builds a fresh context per item; no code reaches another context's locals/counters or reads RenderContext.parent; no LiquidInterrupt escapes a macro call."

CTX = "liquid2.context.RenderContext"


def _acquire_release(st: ast.AST) -> tuple[str, str] | None:
    """('acquire'|'release', resource) for the statement, if any."""
    if isinstance(st, ast.Expr) and isinstance(st.value, ast.Call) and isinstance(st.value.func, ast.Attribute):
        f = st.value.func
        if f.attr in ("push",) and is_self_attr(f.value, "scope"):
            return "acquire", "scope"
        if f.attr == "pop" and is_self_attr(f.value, "scope"):
            return "release", "scope"
        if f.attr == "append" and is_self_attr(f.value, "loops"):
            return "acquire", "loops"
        if f.attr == "pop" and is_self_attr(f.value, "loops"):
            return "release", "loops"
    if isinstance(st, ast.Assign) and len(st.targets) == 1 and is_self_attr(st.targets[0], "template"):
        v = st.value
        if isinstance(v, ast.Name) and v.id.startswith("_"):
            return "release", "template"
        return "acquire", "template"
    return None


def _root_stable(prog: Program, ctx, cp, attr: str | None) -> tuple[bool, str]:  # noqa: ANN001
    """self.<attr> denotes the same mapping in a context and in every context copied from it: it is set only in
    __init__ (from a dedicated parameter, falling back to the context's own globals for a root context) and every
    construction in copy() hands it on as it is."""
    if attr is None:
        return False, "no attribute"
    init = ctx.methods.get("__init__")
    if init is None:
        return False, "RenderContext.__init__ missing"
    stores = []
    for mod in prog.modules.values():
        for n in ast.walk(mod.tree):
            if isinstance(n, (ast.Assign, ast.AugAssign, ast.AnnAssign)):
                tg = n.targets if isinstance(n, ast.Assign) else [n.target]
                for t in tg:
                    if isinstance(t, ast.Attribute) and t.attr == attr and root_name(t) in ("self", "ctx", "context", "macro_context"):
                        stores.append((mod, n))
    if len(stores) != 1 or prog.enclosing_function(stores[0][0], stores[0][1]) is not init:
        return False, f"self.{attr} is stored {len(stores)} time(s) / outside __init__: in a copied context it is that copy's own chain (namespace + caller), not the root's global data"
    v = stores[0][1].value
    params = set(init.params())
    names = {x.id for x in ast.walk(v) if isinstance(x, ast.Name)}
    param = next(iter(sorted((names & params) - {"self"})), None)
    dedicated = isinstance(v, ast.IfExp) and param is not None and norm(v.body) == param and norm(v.orelse) == "self.globals" and param != "global_data"
    if not dedicated:
        return False, f"self.{attr} = {norm(v)} is not `<own parameter> if given else self.globals`"
    for c in ast.walk(cp.node):
        if isinstance(c, ast.Call) and isinstance(c.func, ast.Attribute) and c.func.attr == "__class__":
            kw = {k.arg: k.value for k in c.keywords}
            if param not in kw or norm(kw[param]) != f"self.{attr}":
                return False, f"a construction in copy() does not pass {param}=self.{attr}"
    return True, ""


def run(prog: Program, res: Result) -> None:  # noqa: PLR0912, PLR0915
    res.explanation = (
        "R1 runs a may-hold typestate (resources: pushed scope, appended loop, swapped template) over the CFG of every "
        "@contextmanager method of RenderContext; a resource still held at an exceptional or normal exit is a leak. "
        "R2-R5 are who-may-call / argument-flow rules whose slots (the copy variable, the disabled-tag sets) are read from the code."
    )
    res.not_decided += ["non-interference between caller and partial as behaviour", "generator finalisation order on non-refcounting interpreters (LambdaExpression.map early exit)"]
    res.trusted_base += ["contextlib.contextmanager", "sa.cfg exception edges (pre-state)"]
    ctx = prog.cls(CTX)

    # ------------------------------------------------------------------ R1 pairing
    res.rule("C07.R1", "in RenderContext's context managers every acquisition (scope.push, loops.append, template swap) is released on all exits, including exceptions raised before the yield")
    check_context_manager_pairing(prog, res, "C07.R1")

    # ------------------------------------------------------------------ R2 with-only usage
    res.rule("C07.R2", "context.extend(...) / context.loop(...) are only ever used as `with` items")
    n_use = 0
    for mod in prog.modules.values():
        for c in ast.walk(mod.tree):
            if isinstance(c, ast.Call) and isinstance(c.func, ast.Attribute) and c.func.attr in ("extend", "loop") and (root_name(c.func.value) in ("context", "ctx", "self", "static_context", "macro_context")):
                recv = c.func.value
                if isinstance(recv, ast.Name) and recv.id == "self":
                    fi = prog.enclosing_function(mod, c)
                    if fi is None or fi.cls is not ctx:
                        continue
                elif isinstance(recv, ast.Attribute) and not (recv.attr == "context"):
                    continue  # children.extend(...), self.loops.…
                n_use += 1
                par = mod.parent(c)
                q = prog.qual_at(mod, c)
                what = f"`{norm(c, 50)}` used as a with item"
                if isinstance(par, ast.withitem):
                    res.ok("C07.R2", f"{mod.relpath}:{c.lineno} {q}", what, "with statement: unwinds on break/continue/error")
                else:
                    res.fail("C07.R2", file=mod.relpath, line=c.lineno, qualname=q, construct=c, message="scope context manager used outside a `with` statement: the pushed scope is not popped on break/continue/error", what=what)
    res.floor("C07.R2", "extend()/loop() uses", n_use, 12)
    for mod in prog.modules.values():
        for n in ast.walk(mod.tree):
            if isinstance(n, ast.Attribute) and n.attr in ("__enter__", "__exit__") and root_name(n.value) in ("context", "ctx"):
                res.fail("C07.R2", file=mod.relpath, line=n.lineno, qualname=prog.qual_at(mod, n), construct=n, message="manual __enter__/__exit__ on a render context manager", what="no manual __enter__")

    # ------------------------------------------------------------------ R3 isolation wiring
    res.rule("C07.R3", "copy() without block_scope sees only the namespace and the root context's global data (an attribute handed on unchanged by every copy) and inherits disabled tags; render/call render everything through the copy, with `include` disabled")
    cp = ctx.methods.get("copy")
    if cp is None:
        raise AnalysisError("RenderContext.copy vanished")
    res.analysed_functions.add(cp.fid)
    ctors = [c for c in ast.walk(cp.node) if isinstance(c, ast.Call) and isinstance(c.func, ast.Attribute) and c.func.attr == "__class__"]
    res.floor("C07.R3", "child context constructions in copy()", len(ctors), 2)
    iso = []
    for c in ctors:
        in_block_scope_branch = False
        for a in cp.module.ancestors(c):
            if isinstance(a, ast.If) and norm(a.test) == "block_scope":
                in_block_scope_branch = any(c is x for b in a.body for x in ast.walk(b))
                break
        kw = {k.arg: k.value for k in c.keywords}
        gd = kw.get("global_data")
        if not in_block_scope_branch:
            iso.append(c)
            what = "isolated child: global_data built from the namespace and self.globals only"
            leaked = sorted({n.attr for n in ast.walk(gd) if isinstance(n, ast.Attribute) and is_self_attr(n) and n.attr in ("scope", "locals", "counters", "tag_namespace", "loops")}) if gd is not None else ["<missing>"]
            shape = isinstance(gd, ast.Call) and norm(gd.func) == "ReadOnlyChainMap" and len(gd.args) == 2 and norm(gd.args[0]) == "namespace" and is_self_attr(gd.args[1])
            g_attr = gd.args[1].attr if shape else None
            stable, why_not = _root_stable(prog, ctx, cp, g_attr) if shape else (False, "global_data is not ReadOnlyChainMap(namespace, self.<attr>)")
            if shape and stable:
                res.ok("C07.R3", f"{cp.file}:{c.lineno} RenderContext.copy", what, f"global_data={norm(gd)}; self.{g_attr} is the root's global data in every context")
            else:
                res.fail("C07.R3", file=cp.file, line=c.lineno, qualname="RenderContext.copy", construct=f"isolated copy global_data={norm(gd) if gd is not None else '<missing>'}", message=f"the isolated child context can see more than global data and its own arguments ({why_not}{'; caller ' + str(leaked) if leaked else ''}): a partial rendered from a partial, or a partial/macro used inside an overriding block, reads its caller's arguments or variables", what=what)
        # disabled tags are inherited
        dt = kw.get("disabled_tags")
        what = "child context inherits the parent's disabled tags"
        inherits = False
        if dt is not None:
            # either the argument mentions self.disabled_tags, or the local was unioned with it on every path
            if "self.disabled_tags" in norm(dt):
                inherits = True
            elif isinstance(dt, ast.Name):
                cfg = CFG(cp.node)
                from sa.util import cfg_node_of

                tn = cfg_node_of(cfg, c)

                def unions(n) -> bool:  # noqa: ANN001
                    nd = n.node
                    return n.kind == "stmt" and isinstance(nd, ast.Assign) and any(isinstance(t, ast.Name) and t.id == dt.id for t in nd.targets) and "self.disabled_tags" in norm(nd.value)  # noqa: B023

                if tn is not None:
                    # paths that skip the union must be ones where self.disabled_tags is empty
                    skip_tests = [t for t in cfg.nodes if t.kind == "test" and t.node is not None and norm(t.node) in ("self.disabled_tags", "not self.disabled_tags")]
                    inherits = cfg.all_paths_pass(tn, lambda n: unions(n) or (n in skip_tests))
                    if inherits:
                        # the skipping edge must be the empty one
                        for t in skip_tests:
                            empty = "false" if norm(t.node) == "self.disabled_tags" else "true"
                            for m_, lab in t.succ:
                                if lab != empty and not (unions(m_) or cfg.all_paths_pass(tn, unions, start=m_)):
                                    inherits = False
        if inherits:
            res.ok("C07.R3", f"{cp.file}:{c.lineno} RenderContext.copy", what, "disabled_tags unioned with self.disabled_tags")
        else:
            res.fail("C07.R3", file=cp.file, line=c.lineno, qualname="RenderContext.copy", construct=f"child disabled_tags={norm(dt) if dt is not None else '<missing>'} (parent's not inherited)", message="a copied context does not inherit the parent's disabled tags: `include` becomes available again in nested copies (e.g. inside an overriding block of a rendered template)", what=what)
    if not iso:
        res.fail("C07.R3", file=cp.file, line=cp.node.lineno, qualname="RenderContext.copy", construct="no isolated branch", message="copy() has no branch that builds an isolated context", what="isolated branch exists")
    # nothing is copied back: copy() must not write to self
    for n in ast.walk(cp.node):
        if isinstance(n, (ast.Assign, ast.AugAssign)):
            tg = n.targets if isinstance(n, ast.Assign) else [n.target]
            for t in tg:
                if is_self_attr(t) or (isinstance(t, ast.Subscript) and root_name(t) == "self"):
                    res.fail("C07.R3", file=cp.file, line=n.lineno, qualname="RenderContext.copy", construct=n, message="copy() writes to the parent context", what="copy() leaves the parent untouched")
    # the only state a copy may take over from its parent: the template, and (block-scoped only) the extends stacks
    for n in ast.walk(cp.node):
        if isinstance(n, (ast.Assign, ast.AugAssign)):
            tg = n.targets if isinstance(n, ast.Assign) else [n.target]
            for t in tg:
                base = t
                while isinstance(base, (ast.Attribute, ast.Subscript)):
                    base = base.value
                if isinstance(base, ast.Name) and base.id == "ctx" and isinstance(t, (ast.Attribute, ast.Subscript)):
                    txt = norm(t)
                    what = f"copy(): `{norm(n, 70)}` hands only the template / extends stacks to the child"
                    if txt == "ctx.template" or txt == "ctx.tag_namespace['extends']":
                        res.ok("C07.R3", f"{cp.file}:{n.lineno} RenderContext.copy", what, "sanctioned hand-over")
                    else:
                        res.fail("C07.R3", file=cp.file, line=n.lineno, qualname="RenderContext.copy", construct=n, message=f"copy() gives the child context the parent's `{txt.split('.', 1)[1]}`: caller state (loops, locals, counters …) becomes visible inside the isolated partial/macro", what=what)
    check_scope_stack_ownership(prog, res, "C07.R2")
    # render / call tags
    n_iso_tags = 0
    for m in render_methods(prog):
        copies = [c for c in ast.walk(m.node) if isinstance(c, ast.Call) and isinstance(c.func, ast.Attribute) and c.func.attr == "copy" and root_name(c.func.value) == "context"]
        for c in copies:
            kw = {k.arg: k.value for k in c.keywords}
            bs = kw.get("block_scope")
            if bs is not None and not (isinstance(bs, ast.Constant) and bs.value is False):
                if kw.get("disabled_tags") is not None:
                    res.fail("C07.R3", file=m.file, line=c.lineno, qualname=m.qualname, construct=f"context.copy(disabled_tags=…, block_scope={norm(bs)})", message="a copy that disables tags (an isolation boundary: render/call) is made block-scoped: the body sees the caller's whole scope", what="isolation boundaries are not block-scoped")
                continue  # block-scoped copies (BlockNode) are not isolation boundaries
            n_iso_tags += 1
            res.analysed_functions.add(m.fid)
            site = f"{m.file}:{c.lineno} {m.qualname}"
            # bound variable
            par = m.module.parent(c)
            var = par.targets[0].id if isinstance(par, ast.Assign) and isinstance(par.targets[0], ast.Name) else None
            # disabled tags ⊇ {include}
            dt = kw.get("disabled_tags")
            what = "isolated partial/macro: `include` disabled"
            dset = None
            if dt is not None and isinstance(dt, ast.Attribute) and is_self_attr(dt) and m.cls is not None:
                for cls in prog.mro(m.cls):
                    v = cls.class_attrs.get(dt.attr)
                    if v is not None:
                        dset = {x.value for x in ast.walk(v) if isinstance(x, ast.Constant) and isinstance(x.value, str)}
                        break
            elif dt is not None:
                dset = {x.value for x in ast.walk(dt) if isinstance(x, ast.Constant) and isinstance(x.value, str)}
            if dset is not None and "include" in dset:
                res.ok("C07.R3", site, what, f"disabled_tags={sorted(dset)}")
            else:
                res.fail("C07.R3", file=m.file, line=c.lineno, qualname=m.qualname, construct=f"context.copy(disabled_tags={norm(dt) if dt is not None else '<missing>'})", message="the isolated context does not disable `include`", what=what)
            # every subsequent render call receives the copy
            what = f"everything rendered after the copy receives `{var}`"
            bad = None
            for r in ast.walk(m.node):
                if isinstance(r, ast.Call) and isinstance(r.func, ast.Attribute) and r.func.attr in ("render", "render_async", "render_with_context", "render_with_context_async") and r.lineno > c.lineno:
                    a0 = r.args[0] if r.args else next((k.value for k in r.keywords if k.arg == "context"), None)
                    if not (isinstance(a0, ast.Name) and a0.id == var):
                        bad = r
            if var is None or bad is not None:
                res.fail("C07.R3", file=m.file, line=(bad or c).lineno, qualname=m.qualname, construct=bad or c, message="a partial/macro body is rendered with the caller's context instead of the isolated copy: it can read and assign the caller's variables", what=what)
            else:
                res.ok("C07.R3", site, what, "all render calls after the copy pass the copy")
            # nothing copied back from the copy into the caller
            for n in ast.walk(m.node):
                if isinstance(n, ast.Call) and isinstance(n.func, ast.Attribute) and n.func.attr in ("assign", "update") and root_name(n.func.value) == "context" and var and any(isinstance(x, ast.Name) and x.id == var for x in ast.walk(n)):
                    res.fail("C07.R3", file=m.file, line=n.lineno, qualname=m.qualname, construct=n, message="state of the isolated context is copied back into the caller", what="nothing copied back")
    res.floor("C07.R3", "isolated copies in tags", n_iso_tags, 2)

    # ------------------------------------------------------------------ R4 no bypass of Node.render
    res.rule("C07.R4", "render_to_output[_async] is called only from Node.render/render_async (where disabled tags are enforced) and the default async delegation")
    n_rto = 0
    for mod in prog.modules.values():
        for c in ast.walk(mod.tree):
            if isinstance(c, ast.Call) and isinstance(c.func, ast.Attribute) and c.func.attr in ("render_to_output", "render_to_output_async"):
                n_rto += 1
                fi = prog.enclosing_function(mod, c)
                q = fi.qualname if fi else "<module>"
                what = f"`{norm(c, 50)}` called from Node.render*"
                ok = fi is not None and fi.cls is not None and fi.cls.full == "liquid2.ast.Node" and fi.name in ("render", "render_async", "render_to_output_async") and root_name(c.func.value) == "self"
                if ok and fi.name.startswith("render_to_output"):
                    ok = c.func.attr == "render_to_output"
                if ok and fi.name in ("render", "render_async"):
                    # the disabled-tag test precedes it
                    ok = any(isinstance(n, ast.If) and "disabled_tags" in norm(n.test) and any("raise_for_disabled" in norm(b) for b in n.body) for n in fi.node.body)
                if ok:
                    res.ok("C07.R4", f"{mod.relpath}:{c.lineno} {q}", what, "behind the disabled-tag test")
                else:
                    res.fail("C07.R4", file=mod.relpath, line=c.lineno, qualname=q, construct=c, message="render_to_output called directly: the disabled-tag check in Node.render is bypassed", what=what)
    res.floor("C07.R4", "render_to_output call sites", n_rto, 3)
    rfd = prog.cls("liquid2.ast.Node").methods.get("raise_for_disabled")
    what = "Node.raise_for_disabled raises DisabledTagError for a tag token named in disabled_tags"
    if rfd is not None and "token.name in disabled_tags" in norm(rfd.node, 2000) and any(isinstance(n, ast.Raise) and "DisabledTagError" in norm(n) for n in ast.walk(rfd.node)):
        res.ok("C07.R4", f"{rfd.file}:{rfd.node.lineno} Node.raise_for_disabled", what, "is_tag_token(token) and token.name in disabled_tags -> raise")
    else:
        res.fail("C07.R4", file="liquid2/ast.py", line=rfd.node.lineno if rfd else 0, qualname="Node.raise_for_disabled", construct="raise_for_disabled shape", message="disabled tags are no longer refused", what=what)
    # subclasses must not override render/render_async
    for ci in prog.subclasses("liquid2.ast.Node", strict=True):
        for nm in ("render", "render_async", "raise_for_disabled"):
            if nm in ci.methods:
                res.fail("C07.R4", file=ci.file, line=ci.methods[nm].node.lineno, qualname=f"{ci.name}.{nm}", construct=f"{ci.name} overrides {nm}", message=f"{ci.name} overrides Node.{nm}: the disabled-tag check can be skipped for this node", what="no override of Node.render")

    # ------------------------------------------------------------------ R5 who may assign
    res.rule("C07.R5", "template locals are written only by assign/capture nodes (block-bound names live in the namespace passed to extend/loop/copy)")
    n_asg = 0
    allowed = {"AssignNode", "CaptureNode"}
    for mod in prog.modules.values():
        for c in ast.walk(mod.tree):
            if isinstance(c, ast.Call) and isinstance(c.func, ast.Attribute) and c.func.attr == "assign" and root_name(c.func.value) in ("context", "ctx", "macro_context"):
                n_asg += 1
                fi = prog.enclosing_function(mod, c)
                q = fi.qualname if fi else "<module>"
                what = f"`{norm(c, 60)}` in an assign/capture node"
                if fi is not None and fi.cls is not None and fi.cls.name in allowed:
                    res.ok("C07.R5", f"{mod.relpath}:{c.lineno} {q}", what, "assign/capture write template locals by design")
                else:
                    res.fail("C07.R5", file=mod.relpath, line=c.lineno, qualname=q, construct=c, message="a block construct writes a template-local variable: the binding outlives the block", what=what)
    res.floor("C07.R5", "context.assign() call sites", n_asg, 4)
    # counters: only increment/decrement nodes
    for mod in prog.modules.values():
        for c in ast.walk(mod.tree):
            if isinstance(c, ast.Call) and isinstance(c.func, ast.Attribute) and c.func.attr in ("increment", "decrement") and root_name(c.func.value) in ("context", "ctx"):
                fi = prog.enclosing_function(mod, c)
                if not (fi is not None and fi.cls is not None and fi.cls.name in ("IncrementNode", "DecrementNode")):
                    res.fail("C07.R5", file=mod.relpath, line=c.lineno, qualname=fi.qualname if fi else "", construct=c, message="counter changed outside increment/decrement nodes", what="counters written by increment/decrement only")

    # ------------------------------------------------------------------ R6 late-bound namespaces stay attached
    res.rule("C07.R6", "a namespace handed to context.copy()/RenderContext() is stored by identity (no truthiness default, no copy): tags bind `with`/`for` values into it after the context was built")
    ctx_cls = prog.cls("liquid2.context.RenderContext")
    late = 0
    for mod in prog.modules.values():
        for f in mod.functions.values():
            for c in ast.walk(f.node):
                if isinstance(c, ast.Call) and isinstance(c.func, ast.Attribute) and c.func.attr == "copy" and root_name(c.func.value) in ("context", "ctx"):
                    ns = next((k.value for k in c.keywords if k.arg == "namespace"), None)
                    if isinstance(ns, ast.Name) and any(isinstance(s, ast.Subscript) and isinstance(s.ctx, ast.Store) and isinstance(s.value, ast.Name) and s.value.id == ns.id and s.lineno > c.lineno for s in ast.walk(f.node)):
                        late += 1
    res.floor("C07.R6", "tags that write into the namespace after building the context", late, 2)
    for mname, params in (("__init__", ("global_data",)), ("copy", ("namespace",))):
        m = ctx_cls.methods.get(mname)
        if m is None:
            raise AnalysisError(f"RenderContext.{mname} vanished")
        for pname in params:
            uses = [n for n in ast.walk(m.node) if isinstance(n, ast.Name) and n.id == pname and isinstance(n.ctx, ast.Load)]
            res.floor("C07.R6", f"uses of {pname} in RenderContext.{mname}", len(uses), 1)
            for u in uses:
                par = m.module.parent(u)
                what = f"RenderContext.{mname}: `{pname}` reaches the scope chain by identity"
                site = f"{m.file}:{u.lineno} RenderContext.{mname}"
                bad = None
                if isinstance(par, ast.BoolOp):
                    bad = f"`{norm(par)}` substitutes another mapping whenever the namespace is (still) empty"
                elif isinstance(par, ast.Call) and any(u is a for a in par.args) and isinstance(par.func, ast.Name) and par.func.id in ("dict", "list", "ChainMap", "deepcopy", "copy"):
                    bad = f"`{norm(par)}` copies the namespace"
                elif isinstance(par, (ast.Dict, ast.Starred)) or (isinstance(par, ast.keyword) and par.arg is None):
                    bad = f"`{norm(m.module.parent(par) or par)}` unpacks the namespace into a new mapping"
                elif isinstance(par, ast.IfExp) and par.test is not u and not (isinstance(par.test, ast.Compare) and isinstance(par.test.ops[0], (ast.Is, ast.IsNot)) and norm(par.test.left) == pname):
                    bad = f"`{norm(par)}` chooses by truthiness"
                elif isinstance(par, ast.IfExp) and par.test is u:
                    bad = f"`{norm(par)}` chooses by truthiness"
                if bad:
                    res.fail("C07.R6", file=m.file, line=u.lineno, qualname=f"RenderContext.{mname}", construct=f"{pname}: {bad}", message=f"{bad}: values a tag binds into its namespace after building the context (render/include `with`/`for`, macro arguments) never reach the new scope", what=what)
                else:
                    res.ok("C07.R6", site, what, f"used as `{norm(par)[:60]}`")

    # ------------------------------------------------------------------ R7 no reaching into another context's state
    res.rule("C07.R7", "a render context's private state (locals, counters) is reached only through `self`, and RenderContext.parent is never read: isolation cannot be bypassed by walking to the caller's context")
    n_state = 0
    n_parent = 0
    for mod in prog.modules.values():
        for a in ast.walk(mod.tree):
            if not (isinstance(a, ast.Attribute) and isinstance(a.ctx, ast.Load)):
                continue
            fi = prog.enclosing_function(mod, a)
            q = fi.qualname if fi else "<module>"
            if a.attr in ("counters", "locals") and (root_name(a.value) in ("context", "ctx", "macro_context", "static_context", "self") and (fi is None or fi.cls is ctx_cls or root_name(a.value) != "self")):
                n_state += 1
                what = f"`{norm(a)}` is the context's own state"
                if isinstance(a.value, ast.Name) and a.value.id == "self":
                    res.ok("C07.R7", f"{mod.relpath}:{a.lineno} {q}", what, "through self")
                else:
                    res.fail("C07.R7", file=mod.relpath, line=a.lineno, qualname=q, construct=norm(a), message=f"`{norm(a)}` reads or writes the locals/counters of a context other than the current one: a render/macro scope sees or changes its caller's variables", what=what)
            if a.attr == "parent":
                recv_is_ctx = (fi is not None and fi.cls is ctx_cls) or root_name(a.value) in ("context", "ctx", "macro_context", "static_context")
                if recv_is_ctx and not (isinstance(a.value, ast.Attribute) and a.value.attr in ("template", "path")):
                    n_parent += 1
                    res.fail("C07.R7", file=mod.relpath, line=a.lineno, qualname=q, construct=norm(a), message=f"`{norm(a)}` walks from a render context to the context it was copied from: state of the caller becomes reachable from an isolated scope", what=f"`{norm(a)}`: RenderContext.parent is not read")
    res.floor("C07.R7", "locals/counters accesses", n_state, 3)
    res.ok("C07.R7", "liquid2", "RenderContext.parent is never read", f"{n_parent} reads")

    # ------------------------------------------------------------------ R8 one isolated context per rendered instance
    res.rule("C07.R8", "`render … for`: inside the item loop the isolated context is re-created (context.copy) before each render_with_context call, so nothing a partial assigns or counts for one item is seen by the next")
    from checks.shared import check_render_for_item_isolation

    check_render_for_item_isolation(prog, res, "C07.R8")
    rn = prog.cls("liquid2.builtin.tags.render_tag.RenderNode")

    # ------------------------------------------------------------------ R9 loop interrupts stop at the isolation boundary
    res.rule("C07.R9", "break/continue raised inside a macro body or a rendered partial never reach a loop of the caller: no LiquidInterrupt escapes CallNode.render_to_output[_async] (exception-escape analysis), and the render tag renders with partial=True, block_scope=True (converted by render_with_context)")
    from sa.escape import Escapes

    E = Escapes(prog)
    cn = prog.cls("liquid2.builtin.tags.macro_tag.CallNode")
    roots = [cn.methods[n] for n in ("render_to_output", "render_to_output_async") if n in cn.methods]
    res.floor("C07.R9", "CallNode render methods", len(roots), 2)
    E.compute(roots)
    li = E.pyclass(prog.cls("liquid2.exceptions.LiquidInterrupt"))
    for r in roots:
        esc = [e for e in E.escapes_of(r) if issubclass(e.exc, li)]
        what = f"CallNode.{r.name}: no loop interrupt escapes a macro call"
        if not esc:
            res.ok("C07.R9", f"{r.file}:{r.node.lineno} CallNode.{r.name}", what, "every LiquidInterrupt raised below is caught in the call node")
        for e in esc[:2]:
            res.fail("C07.R9", file=r.file, line=r.node.lineno, qualname=f"CallNode.{r.name}", construct=f"{e.exc.__name__} from {e.qualname} escapes CallNode.{r.name}", message=f"{e.exc.__name__} raised by {e.qualname} inside a macro body propagates out of the call: a for loop around the `call` tag is ended or skipped by a break/continue that is not in its body", path=[r.qualname] + list(e.chain)[:8] + [e.qualname], what=what)
    n_rwc = 0
    for nm in ("render_to_output", "render_to_output_async"):
        m = rn.methods[nm]
        for c in ast.walk(m.node):
            if isinstance(c, ast.Call) and isinstance(c.func, ast.Attribute) and c.func.attr in ("render_with_context", "render_with_context_async"):
                n_rwc += 1
                kw = {k.arg: k.value for k in c.keywords}
                ok = all(isinstance(kw.get(k), ast.Constant) and kw[k].value is True for k in ("partial", "block_scope"))
                what = f"RenderNode.{nm}: `{norm(c, 70)}` passes partial=True, block_scope=True"
                if ok:
                    res.ok("C07.R9", f"{m.file}:{c.lineno} RenderNode.{nm}", what, "interrupts are converted to LiquidSyntaxError inside the partial")
                else:
                    res.fail("C07.R9", file=m.file, line=c.lineno, qualname=f"RenderNode.{nm}", construct=f"{nm}: {norm(c, 70)}", message="the render tag renders its partial without partial=True, block_scope=True: a break/continue in the partial is re-raised into the caller's loop (or block-scoped names leak)", what=what)
    res.floor("C07.R9", "render_with_context calls in RenderNode", n_rwc, 6)


    # ------------------------------------------------------------------ R10 tag bindings are not visible to the tag's own arguments
    res.rule("C07.R10", "names bound by a block construct are visible only inside that construct - not in the construct's own argument list: no argument expression is evaluated inside the `with context.extend/loop(…)` block that pushes the bindings (shared with C10.R5)")
    from checks.shared import check_arguments_before_bindings

    check_arguments_before_bindings(prog, res, "C07.R10")
    # ------------------------------------------------------------------ R11 a macro's defaults belong to the macro
    res.rule("C07.R11", "a macro sees global data and the arguments passed to it - its own parameter defaults included: in CallNode.render_to_output[_async] an expression taken from the bound arguments is evaluated in the caller's `context` only on a path that has told call-site expressions from the macro's defaults (a test mentioning `macro.args`); defaults are evaluated in the copied macro context. Evaluated in the caller's scope, `{% macro m, a: secret %}` reads the `secret` its caller assigned")
    call_cls = prog.mod("liquid2/builtin/tags/macro_tag.py").classes.get("CallNode")
    if call_cls is None:
        raise AnalysisError("CallNode vanished")
    n11 = 0
    for nm11 in ("render_to_output", "render_to_output_async"):
        m11 = call_cls.methods.get(nm11)
        if m11 is None:
            raise AnalysisError(f"CallNode.{nm11} vanished")
        for lp in ast.walk(m11.node):
            if not (isinstance(lp, ast.For) and "args.args" in norm(lp.iter, 80)):
                continue
            evs = [c for c in ast.walk(lp) if isinstance(c, ast.Call) and isinstance(c.func, ast.Attribute) and c.func.attr in ("evaluate", "evaluate_async") and c.args and norm(c.args[0]) == "context"]
            for c in evs:
                n11 += 1
                guards = [a for a in m11.module.ancestors(c) if isinstance(a, ast.If) and any(a2 is lp for a2 in m11.module.ancestors(a))]
                told = any("macro.args" in norm(g.test, 200) for g in guards) or any(isinstance(a, ast.If) and "macro.args" in norm(a.test, 200) and any(c is x for o in a.orelse for x in ast.walk(o)) for a in ast.walk(lp))
                site = f"{m11.file}:{c.lineno} CallNode.{nm11}"
                what = f"CallNode.{nm11}: only call-site expressions are evaluated in the caller's context"
                if told:
                    res.ok("C07.R11", site, what, "behind a test against macro.args (defaults go to the macro's context)")
                else:
                    res.fail("C07.R11", file=m11.file, line=c.lineno, qualname=f"CallNode.{nm11}", construct=f"CallNode.{nm11}: every bound argument, defaults included, evaluated in the caller's context", message=f"CallNode.{nm11} evaluates `{norm(c, 40)}` for every entry of args.args without telling the macro's parameter defaults from the call's own arguments: a default is part of the macro, and evaluated in the caller's scope it reads what the caller assigned, captured or loop-bound (`{{% macro m, a: secret %}}` prints the caller's `secret`)", what=what)
    res.floor("C07.R11", "caller-context evaluations of bound macro arguments", n11, 2)
