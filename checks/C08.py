"""C08 - template inheritance: guards, rejection classes, StopRender pairing, stack orientation (thin)."""

from __future__ import annotations

import ast

from sa import twins
from sa.cfg import CFG
from sa.report import AnalysisError
from sa.report import Result
from sa.report import norm
from sa.srcmodel import ClassInfo
from sa.srcmodel import Program
from sa.srcmodel import dotted
from sa.util import cfg_node_of
from sa.util import guarded_by_test

META = {
    "technique": "CFG dominance of the cycle guard over every parent load; existence + error-class check of each documented "
    "rejection; raise/except pairing of StopRender; writer/reader orientation agreement of the per-block stacks; twin agreement",
    "level_text": "Decides only the guards and wiring around the override-resolution fold: the `seen` test and add dominate "
    "every parent load in both twins (termination on cycles), each documented rejection exists and raises a "
    "TemplateInheritanceError subclass, StopRender raised by extends is caught by both render_with_context twins and "
    "the block stacks are cleared after the base render, and the single writer and the readers of the block stacks agree "
    "on orientation (append / [0] / [-2].parent = [-1] / super renders parent). The fold itself - that every chain and "
    "every subset of overrides renders the most-derived text - is NOT decided by this technique.",
    "level_note": "Thin claim by design (DESIGN.md C08). Trusts list.append/indexing semantics.",
}
META["technique"] += '; dominance of the `block_scope` test over every hand-over of the block stacks to a copied context'
META["technique"] += '; include_partials may gate loaded templates only (children() of every Node); presence-by-key in the loaders'
META["technique"] += '; loaded templates rendered through render_with_context only; blank-flag soundness over every Node'
META["technique"] += '; who-may-catch StopRender (class hierarchy read from exceptions.py)'
META["level_text"] += " Also decided: the parent's block stacks are handed to a copied context only on the block_scope branch."

EXT = "liquid2/builtin/tags/extends_tag.py"


def run(prog: Program, res: Result) -> None:  # noqa: PLR0912, PLR0915
    res.explanation = (
        "Rules over liquid2/builtin/tags/extends_tag.py and Template.render_with_context*: guard dominance on the CFG of the "
        "nested chain walkers, error-class resolution through the exception hierarchy, and a finite consistency check "
        "between the one writer (_store_blocks) and the readers (BlockNode.render_to_output*, BlockDrop.__getitem__)."
    )
    res.not_decided += [
        "the fold: for every chain and subset of overrides the rendered text is the most-derived override",
        "`required` propagation across more than two levels, nested blocks, discarding of child text outside blocks",
        "inheritance entered through include/render",
    ]
    res.trusted_base += ["list.append / indexing semantics", "sa.cfg dominance"]
    mod = prog.mod(EXT)
    tie = prog.cls("liquid2.exceptions.TemplateInheritanceError")

    def is_tie(name: str) -> bool:
        r = prog.resolve(mod, name)
        return isinstance(r, ClassInfo) and prog.is_subclass(r, tie)

    # ------------------------------------------------------------------ R1 cycle guard
    res.rule("C08.R1", "in both chain walkers the `name in seen -> raise TemplateInheritanceError` test and seen.add(name) dominate every parent load")
    n_load = 0
    for outer in ("_build_block_stacks", "_build_block_stacks_async"):
        inner = prog.fn(EXT, f"{outer}.<locals>._stack_template_blocks")
        res.analysed_functions.add(inner.fid)
        cfg = CFG(inner.node)
        loads = [c for c in ast.walk(inner.node) if isinstance(c, ast.Call) and isinstance(c.func, ast.Attribute) and c.func.attr in ("get_template", "get_template_async")]
        for c in loads:
            n_load += 1
            tn = cfg_node_of(cfg, c)
            site = f"{EXT}:{c.lineno} {inner.qualname}"
            what = "parent load dominated by the circular-extends guard and seen.add"
            key = norm(c.args[0]) if c.args else ""
            # the looked-up name: extends_node.name.value -> the guard is on extends_node.name
            subject = key[: -len(".value")] if key.endswith(".value") else key

            def guard(e: ast.AST, subject: str = subject) -> bool | None:
                if isinstance(e, ast.Compare) and len(e.ops) == 1 and isinstance(e.ops[0], ast.In) and norm(e.left) == subject and norm(e.comparators[0]) == "seen":
                    return True
                return None

            t = guarded_by_test(cfg, tn, guard) if tn is not None else None
            raises = t is not None and any(lab == "true" and isinstance(m.node, ast.Raise) and is_tie((dotted(m.node.exc.func) if isinstance(m.node.exc, ast.Call) else dotted(m.node.exc)) or "") for m, lab in t.succ)
            added = tn is not None and cfg.all_paths_pass(tn, lambda n, subject=subject: n.kind == "stmt" and n.node is not None and norm(n.node) == f"seen.add({subject})")
            if t is not None and raises and added:
                res.ok("C08.R1", site, what, f"`{norm(t.node)}` -> TemplateInheritanceError; seen.add({subject}) on every path")
            else:
                res.fail("C08.R1", file=EXT, line=c.lineno, qualname=inner.qualname, construct=f"{norm(c.func)}({key}) guard={bool(t)} raises={raises} add={added}", message="a parent template can be loaded without the circular-extends guard (test + seen.add) having run: a cyclic chain loops until the interpreter gives up", what=what)
        # `seen` is created once per walk, outside the inner function
        outer_fn = prog.fn(EXT, outer)
        what = f"{outer}: `seen` is one set shared by the whole walk"
        if any(isinstance(n, (ast.Assign, ast.AnnAssign)) and norm(n.targets[0] if isinstance(n, ast.Assign) else n.target) == "seen" and norm(n.value) == "set()" for n in outer_fn.node.body) and not any(isinstance(n, (ast.Assign, ast.AnnAssign)) and norm(n.targets[0] if isinstance(n, ast.Assign) else n.target) == "seen" for n in ast.walk(inner.node)):
            res.ok("C08.R1", f"{EXT}:{outer_fn.node.lineno} {outer}", what, "seen = set() in the outer function only")
        else:
            res.fail("C08.R1", file=EXT, line=outer_fn.node.lineno, qualname=outer, construct="seen initialisation", message="the cycle guard's `seen` set is not shared across the whole chain walk", what=what)
        # the walk continues from the template just loaded
        loop = next((n for n in ast.walk(outer_fn.node) if isinstance(n, ast.While)), None)
        what = f"{outer}: the walk proceeds to each loaded parent until none is returned"
        if loop is not None and norm(loop.test) == "next_template" and "_stack_template_blocks(next_template)" in norm(loop, 500):
            res.ok("C08.R1", f"{EXT}:{loop.lineno} {outer}", what, "while next_template: next_template = walk(next_template)")
        else:
            res.fail("C08.R1", file=EXT, line=outer_fn.node.lineno, qualname=outer, construct="chain walk loop", message="the chain walk no longer follows each loaded parent", what=what)
    res.floor("C08.R1", "parent loads", n_load, 2)

    # ------------------------------------------------------------------ R2 rejections
    res.rule("C08.R2", "each documented rejection exists and raises a TemplateInheritanceError (subclass): duplicate block, second extends, mismatched endblock name, un-overridden required block")
    sb = prog.fn(EXT, "_stack_blocks")
    checks = [
        ("second extends", sb, lambda t: norm(t) == "len(extends) > 1"),
        ("duplicate block name", sb, lambda t: norm(t) == "block.name in seen_block_names"),
    ]
    bt = prog.cls("liquid2.builtin.tags.extends_tag.BlockTag").methods.get("parse")
    if bt is None:
        raise AnalysisError("BlockTag.parse vanished")
    checks.append(("mismatched endblock name", bt, lambda t: norm(t) == "end_block_name != block_name"))
    bn = prog.cls("liquid2.builtin.tags.extends_tag.BlockNode")
    for nm in ("render_to_output", "render_to_output_async"):
        m = bn.methods.get(nm)
        if m is None:
            raise AnalysisError(f"BlockNode.{nm} vanished")
        checks.append((f"required block rendered directly ({nm})", m, lambda t: norm(t) == "self.required"))
        checks.append((f"required block not overridden ({nm})", m, lambda t: norm(t) == "stack_item.required"))
    for label, fn, pred in checks:
        hit = None
        for n in ast.walk(fn.node):
            if isinstance(n, ast.If) and pred(n.test):
                r = next((x for x in n.body if isinstance(x, ast.Raise)), None)
                if r is not None:
                    hit = (n, r)
        site = f"{fn.file}:{(hit[0].lineno if hit else fn.node.lineno)} {fn.qualname}"
        what = f"rejection: {label}"
        if hit is not None:
            exc = hit[1].exc
            cname = (dotted(exc.func) if isinstance(exc, ast.Call) else dotted(exc)) or ""
            if is_tie(cname):
                res.ok("C08.R2", site, what, f"raises {cname}")
            else:
                res.fail("C08.R2", file=fn.file, line=hit[1].lineno, qualname=fn.qualname, construct=f"{label}: raises {cname}", message=f"{label} raises {cname}, not a TemplateInheritanceError", what=what)
        else:
            res.fail("C08.R2", file=fn.file, line=fn.node.lineno, qualname=fn.qualname, construct=f"missing rejection: {label}", message=f"the documented rejection `{label}` no longer exists: the template is accepted and renders a silently wrong page", what=what)
    # seen_block_names is added to on every iteration
    what = "_stack_blocks records every block name it has seen"
    if "seen_block_names.add(block.name)" in norm(sb.node, 5000):
        res.ok("C08.R2", f"{EXT}:{sb.node.lineno} _stack_blocks", what, "seen_block_names.add(block.name)")
    else:
        res.fail("C08.R2", file=EXT, line=sb.node.lineno, qualname="_stack_blocks", construct="seen_block_names never grows", message="duplicate block detection never records names", what=what)

    # ------------------------------------------------------------------ R3 StopRender pairing
    res.rule("C08.R3", "ExtendsNode renders the base then clears the block stacks and raises StopRender; both render_with_context twins catch StopRender and stop; block-scoped copies share the extends stacks")
    en = prog.cls("liquid2.builtin.tags.extends_tag.ExtendsNode")
    for nm in ("render_to_output", "render_to_output_async"):
        m = en.methods.get(nm)
        if m is None:
            raise AnalysisError(f"ExtendsNode.{nm} vanished")
        what = f"ExtendsNode.{nm}: builds this chain's stacks in a mapping of its own, renders the base with them, puts the previous mapping back on every exit and stops the child"
        ecfg = CFG(m.node)
        problems = []

        def _is(n, pred):  # noqa: ANN001, ANN202
            return n.kind == "stmt" and n.node is not None and pred(n.node)

        NS = "context.tag_namespace['extends']"
        fresh = [n for n in ecfg.nodes if _is(n, lambda x: isinstance(x, ast.Assign) and any(norm(t) == NS for t in x.targets) and isinstance(x.value, ast.Call) and norm(x.value.func) in ("defaultdict", "dict"))]
        saves = [n for n in ecfg.nodes if _is(n, lambda x: isinstance(x, ast.Assign) and norm(x.value) == NS and isinstance(x.targets[0], ast.Name))]
        saved_names = {n.node.targets[0].id for n in saves}
        restores = [n for n in ecfg.nodes if _is(n, lambda x: isinstance(x, ast.Assign) and any(norm(t) == NS for t in x.targets) and isinstance(x.value, ast.Name) and x.value.id in saved_names)]
        clears = [n for n in ecfg.nodes if _is(n, lambda x: isinstance(x, ast.Expr) and norm(x.value) == NS + ".clear()")]
        builds = [n for n in ecfg.nodes if n.kind == "stmt" and n.node is not None and any(isinstance(c, ast.Call) and norm(c.func) in ("_build_block_stacks", "_build_block_stacks_async") and len(c.args) >= 2 and norm(c.args[0]) == "context" and norm(c.args[1]) == "context.template" for c in ast.walk(n.node))]
        renders = [n for n in ecfg.nodes if n.kind == "stmt" and n.node is not None and any(isinstance(c, ast.Call) and isinstance(c.func, ast.Attribute) and c.func.attr in ("render_with_context", "render_with_context_async") and [norm(a) for a in c.args] == ["context", "buffer"] for c in ast.walk(n.node))]
        stops = [n for n in ecfg.nodes if _is(n, lambda x: isinstance(x, ast.Raise) and x.exc is not None and norm(x.exc) == "StopRender")]
        if len(builds) != 1 or len(renders) != 1:
            problems.append("the chain is not built from context.template and rendered once with (context, buffer)")
        else:
            if not fresh or not ecfg.all_paths_pass(builds[0], lambda n: n in fresh):
                problems.append("the chain's blocks are stacked into the mapping already in use (an enclosing chain's stacks get this chain's blocks)")
            if clears:
                problems.append("the shared mapping is cleared after the base render (an enclosing chain loses its stacks)")
            # every exit after the swap restores the previous mapping
            if fresh:
                for ex_node, kind in ((ecfg.raise_exit, "an exception"), (ecfg.exit, "a normal return")):
                    for src, _lab in ex_node.pred:
                        if src in stops or src in fresh or src.id not in ecfg.reachable(fresh[0]):
                            continue
                        if not ecfg.all_paths_pass(src, lambda n: n in restores, start=fresh[0]) and src not in restores:
                            problems.append(f"an exit by {kind} via `{norm(src.node, 40)}` leaves the fresh mapping installed")
                            break
            if not stops or not all(ecfg.all_paths_pass(st, lambda n: n in renders) for st in stops):
                problems.append("StopRender is not raised after the base render")
            if not any(src in stops for src, _l in ecfg.raise_exit.pred):
                problems.append("no StopRender")
            normal_exits = [src for src, _l in ecfg.exit.pred]
            if normal_exits:
                problems.append("the method can return normally: the rest of the child template would be rendered")
        if not problems:
            res.ok("C08.R3", f"{EXT}:{m.node.lineno} ExtendsNode.{nm}", what, "fresh mapping before the build; restored in finally; StopRender after the render")
        else:
            res.fail("C08.R3", file=EXT, line=m.node.lineno, qualname=f"ExtendsNode.{nm}", construct=f"{nm}: " + "; ".join(sorted(set(problems))), message="ExtendsNode does not keep its chain's block stacks to itself or does not stop the child: " + "; ".join(sorted(set(problems))), what=what)
    tmpl = prog.cls("liquid2.template.Template")
    for nm in ("render_with_context", "render_with_context_async"):
        m = tmpl.methods.get(nm)
        if m is None:
            raise AnalysisError(f"Template.{nm} vanished")
        hs = [h for h in ast.walk(m.node) if isinstance(h, ast.ExceptHandler) and dotted(h.type) == "StopRender"]
        what = f"Template.{nm} catches StopRender and stops rendering the child"
        if len(hs) == 1 and len(hs[0].body) == 1 and isinstance(hs[0].body[0], ast.Break):
            # and it is the first handler (before LiquidInterrupt / LiquidError which would also match)
            tr = next(t for t in ast.walk(m.node) if isinstance(t, ast.Try) and hs[0] in t.handlers)
            if tr.handlers[0] is hs[0]:
                res.ok("C08.R3", f"{m.file}:{hs[0].lineno} Template.{nm}", what, "except StopRender: break (first handler)")
                continue
        res.fail("C08.R3", file=m.file, line=m.node.lineno, qualname=f"Template.{nm}", construct=f"{nm}: StopRender handling", message="StopRender is not caught (or not first) in render_with_context: rendering a child template fails or continues past extends", what=what)
    ctx = prog.cls("liquid2.context.RenderContext")
    cp = ctx.methods.get("copy")
    what = "copy(block_scope=True) shares tag_namespace['extends'] with the parent"
    if cp is not None and "ctx.tag_namespace['extends'] = self.tag_namespace['extends']" in norm(cp.node, 8000):
        res.ok("C08.R3", f"{cp.file}:{cp.node.lineno} RenderContext.copy", what, "same dict object")
    else:
        res.fail("C08.R3", file=ctx.file, line=cp.node.lineno if cp else 0, qualname="RenderContext.copy", construct="extends stacks not shared", message="block-scoped copies do not see the block stacks: nested blocks fall back to their base definition", what=what)
    # ... and only block-scoped copies do: a `render`ed template (isolated copy) starts with its own empty stacks
    if cp is not None:
        ccfg = CFG(cp.node)
        shares = [n for n in ccfg.nodes if n.kind == "stmt" and isinstance(n.node, ast.Assign) and any(isinstance(t, ast.Subscript) and norm(t) == "ctx.tag_namespace['extends']" for t in n.node.targets)]
        # any other way of handing the parent's stacks to the copy (whole tag_namespace shared)
        whole = [n for n in ccfg.nodes if n.kind == "stmt" and isinstance(n.node, ast.Assign) and any(isinstance(t, ast.Attribute) and t.attr == "tag_namespace" for t in n.node.targets)]
        for n in shares + whole:
            what = f"`{norm(n.node, 70)}` happens only for block-scoped copies"
            g = guarded_by_test(ccfg, n, lambda t: False if norm(t) == "block_scope" else None)
            if g is not None and n in shares:
                res.ok("C08.R3", f"{cp.file}:{n.line} RenderContext.copy", what, "on the true edge of `if block_scope`")
            else:
                res.fail("C08.R3", file=cp.file, line=n.line, qualname="RenderContext.copy", construct=f"{norm(n.node, 70)} outside `if block_scope`", message=f"`{norm(n.node, 70)}` also runs for isolated copies (render tag, macros): a template rendered from inside an inheritance chain sees - and its own extends clears - the caller's block stacks, so blocks resolve to the wrong override", what=what)
    # StopRender is raised only by ExtendsNode
    for m_ in prog.modules.values():
        for n in ast.walk(m_.tree):
            if isinstance(n, ast.Raise) and n.exc is not None and (dotted(n.exc.func if isinstance(n.exc, ast.Call) else n.exc) or "") == "StopRender":
                fi = prog.enclosing_function(m_, n)
                if not (fi is not None and fi.cls is not None and fi.cls.name == "ExtendsNode"):
                    res.fail("C08.R3", file=m_.relpath, line=n.lineno, qualname=fi.qualname if fi else "", construct=n, message="StopRender raised outside ExtendsNode", what="StopRender only from extends")

    # ------------------------------------------------------------------ R6 the walker sees every node
    res.rule("C08.R6", "_find_inheritance_nodes visits every node of the template: the recursion over node.children(context, include_partials=False) and the loop over template.nodes are unconditional, and block/extends nodes are recorded before descending")
    fin = prog.fn(EXT, "_find_inheritance_nodes")
    vis = prog.fn(EXT, "_find_inheritance_nodes.<locals>._visit_node")
    rec = [f for f in vis.node.body if isinstance(f, ast.For) and "node.children(context, include_partials=False)" in norm(f.iter) and any(isinstance(c, ast.Call) and isinstance(c.func, ast.Name) and c.func.id == "_visit_node" for c in ast.walk(f))]
    what = "_visit_node recurses into node.children(...) of every node, unconditionally"
    if len(rec) == 1 and not any(isinstance(x, (ast.Return, ast.Continue, ast.Break)) for x in ast.walk(vis.node)):
        res.ok("C08.R6", f"{EXT}:{rec[0].lineno} {vis.qualname}", what, "top-level for over node.children(context, include_partials=False)")
    else:
        res.fail("C08.R6", file=EXT, line=vis.node.lineno, qualname=vis.qualname, construct="recursion over children is conditional or missing", message="the inheritance-node walker does not descend into every node's children: a block/extends nested in an ordinary tag (for/if/case) is never stacked, so block.super, duplicate-block and second-extends detection silently miss it", what=what)
    top = [f for f in fin.node.body if isinstance(f, ast.For) and norm(f.iter) == "template.nodes"]
    what = "_find_inheritance_nodes starts the walk from every top-level node"
    if len(top) == 1 and any(isinstance(c, ast.Call) and isinstance(c.func, ast.Name) and c.func.id == "_visit_node" for c in ast.walk(top[0])):
        res.ok("C08.R6", f"{EXT}:{top[0].lineno} _find_inheritance_nodes", what, "for node in template.nodes: _visit_node(node, …)")
    else:
        res.fail("C08.R6", file=EXT, line=fin.node.lineno, qualname="_find_inheritance_nodes", construct="top-level walk", message="the walk does not start from every top-level node of the template", what=what)
    for cls_name, lst in (("BlockNode", "block_nodes"), ("ExtendsNode", "extends_nodes")):
        what = f"every {cls_name} met by the walker is recorded"
        hit = [i for i in vis.node.body if isinstance(i, ast.If) and norm(i.test) == f"isinstance(node, {cls_name})" and any(norm(b) == f"{lst}.append(node)" for b in i.body)]
        if hit:
            res.ok("C08.R6", f"{EXT}:{hit[0].lineno} {vis.qualname}", what, f"{lst}.append(node)")
        else:
            res.fail("C08.R6", file=EXT, line=vis.node.lineno, qualname=vis.qualname, construct=f"{cls_name} not recorded unconditionally", message=f"{cls_name} nodes are not all collected by the walker", what=what)

    # ------------------------------------------------------------------ R4 twins
    res.rule("C08.R4", "sync and async twins of the inheritance machinery agree modulo await")
    for fs, fa in twins.find_pairs(prog):
        if fa.file != EXT:
            continue
        site = f"{fa.file}:{fa.node.lineno} {fa.qualname}"
        what = f"{fa.qualname} == {fs.qualname} modulo await"
        diffs = twins.diff_functions(twins.normalise(fs.node), twins.normalise(fa.node))
        if not diffs:
            res.ok("C08.R4", site, what, "identical after normalisation")
        else:
            d = diffs[0]
            res.fail("C08.R4", file=fa.file, line=d.async_line or fa.node.lineno, qualname=fa.qualname, construct=f"sync `{d.sync_text}` vs async `{d.async_text}`", message=f"async twin differs from {fs.qualname}", what=what)

    # ------------------------------------------------------------------ R5 orientation
    res.rule("C08.R5", "writer and readers of the block stacks agree: leaf first + append / reader takes [0] / parent link [-2].parent = [-1] / super renders .parent (or the mirrored coherent combination)")
    st = prog.fn(EXT, "_store_blocks")
    txt = norm(st.node, 5000)
    writer = "append" if "stack.append(_BlockStackItem(" in txt else ("insert0" if "stack.insert(0, _BlockStackItem(" in txt else "?")
    link = "[-2].parent=[-1]" if "stack[-2].parent = stack[-1]" in txt else ("[1].parent=[0]" if "stack[1].parent = stack[0]" in txt else "?")
    readers = set()
    for nm in ("render_to_output", "render_to_output_async"):
        m = bn.methods[nm]
        for n in ast.walk(m.node):
            if isinstance(n, ast.Assign) and norm(n.targets[0]) == "stack_item":
                readers.add(norm(n.value))
    reader = next(iter(readers)) if len(readers) == 1 else str(sorted(readers))
    # walk starts at the leaf: ExtendsNode passes context.template (checked in R3) and _stack_template_blocks stacks *before* loading the parent
    order_ok = True
    for outer in ("_build_block_stacks", "_build_block_stacks_async"):
        inner = prog.fn(EXT, f"{outer}.<locals>._stack_template_blocks")
        first = next((s for s in inner.node.body if not (isinstance(s, ast.Expr) and isinstance(s.value, ast.Constant))), None)
        if first is None or "_stack_blocks(context, template)" not in norm(first):
            order_ok = False
    coherent = (writer, reader, link) in {("append", "block_stack[0]", "[-2].parent=[-1]"), ("insert0", "block_stack[-1]", "[1].parent=[0]")}
    what = "stack orientation: writer / reader / parent link are one of the two coherent combinations"
    if coherent and order_ok:
        res.ok("C08.R5", f"{EXT}:{st.node.lineno} _store_blocks", what, f"writer={writer}, reader={reader}, link={link}, leaf stacked first")
    else:
        res.fail("C08.R5", file=EXT, line=st.node.lineno, qualname="_store_blocks", construct=f"writer={writer} reader={reader} link={link} leaf-first={order_ok}", message=f"block stacks are written with `{writer}` (leaf first: {order_ok}) but read with `{reader}` and linked `{link}`: a less-derived definition is selected or block.super points the wrong way", what=what)
    # required flag of the selected (most-derived, first stacked) item: evaluated as a boolean function of
    # (the stack already holds a definition?, block.required) - the expression may be written in place or through a local
    what = "_store_blocks: the first definition stacked for a name (the most-derived one, which the reader selects) carries its own `required` flag"
    req_expr = None
    for c in ast.walk(st.node):
        if isinstance(c, ast.Call) and (dotted(c.func) or "").endswith("_BlockStackItem"):
            req_expr = next((k.value for k in c.keywords if k.arg == "required"), None)
    if isinstance(req_expr, ast.Name):
        defs = [a.value for a in ast.walk(st.node) if isinstance(a, ast.Assign) and any(isinstance(t, ast.Name) and t.id == req_expr.id for t in a.targets)]
        req_expr = defs[0] if len(defs) == 1 else None
    stack_names = {t.id for a in ast.walk(st.node) if isinstance(a, ast.Assign) and isinstance(a.value, ast.Subscript) and "block_stacks" in norm(a.value) for t in a.targets if isinstance(t, ast.Name)}

    def _beval(e: ast.AST, has_stack: bool, req: bool):  # noqa: ANN202
        if isinstance(e, ast.Constant) and isinstance(e.value, bool):
            return e.value
        if isinstance(e, ast.Name) and e.id in stack_names:
            return has_stack
        if norm(e) == "block.required":
            return req
        if isinstance(e, ast.UnaryOp) and isinstance(e.op, ast.Not):
            v = _beval(e.operand, has_stack, req)
            return None if v is None else (not v)
        if isinstance(e, ast.BoolOp):
            vals = [_beval(v, has_stack, req) for v in e.values]
            if any(v is None for v in vals):
                return None
            return all(vals) if isinstance(e.op, ast.And) else any(vals)
        if isinstance(e, ast.IfExp):
            t = _beval(e.test, has_stack, req)
            return None if t is None else _beval(e.body if t else e.orelse, has_stack, req)
        return None

    verdicts = [(_beval(req_expr, False, r), r) for r in (True, False)] if req_expr is not None else [(None, True)]
    if all(v is not None and v == r for v, r in verdicts):
        res.ok("C08.R5", f"{EXT}:{st.node.lineno} _store_blocks", what, f"required={norm(req_expr, 70)}: equals block.required whenever the stack is still empty")
    else:
        res.fail("C08.R5", file=EXT, line=st.node.lineno, qualname="_store_blocks", construct="required flag of the first stacked definition", message=f"the `required` flag stored with the most-derived definition of a block (`{norm(req_expr, 60) if req_expr is not None else '<not found>'}`) is not that definition's own flag: a required block that nobody overrides renders silently, or an overridden one is rejected", what=what)
    # readers render the selected item's block; super renders the parent's block with the parent's parent
    for nm in ("render_to_output", "render_to_output_async"):
        m = bn.methods[nm]
        t2 = norm(m.node, 8000)
        what = f"BlockNode.{nm} renders stack_item.block.block with block.super bound to stack_item.parent"
        if "stack_item.block.block.render" in t2 and "parent=stack_item.parent" in t2 and "block_scope=True" in t2:
            res.ok("C08.R5", f"{EXT}:{m.node.lineno} BlockNode.{nm}", what, "selected item rendered in a block-scoped copy")
        else:
            res.fail("C08.R5", file=EXT, line=m.node.lineno, qualname=f"BlockNode.{nm}", construct=f"{nm}: selected block rendering", message="the selected override is not what gets rendered, or block.super is bound to the wrong definition", what=what)
    bd = prog.cls("liquid2.builtin.tags.extends_tag.BlockDrop").methods.get("__getitem__")
    t3 = norm(bd.node, 8000) if bd else ""
    what = "BlockDrop['super'] renders self.parent's block and chains to self.parent.parent"
    if "self.parent.block.block.render(self.context, buf)" in t3 and "parent=self.parent.parent" in t3:
        res.ok("C08.R5", f"{EXT}:{bd.node.lineno} BlockDrop.__getitem__", what, "next less-derived definition")
    else:
        res.fail("C08.R5", file=EXT, line=bd.node.lineno if bd else 0, qualname="BlockDrop.__getitem__", construct="super rendering", message="block.super does not render the next less-derived definition", what=what)

    # ------------------------------------------------------------------ R7 a partial is rendered in a context that names it
    res.rule("C08.R9", "the inheritance tag parsers never consume a token and decide what it was in one step (`tokens.next().type_ == X` discards the token whatever it is): a misspelt `required` after a block's name must be a syntax error, not an optional block that renders its placeholder silently")
    probe = ast.parse("required = tokens.next().type_ == TokenType.REQUIRED")

    def _swallows(tree: ast.AST) -> list[ast.AST]:
        out = []
        for c in ast.walk(tree):
            if isinstance(c, ast.Compare) and isinstance(c.left, ast.Attribute) and isinstance(c.left.value, ast.Call) and isinstance(c.left.value.func, ast.Attribute) and c.left.value.func.attr == "next":
                out.append(c)
        return out

    if len(_swallows(probe)) != 1:
        raise AnalysisError("C08.R9 matcher self-check failed")
    n9 = 0
    for f in sorted(prog.mod(EXT).functions.values(), key=lambda f: f.node.lineno):
        if f.name != "parse":
            continue
        n9 += 1
        bad = [c for c in _swallows(f.node) if prog.enclosing_function(f.module, c) is f]
        if bad:
            res.fail("C08.R9", file=EXT, line=bad[0].lineno, qualname=f.qualname, construct=f"{f.qualname}: a token is consumed and tested in one step", message=f"{f.qualname} does `{norm(bad[0], 70)}`: the token is consumed whatever it is, so any stray word there (a misspelt `required`) is silently dropped and the block is optional", what=f"{f.qualname}: tokens are identified before they are consumed")
        else:
            res.ok("C08.R9", f"{EXT}:{f.node.lineno} {f.qualname}", f"{f.qualname}: tokens are identified before they are consumed", "no next()-and-compare")
    res.floor("C08.R9", "inheritance tag parsers", n9, 2)
    res.rule("C08.R10", "a template's identity in the inheritance machinery is what `extends` named (or the template's full name), never `Template.name`: loaders set it to the basename of the requested name, so `blog/base.html` and `layouts/base.html` are one `name` - a membership test, comparison or set keyed on it takes a linear chain through two folders for a cycle")
    n10 = 0
    for f in sorted(prog.mod(EXT).functions.values(), key=lambda f: f.node.lineno):
        tvars = {p_ for p_ in f.params() if "template" in p_ or p_ in ("parent", "base")}
        for a in ast.walk(f.node):
            if isinstance(a, ast.Assign) and isinstance(a.value, (ast.Call, ast.Await)) and "get_template" in norm(a.value, 200):
                tvars |= {t.id for t in a.targets if isinstance(t, ast.Name)}
        for x in ast.walk(f.node):
            if not (isinstance(x, ast.Attribute) and x.attr == "name" and isinstance(x.value, ast.Name) and x.value.id in tvars and prog.enclosing_function(f.module, x) is f):
                continue
            n10 += 1
            used_as_identity = None
            child: ast.AST = x
            for anc in f.module.ancestors(x):
                if isinstance(anc, ast.Compare) or isinstance(anc, (ast.Set, ast.SetComp)) or (isinstance(anc, ast.Call) and isinstance(anc.func, ast.Attribute) and anc.func.attr in ("add", "discard", "remove", "__contains__") and child in anc.args) or (isinstance(anc, ast.Subscript) and child is anc.slice):
                    used_as_identity = anc
                    break
                if isinstance(anc, (ast.stmt, ast.keyword, ast.JoinedStr)):
                    break
                child = anc
            site = f"{EXT}:{x.lineno} {f.qualname}"
            what = f"{f.qualname}: `{norm(x)}` (a basename) is not used to tell templates apart"
            if used_as_identity is None:
                res.ok("C08.R10", site, what, "used for naming only (message / template_name / full-name computation)")
            else:
                res.fail("C08.R10", file=EXT, line=x.lineno, qualname=f.qualname, construct=f"{f.qualname}: templates told apart by `.name`", message=f"{f.qualname} uses `{norm(x)}` in `{norm(used_as_identity, 60)}`: Template.name is the basename of the name a template was loaded by, so two templates of a chain that live in different folders under one file name are taken for the same template (`circular extends` for a linear chain)", what=what)
    res.floor("C08.R10", "uses of <template>.name in the inheritance module", n10, 2)
    res.rule("C08.R11", "`{{ block.super }}` renders the next less-derived definition once: the item getters reach a context object by subscription only - no membership test (`key in obj`) on it, which for a Mapping without __contains__ (the `block` drop) runs __getitem__, i.e. renders the parent block, a second time (counters, cycles and assigns in it then advance twice)")
    ctx_cls = prog.cls("liquid2.context.RenderContext")
    n11 = 0
    for nm in ("get_item", "get_item_async"):
        gm = ctx_cls.methods.get(nm)
        if gm is None:
            raise AnalysisError(f"RenderContext.{nm} vanished")
        n11 += 1
        objs = {p_ for p_ in gm.params() if p_ not in ("self", "key")} | {"obj"}
        bad = [c for c in ast.walk(gm.node) if isinstance(c, ast.Compare) and any(isinstance(o, (ast.In, ast.NotIn)) for o in c.ops) and any(isinstance(r_, ast.Name) and r_.id in objs for r_ in c.comparators)]
        if bad:
            res.fail("C08.R11", file=gm.file, line=bad[0].lineno, qualname=f"RenderContext.{nm}", construct=f"RenderContext.{nm}: membership test on the data object", message=f"RenderContext.{nm} evaluates `{norm(bad[0], 50)}`: for a Mapping that does not define __contains__ the abc falls back to __getitem__, and the `block` drop's __getitem__('super') renders the parent block - every `{{{{ block.super }}}}` then renders the less-derived definition twice and throws the first result away", what=f"RenderContext.{nm}: context objects are reached by subscription only")
        else:
            res.ok("C08.R11", f"{gm.file}:{gm.node.lineno} RenderContext.{nm}", f"RenderContext.{nm}: context objects are reached by subscription only", "no `in` with the object on the right")
    res.floor("C08.R11", "item getters", n11, 2)

    res.rule("C08.R12", "the inheritance walk sees every block a template holds: no Node.children[_async]() gates one of its own fields on include_partials (that flag hides loaded partials only); `_find_inheritance_nodes` runs with include_partials=False")
    from checks.shared import check_children_not_partial_gated

    check_children_not_partial_gated(prog, res, "C08.R12")
    res.rule("C08.R13", "an empty template is a template: loaders decide 'not found' from the failed lookup, never from the truth value of the source text (the root of a chain may be the empty string)")
    from checks.shared import check_source_presence_by_key

    check_source_presence_by_key(prog, res, "C08.R13")
    res.rule("C08.R14", "a block is found and rendered wherever it is nested: the `blank` flag of every Node consults every child it renders - an `if` whose flag forgets its `else` (or `elsif`) branch is rendered into a null buffer when its other branches are whitespace, and the `{% block %}` written in that branch, with every override and block.super chain of it, disappears (= C18.R2 = C01.R2)")
    from checks.blank import check_blank_flags as _cbf

    _cbf(prog, res, "C08.R14")
    res.rule("C08.R15", "`extends` ends the render of the template it is written in, and of no other: a template loaded by a tag is rendered through render_with_context[_async] - the frame that catches the StopRender an `extends` inside it raises - never by walking its `.nodes` from the tag's own render method (the StopRender would then end the including template, silently dropping everything after the tag)")
    n15 = 0
    nb15 = prog.cls("liquid2.ast.Node")
    for fi15 in sorted(prog.all_functions(), key=lambda f: (f.file, f.node.lineno)):
        if fi15.cls is None or not prog.is_subclass(fi15.cls, nb15) or fi15.name not in ("render_to_output", "render_to_output_async"):
            continue
        loaded = {t.id for a in ast.walk(fi15.node) if isinstance(a, ast.Assign) and "get_template" in norm(a.value, 300) for t in a.targets if isinstance(t, ast.Name)}
        if not loaded:
            continue
        n15 += 1
        walks = [x for x in ast.walk(fi15.node) if isinstance(x, ast.Attribute) and x.attr == "nodes" and isinstance(x.value, ast.Name) and x.value.id in loaded]
        site = f"{fi15.file}:{fi15.node.lineno} {fi15.qualname}"
        what = f"{fi15.qualname}: the loaded template is rendered through render_with_context"
        if walks:
            res.fail("C08.R15", file=fi15.file, line=walks[0].lineno, qualname=fi15.qualname, construct=f"{fi15.qualname}: renders `{norm(walks[0])}` itself", message=f"{fi15.qualname} reads `{norm(walks[0])}` of the template it loaded and renders the nodes itself: an `extends` in that template raises StopRender, which only render_with_context catches - it ends the including template's render loop instead, so everything after the tag is dropped without an error", what=what)
        else:
            res.ok("C08.R15", site, what, f"{sorted(loaded)} rendered by call only")
    res.floor("C08.R15", "render methods that load a template", n15, 4)
    res.rule("C08.R16", "`extends` stops the template it is written in wherever it is nested: StopRender can be caught only by Template.render_with_context[_async] - no other handler in liquid2 names StopRender or a liquid2 base class of it (a `for` loop catching `LiquidInterrupt` while StopRender derives from it swallows the stop, and the child's text and blocks are rendered again after the page)")
    from checks.shared import check_stoprender_catchers

    check_stoprender_catchers(prog, res, "C08.R16")
    res.rule("C08.R8", "the inheritance tags are never taken for whitespace: ExtendsNode and the inheritance BlockNode write the parent chain's / the override's text, so their `blank` flag is False however they are nested - a blank `extends` inside a `{% liquid %}` or `{% if %}` whose other children are blank is rendered into the null buffer and the page comes out empty, without an error (shared with C01.R2 / C18.R2, restricted to liquid2/builtin/tags/extends_tag.py)")
    from checks.blank import check_blank_flags

    check_blank_flags(prog, res, "C08.R8", only_module=EXT, floor=2)
    res.rule("C08.R7", "wherever a loaded template T is rendered through T.render_with_context[_async](C, …) outside ExtendsNode, the context C names T as its current template: C is bound only from context.copy(…, template=T), or the call sits inside `with context.extend(…, template=T)` - ExtendsNode builds the chain of a partial from context.template")
    n7 = 0
    for fi in sorted(prog.all_functions(), key=lambda f: (f.file, f.node.lineno)):
        if fi.cls is None or fi.cls.name == "ExtendsNode" or fi.file == "liquid2/template.py":
            continue
        for c in ast.walk(fi.node):
            if not (isinstance(c, ast.Call) and isinstance(c.func, ast.Attribute) and c.func.attr in ("render_with_context", "render_with_context_async") and c.args):
                continue
            tname = norm(c.func.value)
            carg = c.args[0]
            n7 += 1
            site = f"{fi.file}:{c.lineno} {fi.qualname}"
            what = f"{fi.qualname}: `{tname}` rendered in a context whose current template is `{tname}`"
            ok_why = None
            if isinstance(carg, ast.Name):
                binds = [a.value for a in ast.walk(fi.node) if isinstance(a, ast.Assign) and any(isinstance(t, ast.Name) and t.id == carg.id for t in a.targets)]
                if binds and all(isinstance(b, ast.Call) and isinstance(b.func, ast.Attribute) and b.func.attr == "copy" and any(k.arg == "template" and norm(k.value) == tname for k in b.keywords) for b in binds):
                    ok_why = f"`{carg.id}` is bound only from context.copy(…, template={tname}) ({len(binds)} binding(s))"
                elif not binds:
                    # the caller's own context: must be inside `with <ctx>.extend(..., template=T)`
                    for a in fi.module.ancestors(c):
                        if isinstance(a, (ast.With, ast.AsyncWith)):
                            for it in a.items:
                                ce = it.context_expr
                                if isinstance(ce, ast.Call) and isinstance(ce.func, ast.Attribute) and ce.func.attr == "extend" and norm(ce.func.value) == carg.id and any(k.arg == "template" and norm(k.value) == tname for k in ce.keywords):
                                    ok_why = f"inside `with {carg.id}.extend(…, template={tname})`"
                        if a is fi.node:
                            break
            if ok_why:
                res.ok("C08.R7", site, what, ok_why)
            else:
                res.fail("C08.R7", file=fi.file, line=c.lineno, qualname=fi.qualname, construct=f"{tname}.{c.func.attr}({norm(carg)}, …) in a context that does not name {tname}", message=f"{fi.qualname} renders `{tname}` in a context whose current template is still the caller's (no template={tname} on the copy/extend that produced `{norm(carg)}`): an `extends` inside the partial builds its chain from the wrong template (TemplateInheritanceError for a valid chain, or the outer chain rendered again)", what=what)
    res.floor("C08.R7", "render_with_context call sites in tags", n7, 10)
