"""C09 - a render depends only on its inputs (shared-state / effects audit)."""

from __future__ import annotations

import ast

from sa.report import AnalysisError
from sa.report import Result
from sa.report import norm
from sa.srcmodel import ClassInfo
from sa.srcmodel import FunctionInfo
from sa.srcmodel import Module
from sa.srcmodel import Program
from sa.srcmodel import dotted
from sa.srcmodel import root_name
from sa.util import is_self_attr

META = {
    "technique": "effects audit over the whole package: memoisation decorators, who-may-write classification of every "
    "attribute/subscript store and in-place mutator by the owner of its receiver (fresh local, per-render object, "
    "shared object, module global, class attribute), fresh-state rule for RenderContext, clock/entropy read placement",
    "level_text": "Decides that no code in liquid2 keeps state outside per-render objects: no memoised functions, no "
    "writes to module globals, class attributes or shared Template/Environment/Tag/Node/Expression/loader/filter "
    "instances outside construction and registration (the loader cache being the one sanctioned store), per-render "
    "state built from fresh literals on every render(), clock reads only inside render-time function bodies, "
    "registries created per Environment. A single hidden store is a history on which two renders differ; histories "
    "themselves (fault points, interleavings) are not explored.",
    "level_note": "Trusts the receiver-owner classification tables printed in the evidence (shared families are "
    "discovered by base class). State inside user drops, loaders' backing stores and third-party libraries is outside the claim.",
}
META["technique"] += '; must-pass-through of the cache-hit rebinding (shared with C14.R2)'
META["level_text"] += ' Also decided (R2b): the one in-place update of a shared Template (cache-hit global_data rebinding, a known finding) is unconditional on every path to the hit.'
META["technique"] += "; declared-type lint for order-sensitive consumption of sets (hash-seed dependent order)"
META["technique"] += '; module-level stateful instances driven from functions; constructor-parameter forwarding of the caching loaders'
META["level_text"] += " Also decided (R6, R7): hash() is used only inside __hash__, and no set/frozenset-typed expression is consumed in iteration order outside sorted() (both would make a render depend on PYTHONHASHSEED)."

MUTATORS = {"append", "extend", "insert", "pop", "remove", "clear", "sort", "reverse", "update", "setdefault", "popitem", "add", "discard", "appendleft", "popleft", "move_to_end", "__setitem__", "__delitem__", "difference_update", "intersection_update", "symmetric_difference_update"}
MEMO_DECORATORS = {"functools.lru_cache", "functools.cache", "functools.cached_property", "lru_cache", "cache", "cached_property"}
CLOCK_CALLS = {"datetime.datetime.now", "datetime.datetime.utcnow", "datetime.datetime.today", "datetime.date.today", "time.time", "time.monotonic", "time.perf_counter", "time.time_ns", "time.localtime", "time.gmtime", "os.urandom", "uuid.uuid4", "uuid.uuid1", "random.random", "random.randint", "random.choice", "random.shuffle", "secrets.token_hex"}
REGISTRATION_FUNCS = {"register_default_tags_and_filters", "register_translation_filters", "setup_tags_and_filters", "__init__", "add_filter", "add_tag"}


def _shared_families(prog: Program) -> dict[str, str]:
    fam: dict[str, str] = {}
    for base, label in (
        ("liquid2.ast.Node", "Node"), ("liquid2.expression.Expression", "Expression"), ("liquid2.tag.Tag", "Tag"),
        ("liquid2.template.Template", "Template"), ("liquid2.environment.Environment", "Environment"), ("liquid2.loader.BaseLoader", "loader"),
        ("liquid2.builtin.loaders.mixins.CachingLoaderMixin", "loader"),
    ):
        for c in prog.subclasses(base):
            fam[c.full] = label
    # filter classes: anything registered as a filter whose target is a class
    filters, _ = prog.registries()
    for regs in filters.values():
        for _n, target, _v, _m in regs:
            if isinstance(target, ClassInfo):
                for c in prog.mro(target):
                    fam.setdefault(c.full, "filter object")
    # carriers stored on AST nodes
    for name in ("Filter", "KeywordArgument", "PositionalArgument", "Parameter", "Macro", "MessageBlock", "Partial"):
        for c in prog.all_classes():
            if c.name == name:
                fam.setdefault(c.full, "AST carrier")
    return fam


INPLACE_FUNCS = {"iconcat", "iadd", "ior", "iand", "imul", "isub", "ixor", "imod", "ifloordiv", "itruediv", "ilshift", "irshift", "ipow", "imatmul", "setitem", "delitem", "heappush", "heappop", "heapify", "insort", "insort_left", "insort_right", "shuffle"}


def _stores(mod: Module):
    """(stmt, target expr, kind) for every attribute/subscript store, delete and in-place mutator call."""
    for n in ast.walk(mod.tree):
        tg: list[ast.AST] = []
        if isinstance(n, ast.Assign):
            tg = list(n.targets)
        elif isinstance(n, (ast.AugAssign, ast.AnnAssign)):
            if isinstance(n, ast.AnnAssign) and n.value is None:
                continue
            tg = [n.target]
        elif isinstance(n, ast.Delete):
            tg = list(n.targets)
        for t in tg:
            for x in (t.elts if isinstance(t, (ast.Tuple, ast.List)) else [t]):
                if isinstance(x, (ast.Attribute, ast.Subscript)):
                    yield n, x, "store"
        if isinstance(n, ast.Call) and isinstance(n.func, ast.Attribute) and n.func.attr in MUTATORS:
            yield n, n.func.value, "mutate"
        # in-place operators called as functions (operator.iconcat(a, b) extends a), also through reduce(): without an initial value the
        # accumulator IS the first element of the iterable - reduce(iconcat, lists) extends lists[0]
        if isinstance(n, ast.Call):
            fname = (dotted(n.func) or "").split(".")[-1]
            if fname in INPLACE_FUNCS and n.args:
                yield n, n.args[0], "mutate"
            elif fname == "reduce" and len(n.args) >= 2 and (dotted(n.args[0]) or "").split(".")[-1] in INPLACE_FUNCS:
                yield n, (n.args[2] if len(n.args) >= 3 else n.args[1]), "mutate"


def run(prog: Program, res: Result) -> None:  # noqa: PLR0912, PLR0915
    res.explanation = (
        "Every store/mutation in the package is classified by the owner of its receiver. Shared families "
        "(Node, Expression, Tag, Template, Environment, loaders, registered filter classes, AST carriers) are discovered "
        "from base classes and registries. Allowed writes: constructors, registration functions, the loader cache, "
        "exception annotation (err.token / err.template_name), objects created in the same function, per-render classes."
    )
    res.not_decided += ["histories with injected faults / interleavings as such", "state kept by user drops, loader backing stores, babel/dateutil"]
    res.trusted_base += ["receiver-owner classification (printed below)", "CPython ast"]
    fam = _shared_families(prog)
    res.stats["shared_classes"] = len(fam)
    res.floor("C09", "shared classes", len(fam), 90)

    # ------------------------------------------------------------------ R1 memoisation
    res.rule("C09.R1", "no memoised function (lru_cache/cache/cached_property), no mutable default argument, no module-level container mutated from a function")
    n_dec = 0
    for f in prog.all_functions():
        for d in f.node.decorator_list:
            n_dec += 1
            name = dotted(d.func if isinstance(d, ast.Call) else d) or ""
            ext = prog.resolve(f.module, name)
            full = ext if isinstance(ext, str) else name
            if full in MEMO_DECORATORS or name.split(".")[-1] in ("lru_cache", "cache", "cached_property"):
                res.fail("C09.R1", file=f.file, line=f.node.lineno, qualname=f.qualname, construct=f"@{norm(d)} def {f.name}", message=f"`{f.qualname}` is memoised process-wide: a result computed in one render (including time-dependent ones) is served to later renders", what=f"{f.qualname} not memoised")
        # mutable defaults that are mutated
        a = f.node.args
        for p, dv in list(zip(reversed(a.posonlyargs + a.args), reversed(a.defaults))) + [(p, dv) for p, dv in zip(a.kwonlyargs, a.kw_defaults) if dv is not None]:
            if isinstance(dv, (ast.List, ast.Dict, ast.Set)) or (isinstance(dv, ast.Call) and isinstance(dv.func, ast.Name) and dv.func.id in ("list", "dict", "set", "defaultdict", "deque")):
                mutated = any(isinstance(c, ast.Call) and isinstance(c.func, ast.Attribute) and c.func.attr in MUTATORS and root_name(c.func.value) == p.arg for c in ast.walk(f.node)) or any(
                    isinstance(s, ast.Subscript) and isinstance(s.ctx, ast.Store) and root_name(s) == p.arg for s in ast.walk(f.node)
                )
                if mutated:
                    res.fail("C09.R1", file=f.file, line=f.node.lineno, qualname=f.qualname, construct=f"mutable default {p.arg}={norm(dv)} mutated", message=f"mutable default argument `{p.arg}` is mutated: state survives across calls", what="no mutated mutable default")
    # memoisers applied as a call rather than a decorator: `f = lru_cache(maxsize=256)(g)`, `cache(g)`
    n_memo_calls = 0
    for mod in prog.modules.values():
        for c in ast.walk(mod.tree):
            if not isinstance(c, ast.Call):
                continue
            name = dotted(c.func) or ""
            ext = prog.resolve(mod, name) if name else None
            full = ext if isinstance(ext, str) else name
            if full in MEMO_DECORATORS or name.split(".")[-1] in ("lru_cache", "cache", "cached_property"):
                n_memo_calls += 1
                fi_ = prog.enclosing_function(mod, c)
                if fi_ is not None and any(d is c or (isinstance(d, ast.Call) and d.func is c) for d in fi_.node.decorator_list):
                    continue  # reported above as a decorator
                par = mod.parent(c)
                if any(isinstance(a, (ast.FunctionDef, ast.AsyncFunctionDef)) and (c in a.decorator_list or par in a.decorator_list) for a in ast.walk(mod.tree)):
                    continue
                res.fail("C09.R1", file=mod.relpath, line=c.lineno, qualname=fi_.qualname if fi_ else "<module>", construct=f"memoiser applied by call: {norm(par if isinstance(par, ast.Call) else c, 60)}", message=f"`{norm(par if isinstance(par, ast.Call) else c, 60)}` wraps a function in a process-wide memo: a result computed in one render (including clock-dependent ones such as a partial date string completed from today's date) is served to later renders", what="no memoiser applied by call")
    res.ok("C09.R1", "liquid2/**", "no memoisation decorator on any function", f"{n_dec} decorators on {sum(1 for _ in prog.all_functions())} functions scanned; {n_memo_calls} memoiser call(s)")
    res.floor("C09.R1", "decorators scanned", n_dec, 40)
    # module-level containers mutated from inside functions
    n_glob = 0
    for mod in prog.modules.values():
        containers = {name for name, v in mod.globals_.items() if isinstance(v, (ast.Dict, ast.List, ast.Set, ast.ListComp, ast.DictComp)) or (isinstance(v, ast.Call) and isinstance(v.func, ast.Name) and v.func.id in ("dict", "list", "set", "defaultdict", "OrderedDict", "deque", "WeakValueDictionary"))}
        n_glob += len(mod.globals_)
        for stmt, tgt, kind in _stores(mod):
            fi = prog.enclosing_function(mod, stmt)
            if fi is None:
                continue
            r = root_name(tgt)
            if r in containers or (r in mod.globals_ and isinstance(tgt, ast.Name)):
                # not shadowed by a local
                if any(isinstance(x, ast.Name) and x.id == r and isinstance(x.ctx, ast.Store) for x in ast.walk(fi.node)) or r in fi.params():
                    continue
                res.fail("C09.R1", file=mod.relpath, line=stmt.lineno, qualname=fi.qualname, construct=stmt, message=f"module-level container `{r}` is mutated from a function: process-wide state", what=f"module global {r} not mutated")
        for n in ast.walk(mod.tree):
            if isinstance(n, ast.Global):
                fi = prog.enclosing_function(mod, n)
                res.fail("C09.R1", file=mod.relpath, line=n.lineno, qualname=fi.qualname if fi else "", construct=n, message="`global` statement: a function rebinds module state", what="no global statements")
    res.ok("C09.R1", "liquid2/**", "no module-level container is mutated from a function; no `global`", f"{n_glob} module-level bindings scanned")
    # module-level *instances* of stateful liquid2 classes driven from a function: `_parser = StripParser()` shared by every call
    n_inst = 0
    for mod in prog.modules.values():
        for gname, gv in mod.globals_.items():
            if not (isinstance(gv, ast.Call) and isinstance(gv.func, ast.Name)):
                continue
            r_ = prog.resolve(mod, gv.func.id)
            gci = r_ if hasattr(r_, "methods") else mod.classes.get(gv.func.id)
            if gci is None or not hasattr(gci, "methods"):
                continue
            n_inst += 1
            # methods of the class that write instance state (directly): anything but the constructor that stores to / mutates self.*
            writers = set()
            for mn, mf in gci.methods.items():
                if mn == "__init__":
                    continue
                for x in ast.walk(mf.node):
                    if (isinstance(x, (ast.Attribute, ast.Subscript)) and isinstance(x.ctx, ast.Store) and root_name(x) == "self") or (isinstance(x, ast.AugAssign) and root_name(x.target) == "self") or (isinstance(x, ast.Call) and isinstance(x.func, ast.Attribute) and x.func.attr in MUTATORS and root_name(x.func.value) == "self"):
                        writers.add(mn)
            if not writers:
                continue
            external_base = any(prog.resolve(mod, dotted(b) or "") is None or isinstance(prog.resolve(mod, dotted(b) or ""), str) for b in gci.node.bases)
            for fi in mod.functions.values():
                if gname in fi.params() or any(isinstance(x, ast.Name) and x.id == gname and isinstance(x.ctx, ast.Store) for x in ast.walk(fi.node)):
                    continue
                aliases = {gname} | {t.id for a in ast.walk(fi.node) if isinstance(a, ast.Assign) and isinstance(a.value, ast.Name) and a.value.id == gname for t in a.targets if isinstance(t, ast.Name)}
                for c in ast.walk(fi.node):
                    if isinstance(c, ast.Call) and isinstance(c.func, ast.Attribute) and isinstance(c.func.value, ast.Name) and c.func.value.id in aliases:
                        m_ = c.func.attr
                        if m_ in writers or (external_base and m_ not in gci.methods):
                            res.fail("C09.R1", file=mod.relpath, line=c.lineno, qualname=fi.qualname, construct=f"{fi.qualname}: drives the module-level instance `{gname}` ({gci.name}.{m_})", message=f"{fi.qualname} calls `{norm(c, 50)}` on `{gname}`, a {gci.name} created once at import and shared by every call: {gci.name} keeps state between its method calls ({', '.join(sorted(writers))[:60]} write self.*), so what one render left behind (an unclosed <script>, a half-consumed buffer) decides what the next one produces", what=f"module-level instance {gname} is not driven from a function")
                            break
    res.stats["module_level_instances"] = n_inst

    # ------------------------------------------------------------------ R2 who-may-write
    res.rule("C09.R2", "no store/mutation on a shared object (Node, Expression, Tag, Template, Environment, loader, filter object, class attribute) outside construction/registration; the loader cache is the one sanctioned shared store")
    n_writes = 0
    for mod in prog.modules.values():
        for stmt, tgt, kind in _stores(mod):
            fi = prog.enclosing_function(mod, stmt)
            if fi is None:
                continue  # module/class level initialisation
            owner = _owner(prog, fam, fi, tgt, stmt)
            if owner is None:
                continue
            n_writes += 1
            label, ok, why = owner
            site = f"{mod.relpath}:{stmt.lineno} {fi.qualname}"
            what = f"`{norm(tgt, 50)}` ({kind}) on {label}"
            if ok:
                res.ok("C09.R2", site, what, why)
            else:
                res.fail("C09.R2", file=mod.relpath, line=stmt.lineno, qualname=fi.qualname, construct=f"{kind} {norm(tgt, 60)}", message=f"{why}: `{norm(stmt, 70)}` changes {label}, which is shared by every render that uses it", what=what)
    res.floor("C09.R2", "classified writes", n_writes, 25)
    res.rule("C09.R2b", "the one sanctioned in-place update of a shared Template (the caching loaders' global_data rebinding, a known finding of R2) is at least unconditional: a cache hit is never returned with the globals of an earlier caller (shared with C14.R2)")
    from checks.shared import check_cache_hit_rebinds

    check_cache_hit_rebinds(prog, res, "C09.R2b")
    res.rule("C09.R9", "what a render shows follows the loader's contents at that moment, not an earlier load: a file-backed cached template is fresh only if the modification time recorded at load time EQUALS the file's current one (shared with C14.R3)")
    from checks.shared import check_freshness_equality

    check_freshness_equality(prog, res, "C09.R9")
    res.rule("C09.R10", "configuring one Environment never alters another: a caching loader shared by two environments returns a cached template only to the Environment it was parsed for - unconditionally, sync and async (shared with C14.R5 / C04.S5 / C18.R7)")
    from checks.shared import check_cache_hit_environment

    check_cache_hit_environment(prog, res, "C09.R10")
    res.rule("C09.R11", "whether a cached template is served does not depend on how it was loaded before: Template.is_up_to_date() treats anything but a real bool from uptodate() as stale - the coroutine an async-loaded template's uptodate returns to a sync caller is truthy, and would keep a modified file's old content alive (shared with C14.R3)")
    from checks.shared import check_uptodate_is_bool

    check_uptodate_is_bool(prog, res, "C09.R11")
    res.rule("C09.R12", "which template a name gives depends on the load's own namespace, not on who loaded the name first: every caching loader hands namespace_key / auto_reload / capacity to CachingLoaderMixin.__init__ as given - a dropped namespace_key makes all namespaces share one cache slot per name (shared with C14.R7)")
    from checks.shared import check_loader_ctor_forwarding

    check_loader_ctor_forwarding(prog, res, "C09.R12")

    # ------------------------------------------------------------------ R3 fresh per-render state
    res.rule("C09.R3", "RenderContext.__init__ builds locals/counters/tag_namespace/loops from fresh literals; Template.render[_async] constructs a new RenderContext and buffer on every call; class-level containers handed to instances are never mutated")
    ctx = prog.cls("liquid2.context.RenderContext")
    init = ctx.methods.get("__init__")
    if init is None:
        raise AnalysisError("RenderContext.__init__ vanished")
    params = set(init.params())
    fresh = {"locals": False, "counters": False, "tag_namespace": False, "loops": False}
    for n in ast.walk(init.node):
        tgt = val = None
        if isinstance(n, ast.Assign) and len(n.targets) == 1:
            tgt, val = n.targets[0], n.value
        elif isinstance(n, ast.AnnAssign) and n.value is not None:
            tgt, val = n.target, n.value
        if tgt is not None and is_self_attr(tgt) and tgt.attr in fresh:
            names = {x.id for x in ast.walk(val) if isinstance(x, ast.Name)}
            literal = isinstance(val, (ast.Dict, ast.List, ast.Set)) or (isinstance(val, ast.Call) and isinstance(val.func, ast.Name) and val.func.id in ("dict", "list", "set", "defaultdict"))
            uses_shared = bool(names & params) or any(is_self_attr(x) for x in ast.walk(val)) or any(isinstance(x, ast.Name) and x.id in init.module.globals_ for x in ast.walk(val) if isinstance(x, ast.Name) and x.id not in ("defaultdict", "list", "dict", "set"))
            site = f"{init.file}:{n.lineno} RenderContext.__init__"
            what = f"self.{tgt.attr} starts from a fresh literal"
            if literal and not uses_shared:
                fresh[tgt.attr] = True
                res.ok("C09.R3", site, what, f"= {norm(val, 60)}")
            else:
                res.fail("C09.R3", file=init.file, line=n.lineno, qualname="RenderContext.__init__", construct=n, message=f"per-render state `{tgt.attr}` is not built from a fresh literal (it comes from a parameter, attribute or module object): it survives into other renders", what=what)
    for k, v in fresh.items():
        if not v and not any(f.rule == "C09.R3" and f"self.{k}" in f.construct for f in res.findings):
            res.fail("C09.R3", file=init.file, line=init.node.lineno, qualname="RenderContext.__init__", construct=f"self.{k} not initialised", message=f"per-render state `{k}` is not initialised in __init__", what=f"self.{k} initialised")
    tmpl = prog.cls("liquid2.template.Template")
    for name in ("render", "render_async"):
        m = tmpl.methods.get(name)
        if m is None:
            raise AnalysisError(f"Template.{name} vanished")
        res.analysed_functions.add(m.fid)
        txt = norm(m.node, 3000)
        site = f"{m.file}:{m.node.lineno} Template.{name}"
        what = f"Template.{name} builds a new RenderContext and buffer per call"
        ctor = [c for c in ast.walk(m.node) if isinstance(c, ast.Call) and (dotted(c.func) or "") == "RenderContext"]
        buf = [c for c in ast.walk(m.node) if isinstance(c, ast.Call) and isinstance(c.func, ast.Attribute) and c.func.attr == "_get_buffer"]
        kw = {k.arg: k.value for c in ctor for k in c.keywords}
        gd = kw.get("global_data")
        gd_ok = gd is not None and norm(gd) == "self.make_globals(dict(*args, **kwargs))"
        if ctor and buf and gd_ok and "self._ctx" not in txt:
            res.ok("C09.R3", site, what, "RenderContext(self, global_data=self.make_globals(dict(*args, **kwargs))) and self._get_buffer() inside the call")
        else:
            res.fail("C09.R3", file=m.file, line=m.node.lineno, qualname=f"Template.{name}", construct=f"{name}: context/buffer construction", message="render does not construct a fresh context (over a fresh dict of the arguments) and buffer on every call", what=what)
    # class-level mutable containers on shared classes are never mutated through instances
    n_cc = 0
    for cfull in fam:
        ci = prog.resolve_abs(cfull)
        if not isinstance(ci, ClassInfo):
            continue
        for attr, v in ci.class_attrs.items():
            if isinstance(v, (ast.Set, ast.List, ast.Dict)) or (isinstance(v, ast.Call) and isinstance(v.func, ast.Name) and v.func.id in ("set", "list", "dict")):
                n_cc += 1
                bad = None
                for mod in prog.modules.values():
                    for stmt, tgt, kind in _stores(mod):
                        t = tgt
                        while isinstance(t, ast.Subscript):
                            t = t.value
                        if isinstance(t, ast.Attribute) and t.attr == attr and kind in ("mutate", "store") and (kind == "mutate" or isinstance(tgt, ast.Subscript)):
                            # mutation of something.<attr>: does <attr> denote this class attribute?
                            fi = prog.enclosing_function(mod, stmt)
                            if fi is not None and fi.cls is not None and prog.is_subclass(fi.cls, ci) and is_self_attr(t):
                                inst_assigned = any(is_self_attr(x, attr) and isinstance(x.ctx, ast.Store) for c2 in prog.mro(fi.cls) for m2 in c2.methods.values() for x in ast.walk(m2.node))
                                if not inst_assigned:
                                    bad = (mod, stmt, fi)
                site = f"{ci.file}:{ci.node.lineno} {ci.name}.{attr}"
                what = f"class-level container {ci.name}.{attr} is never mutated"
                if bad:
                    mod, stmt, fi = bad
                    res.fail("C09.R3", file=mod.relpath, line=stmt.lineno, qualname=fi.qualname, construct=stmt, message=f"class-level container {ci.name}.{attr} (shared by all instances and all renders) is mutated", what=what)
                else:
                    res.ok("C09.R3", site, what, "no in-place mutation through any instance")
    res.stats["class_level_containers"] = n_cc
    # … nor through an alias: a class-level container passed as an argument must not be mutated in place by the callee
    for cfull in fam:
        ci = prog.resolve_abs(cfull)
        if not isinstance(ci, ClassInfo):
            continue
        for attr, v in ci.class_attrs.items():
            if not (isinstance(v, (ast.Set, ast.List, ast.Dict)) or (isinstance(v, ast.Call) and isinstance(v.func, ast.Name) and v.func.id in ("set", "list", "dict"))):
                continue
            for m in ci.methods.values():
                for c in ast.walk(m.node):
                    if not isinstance(c, ast.Call):
                        continue
                    callee = c.func.attr if isinstance(c.func, ast.Attribute) else (c.func.id if isinstance(c.func, ast.Name) else None)
                    if callee is None:
                        continue
                    passed: list[tuple[int | None, str | None]] = []
                    for i, a in enumerate(c.args):
                        if is_self_attr(a, attr):
                            passed.append((i, None))
                    for k in c.keywords:
                        if is_self_attr(k.value, attr):
                            passed.append((None, k.arg))
                    for pos, kw in passed:
                        for g in prog.all_functions():
                            if g.name != callee:
                                continue
                            params = [p for p in g.params() if p not in ("self", "cls")]
                            pname = kw if kw in params else (params[pos] if pos is not None and pos < len(params) else None)
                            if pname is None:
                                continue
                            what = f"{g.qualname}({pname}=self.{attr}) does not mutate the class-level container in place"
                            bad = None
                            for n in ast.walk(g.node):
                                if isinstance(n, ast.AugAssign) and isinstance(n.target, ast.Name) and n.target.id == pname:
                                    bad = n
                                if isinstance(n, ast.Call) and isinstance(n.func, ast.Attribute) and n.func.attr in MUTATORS and isinstance(n.func.value, ast.Name) and n.func.value.id == pname:
                                    bad = n
                                if isinstance(n, ast.Subscript) and isinstance(n.ctx, (ast.Store, ast.Del)) and isinstance(n.value, ast.Name) and n.value.id == pname:
                                    bad = n
                            if bad is not None:
                                res.fail("C09.R3", file=g.file, line=bad.lineno, qualname=g.qualname, construct=f"{pname} (bound to {ci.name}.{attr}) mutated: {norm(bad, 60)}", message=f"{ci.name}.{m.name} passes the class-level container {ci.name}.{attr} as `{pname}` and {g.qualname} mutates it in place (`{norm(bad, 60)}`): the change is visible to every template, environment and later render in the process", what=what)
                            else:
                                res.ok("C09.R3", f"{g.file}:{g.node.lineno} {g.qualname}", what, "parameter only read / rebound")

    # ------------------------------------------------------------------ R4 clock
    res.rule("C09.R4", "clock/entropy reads occur only inside render-time function bodies: never at module/class level, in default arguments, in __init__/parse of AST or tag classes, or in parse-time functions")
    n_clock = 0
    parse_names = {"parse", "__init__", "__new__", "tokenize", "from_string", "get_template", "load", "get_source"}
    for mod in prog.modules.values():
        for c in ast.walk(mod.tree):
            if not isinstance(c, ast.Call):
                continue
            d = dotted(c.func) or ""
            ext = prog.resolve(mod, d) if d else None
            full = ext if isinstance(ext, str) else d
            if full not in CLOCK_CALLS:
                continue
            n_clock += 1
            fi = prog.enclosing_function(mod, c)
            what = f"`{norm(c)}` read at render time"
            if fi is None:
                res.fail("C09.R4", file=mod.relpath, line=c.lineno, qualname="<module>", construct=c, message="clock/entropy read at import time: frozen for the life of the process", what=what)
                continue
            in_default = any(c is x for dflt in fi.node.args.defaults + [k for k in fi.node.args.kw_defaults if k is not None] for x in ast.walk(dflt))
            top = fi
            while top.parent_fn is not None:
                top = top.parent_fn
            frozen = in_default or top.name in parse_names or top.name.startswith("parse") or top.name.startswith("lex_") or (top.cls is not None and fam.get(top.cls.full) == "Tag")
            if frozen:
                res.fail("C09.R4", file=mod.relpath, line=c.lineno, qualname=fi.qualname, construct=c, message="clock/entropy read at parse/construction time: the value is frozen into the Template/Environment and reused by later renders", what=what)
            else:
                res.ok("C09.R4", f"{mod.relpath}:{c.lineno} {fi.qualname}", what, "inside a function evaluated during rendering")
    res.floor("C09.R4", "clock reads", n_clock, 3)

    # ------------------------------------------------------------------ R5 registries
    res.rule("C09.R6", "the builtin hash() is called only inside __hash__ methods: a hash of names or values used as an identity key (stored on a node, used as a dict key) collides for distinct values and, for strings, differs from process to process (PYTHONHASHSEED)")
    n_hash = 0
    for mod in prog.modules.values():
        for c in ast.walk(mod.tree):
            if isinstance(c, ast.Call) and isinstance(c.func, ast.Name) and c.func.id == "hash":
                n_hash += 1
                fi = prog.enclosing_function(mod, c)
                q = fi.qualname if fi else "<module>"
                what = f"`{norm(c, 50)}` only implements __hash__"
                if fi is not None and fi.name == "__hash__":
                    res.ok("C09.R6", f"{mod.relpath}:{c.lineno} {q}", what, "inside __hash__ (dict/set lookups re-check with __eq__)")
                else:
                    res.fail("C09.R6", file=mod.relpath, line=c.lineno, qualname=q, construct=f"{norm(c, 50)} used as a key in {q}", message=f"{q} uses `{norm(c, 50)}` as an identity: two different values with the same hash share one entry (hash(-1) == hash(-2), hash(1) == hash(1.0)) and the value differs between processes, so the result of a render depends on more than its inputs", what=what)
    res.floor("C09.R6", "hash() calls", n_hash, 10)
    _set_order_rule(prog, res)
    res.rule("C09.R5", "Environment.__init__ creates its own filters/tags registries; registries are written only by registration functions on the environment being configured; stateful filter/tag objects are constructed inside the registration call")
    env = prog.cls("liquid2.environment.Environment")
    einit = env.methods.get("__init__")
    if einit is None:
        raise AnalysisError("Environment.__init__ vanished")
    for attr in ("filters", "tags"):
        vals = [n.value for n in ast.walk(einit.node) if isinstance(n, (ast.Assign, ast.AnnAssign)) and n.value is not None and is_self_attr(n.targets[0] if isinstance(n, ast.Assign) else n.target, attr)]
        what = f"Environment.{attr} is a fresh dict per instance"
        if len(vals) == 1 and isinstance(vals[0], ast.Dict) and not vals[0].keys:
            res.ok("C09.R5", f"{einit.file}:{einit.node.lineno} Environment.__init__", what, "= {}")
        else:
            res.fail("C09.R5", file=einit.file, line=einit.node.lineno, qualname="Environment.__init__", construct=f"self.{attr} = {norm(vals[0]) if vals else '<missing>'}", message=f"Environment.{attr} is not a fresh dict: environments share a registry", what=what)
    for attr in ("filters", "tags"):
        if attr in env.class_attrs:
            res.fail("C09.R5", file=env.file, line=env.node.lineno, qualname="Environment", construct=f"class attribute {attr}", message=f"Environment.{attr} is a class attribute shared by every environment", what=f"{attr} not class-level")
    filters, tags = prog.registries()
    n_reg = 0
    for regs in list(filters.values()) + list(tags.values()):
        for name, _target, val, mod in regs:
            n_reg += 1
            # value must be constructed in place (Call) or be a plain function: never a module-level *instance*
            if isinstance(val, ast.Name) and val.id in mod.globals_ and isinstance(mod.globals_[val.id], ast.Call):
                res.fail("C09.R5", file=mod.relpath, line=val.lineno, qualname="registration", construct=f"registry[{name!r}] = {val.id} (module-level instance)", message="a module-level filter/tag instance is registered: its state is shared by every environment", what="registered objects are per-environment")
    res.floor("C09.R5", "registrations", n_reg, 90)
    res.ok("C09.R5", "liquid2/builtin/__init__.py", "registered tags/filter objects are constructed inside the registration call", f"{n_reg} registrations")


_R7_EXEMPT = {
    "Template.variable_paths", "Template.variable_paths_async", "Template.variable_segments", "Template.variable_segments_async",
    "Template.global_variable_paths", "Template.global_variable_paths_async", "Template.global_variable_segments", "Template.global_variable_segments_async",
}  # analysis conveniences documented as "a list of distinct paths" (order unspecified); not a render


def _set_order_rule(prog: Program, res: Result) -> None:
    """C09.R7: the iteration order of a set/frozenset of strings changes from process to process (PYTHONHASHSEED)."""
    from sa.types import TypeApprox

    res.rule("C09.R7", "no order-sensitive consumption (for / comprehension / list() / tuple() / join / iter / unpacking) of a set- or frozenset-typed expression outside sorted(): set order depends on PYTHONHASHSEED, so anything built from it differs between two renders of the same inputs in different processes")
    T = TypeApprox(prog)
    order_free = {"sorted", "len", "any", "all", "sum", "min", "max", "set", "frozenset", "bool"}

    def consumers(fi: FunctionInfo):  # noqa: ANN202
        for n in ast.walk(fi.node):
            if isinstance(n, (ast.For, ast.AsyncFor)):
                yield n, n.iter, "for"
            elif isinstance(n, (ast.ListComp, ast.DictComp, ast.GeneratorExp)):
                for g in n.generators:
                    yield n, g.iter, "comprehension"
            elif isinstance(n, ast.Call) and isinstance(n.func, ast.Name) and n.func.id in ("list", "tuple", "iter", "next", "enumerate", "zip", "map", "filter", "reversed", "deque", "chain") and n.args:
                for a in n.args:
                    yield n, a, f"{n.func.id}()"
            elif isinstance(n, ast.Call) and isinstance(n.func, ast.Attribute) and n.func.attr in ("join", "extend", "from_iterable", "extendleft") and n.args:
                yield n, n.args[0], f".{n.func.attr}()"
            elif isinstance(n, ast.Starred):
                yield n, n.value, "unpacking"

    n_sites = n_exempt = 0
    for fi in sorted(prog.all_functions(), key=lambda f: (f.file, f.node.lineno)):
        if fi.parent_fn is not None:
            continue  # nested functions are walked with their parent
        for n, it, kind in consumers(fi):
            t = T.of(fi, it)
            if not t or not any(p.strip().split("[")[0].lower() in ("set", "frozenset", "abstractset", "keysview_of_set") for p in t.split("|")):
                continue
            # a generator/comprehension whose only consumer is an order-free reducer: any(... for x in S)
            par = fi.module.parent(n) if hasattr(fi.module, "parent") else None
            if isinstance(n, (ast.GeneratorExp, ast.ListComp)) and isinstance(par, ast.Call) and isinstance(par.func, ast.Name) and par.func.id in order_free:
                continue
            if isinstance(n, ast.SetComp):
                continue
            n_sites += 1
            what = f"{fi.qualname}: {kind} over `{norm(it, 50)}` ({t})"
            if fi.qualname in _R7_EXEMPT:
                n_exempt += 1
                res.ok("C09.R7", f"{fi.file}:{n.lineno} {fi.qualname}", what, "exempt: analysis convenience returning 'distinct' paths, order unspecified; not a render")
            else:
                res.fail("C09.R7", file=fi.file, line=n.lineno, qualname=fi.qualname, construct=f"{kind} over set-typed `{norm(it, 50)}`", message=f"{fi.qualname} consumes the set-typed `{norm(it, 50)}` in iteration order ({kind}): for strings that order changes with PYTHONHASHSEED, so the result differs between processes for the same inputs; wrap it in sorted()", what=what)
    res.floor("C09.R7", "set-ordered consumption sites recognised (the exempt analysis helpers)", n_exempt, 4)
    res.stats["set_order_sites"] = n_sites


def _owner(prog: Program, fam: dict[str, str], fi: FunctionInfo, tgt: ast.AST, stmt: ast.AST) -> tuple[str, bool, str] | None:
    """Classify the receiver of a write. None = local/per-render object (not an obligation)."""
    base = tgt
    path: list[str] = []
    while isinstance(base, (ast.Attribute, ast.Subscript)):
        if isinstance(base, ast.Attribute):
            path.append(base.attr)
        base = base.value
    if isinstance(base, ast.Call):
        return None
    if not isinstance(base, ast.Name):
        return None
    r = base.id
    path.reverse()
    top = fi
    while top.parent_fn is not None:
        top = top.parent_fn
    in_ctor = top.name in ("__init__", "__new__", "__post_init__")
    # ---- class attributes
    if r == "cls" or (r == "self" and path[:1] == ["__class__"]) or (r[:1].isupper() and isinstance(prog.resolve(fi.module, r), ClassInfo) and isinstance(tgt, ast.Attribute)):
        return ("a class attribute", False, "class-level state")
    # ---- self of a shared class
    if r == "self" and top.cls is not None:
        label = fam.get(top.cls.full)
        if label is None:
            for c in prog.mro(top.cls):
                if c.full in fam:
                    label = fam[c.full]
                    break
        if label is None:
            return None  # per-call / per-render class (RenderContext, Lexer, ForLoop, buffers, LRUCache …)
        if in_ctor:
            return None
        if top.name in REGISTRATION_FUNCS and path[:1] in (["filters"], ["tags"]):
            return (f"the {label}'s registry", True, "registration function configuring its own environment")
        if label == "loader" and path[:1] == ["cache"]:
            return ("the loader cache", True, "the cache itself: the one sanctioned shared store (transparency is C14)")
        return (f"a shared {label} instance ({top.cls.name})", False, f"{top.cls.name}.{top.name} writes its own attribute `{'.'.join(path[:1])}` after construction")
    # ---- registries through a parameter
    if path[:1] in (["filters"], ["tags"]):
        if top.name in REGISTRATION_FUNCS or top.name.startswith("register_"):
            return ("an environment registry", True, "registration function")
        return ("an environment registry", False, f"{top.qualname} rewrites the tag/filter registry at run time")
    # ---- exceptions
    if r in ("err", "exc", "e", "error") and path[:1] and path[0] in ("token", "template_name"):
        return None
    # ---- locals holding shared objects
    shared_path = [p for p in path[:-1] if p in ("env", "template", "loader", "parser")] if isinstance(tgt, ast.Attribute) else [p for p in path if p in ("env", "template", "loader", "parser")]
    ann = _annotation(fi, r)
    looks_shared = r in ("template", "cached_template", "env", "environment", "loader", "parent", "partial") or any(t in ann for t in ("Template", "Environment", "BaseLoader"))
    if shared_path:
        return (f"`{r}.{'.'.join(path[: path.index(shared_path[0]) + 1])}`", False, "write through a context to its shared environment/template")
    if looks_shared and isinstance(tgt, (ast.Attribute, ast.Subscript)) and path:
        # owned if created in this function
        created = False
        for n in ast.walk(fi.node):
            if isinstance(n, ast.Assign) and any(isinstance(t, ast.Name) and t.id == r for t in n.targets):
                v = n.value.value if isinstance(n.value, ast.Await) else n.value
                if isinstance(v, ast.Call):
                    callee = v.func.attr if isinstance(v.func, ast.Attribute) else (v.func.id if isinstance(v.func, ast.Name) else "")
                    if callee in ("from_string", "template_class", "Template") or callee[:1].isupper():
                        created = True
                    else:
                        created = False
                        break
                else:
                    created = False
                    break
        if created:
            return None
        return (f"`{r}` (a shared {ann or 'Template/Environment'} object)", False, f"`{r}` was obtained from a cache/registry/parameter, not created here")
    return None


def _annotation(fi: FunctionInfo, name: str) -> str:
    a = fi.node.args
    for p in a.posonlyargs + a.args + a.kwonlyargs:
        if p.arg == name and p.annotation is not None:
            return norm(p.annotation)
    for n in ast.walk(fi.node):
        if isinstance(n, ast.AnnAssign) and isinstance(n.target, ast.Name) and n.target.id == name:
            return norm(n.annotation)
    return ""
