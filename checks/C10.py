"""C10 - caller data is read-only to templates; lookup precedence holds (ownership + ordering)."""

from __future__ import annotations

import ast

from sa.report import AnalysisError
from sa.report import Result
from sa.report import norm
from sa.srcmodel import FunctionInfo
from sa.srcmodel import Program
from sa.srcmodel import dotted
from sa.srcmodel import root_name
from sa.util import is_self_attr

from checks.C05 import _data_plane_functions
from checks.C09 import MUTATORS
from checks.C09 import _stores

META = {
    "technique": "ownership analysis (owned / may-alias-input) of every in-place mutation receiver in the data plane, with "
    "call-site summaries for private helpers; ordering extraction of the whole eight-layer lookup chain from the "
    "ReadOnlyChainMap constructions and its lookup loop",
    "level_text": "Decides (a) that no filter, tag, expression or context method mutates in place a value that may alias "
    "caller data: every receiver of append/sort/update/…, subscript store, del or augmented store is a container created "
    "in that function (literal, comprehension, copying constructor) or a field of a per-render object; and (b) that the "
    "chain of namespaces consulted by a lookup, read off the constructor calls and the lookup loop, is exactly block "
    "scopes > locals > render args > matter > template globals > environment globals > built-ins > counters. "
    "Deep equality as behaviour and mutation inside user drops are not decided.",
    "level_note": "Trusts the table of copying constructors and of per-render objects printed in the evidence. "
    "Third-party code handed caller data (json.dumps, babel) is assumed not to mutate it.",
}
META["technique"] += '; scope-stack ownership and push/pop pairing (shared with C07)'
META["technique"] += "; hand-through of the loader's matter mapping (BaseLoader.load, ChoiceLoader pass-through)"
META["technique"] += '; unconditional binding of assign / capture'
META["level_text"] += ' Also decided (R4): the order cannot be disturbed at run time - block scopes are pushed/popped only by RenderContext.extend, in try/finally.'

COPYING_CALLS = {"list", "dict", "set", "tuple", "sorted", "frozenset", "deque", "defaultdict", "OrderedDict", "bytearray", "deepcopy", "copy", "reversed", "str", "bytes", "int", "float", "Decimal", "chain", "islice", "zip", "enumerate", "map", "filter", "iter", "range", "partial"}
COPYING_METHODS = {"copy", "split", "rsplit", "splitlines", "partition", "rpartition", "items", "keys", "values", "lower", "upper", "strip", "lstrip", "rstrip", "replace", "join", "format", "encode", "decode", "findall", "children", "expressions"}
PER_RENDER_ROOTS = {"context", "ctx", "static_context", "macro_context", "render_context"}
EXC_NAMES = {"err", "exc", "e", "error"}


SCALAR_RETURNING: set[str] = set()


def _owned_expr(e: ast.AST, owned: set[str]) -> bool:
    if isinstance(e, ast.Call):
        nm = e.func.attr if isinstance(e.func, ast.Attribute) else (e.func.id if isinstance(e.func, ast.Name) else None)
        if nm in SCALAR_RETURNING:
            return True  # every definition of this name returns an immutable scalar
    if isinstance(e, ast.Await):
        return _owned_expr(e.value, owned)
    if isinstance(e, (ast.List, ast.Dict, ast.Set, ast.ListComp, ast.DictComp, ast.SetComp, ast.Constant, ast.JoinedStr, ast.Tuple)):
        return True
    if isinstance(e, ast.Name):
        return e.id in owned
    if isinstance(e, ast.IfExp):
        return _owned_expr(e.body, owned) and _owned_expr(e.orelse, owned)
    if isinstance(e, ast.BoolOp):
        return all(_owned_expr(v, owned) for v in e.values)
    if isinstance(e, ast.BinOp):
        return True  # a new object (list + list, dict | dict, arithmetic)
    if isinstance(e, ast.Call):
        f = e.func
        if isinstance(f, ast.Name) and (f.id in COPYING_CALLS or f.id[:1].isupper()):
            return True
        if isinstance(f, ast.Attribute) and f.attr in COPYING_METHODS:
            return True
        if isinstance(f, ast.Attribute) and f.attr in ("get", "setdefault", "pop") and _per_render_path(f.value):
            return True
        return False
    if isinstance(e, ast.Subscript) or isinstance(e, ast.Attribute):
        return _per_render_path(e)
    return False


def _per_render_path(e: ast.AST) -> bool:
    """self.tag_namespace[...], context.tag_namespace[...], self.locals, self.counters, self.loops …"""
    path = []
    b = e
    while isinstance(b, (ast.Attribute, ast.Subscript)):
        if isinstance(b, ast.Attribute):
            path.append(b.attr)
        b = b.value
    if not isinstance(b, ast.Name):
        return False
    path.reverse()
    if b.id in PER_RENDER_ROOTS or b.id == "self":
        return bool(path) and path[0] in ("tag_namespace", "locals", "counters", "loops", "scope")
    return False


def _owned_vars(fi: FunctionInfo) -> set[str]:
    """Names every binding of which (in this function) is an owning expression. Fixpoint."""
    binds: dict[str, list[ast.AST | None]] = {}
    a = fi.node.args
    for p in a.posonlyargs + a.args + a.kwonlyargs:
        binds.setdefault(p.arg, []).append(None)  # parameter: not owned
    star = set()
    if a.vararg:
        star.add(a.vararg.arg)
    if a.kwarg:
        star.add(a.kwarg.arg)  # **kwargs is a fresh dict per call
    for n in ast.walk(fi.node):
        if isinstance(n, ast.Assign):
            for t in n.targets:
                if isinstance(t, ast.Name):
                    binds.setdefault(t.id, []).append(n.value)
                elif isinstance(t, (ast.Tuple, ast.List)):
                    for x in ast.walk(t):
                        if isinstance(x, ast.Name):
                            binds.setdefault(x.id, []).append(None)
        elif isinstance(n, ast.AnnAssign) and isinstance(n.target, ast.Name) and n.value is not None:
            binds.setdefault(n.target.id, []).append(n.value)
        elif isinstance(n, ast.AugAssign) and isinstance(n.target, ast.Name):
            pass  # in-place on a name: judged at the mutation site
        elif isinstance(n, ast.NamedExpr):
            binds.setdefault(n.target.id, []).append(n.value)
        elif isinstance(n, (ast.For, ast.AsyncFor, ast.comprehension)):
            for x in ast.walk(n.target):
                if isinstance(x, ast.Name):
                    binds.setdefault(x.id, []).append(None)
        elif isinstance(n, (ast.With, ast.AsyncWith)):
            for i in n.items:
                if i.optional_vars is not None:
                    for x in ast.walk(i.optional_vars):
                        if isinstance(x, ast.Name):
                            binds.setdefault(x.id, []).append(None)
        elif isinstance(n, ast.ExceptHandler) and n.name:
            binds.setdefault(n.name, []).append(None)
    owned: set[str] = set(star)
    changed = True
    while changed:
        changed = False
        for name, vals in binds.items():
            if name in owned:
                continue
            if vals and all(v is not None and _owned_expr(v, owned) for v in vals):
                owned.add(name)
                changed = True
    return owned


def run(prog: Program, res: Result) -> None:  # noqa: PLR0912, PLR0915
    res.explanation = (
        "R1: for every store/delete/in-place mutator in a data-plane function (registered filters and their helpers, "
        "value-semantics helpers, RenderContext/Template methods, every Node/Expression method) the receiver must be an "
        "owned local, the function's own **kwargs, an exception object, or a field of a per-render object. R2/R3: the "
        "ReadOnlyChainMap constructions in RenderContext.__init__, Template.make_globals, RenderContext.copy and the dict "
        "merge in Environment.make_globals are read as orderings and concatenated into the full precedence chain."
    )
    res.not_decided += ["deep equality of caller data as behaviour", "mutation performed by user drops or third-party libraries on values passed to them"]
    res.trusted_base += ["copying constructors: " + ", ".join(sorted(COPYING_CALLS)), "per-render roots: tag_namespace, locals, counters, loops, scope"]

    by_name: dict[str, list[bool]] = {}
    for f in prog.all_functions():
        r = f.node.returns
        by_name.setdefault(f.name, []).append(r is not None and norm(r) in ("int", "str", "bool", "float", "None", "int | None", "str | None"))
    SCALAR_RETURNING.clear()
    SCALAR_RETURNING.update(n for n, v in by_name.items() if v and all(v))
    dp = {fid: f for fid, (f, _k) in _data_plane_functions(prog).items()}
    for base in ("liquid2.ast.Node", "liquid2.expression.Expression"):
        for ci in prog.subclasses(base):
            for m in ci.methods.values():
                dp.setdefault(m.fid, m)
    for cname in ("liquid2.context.RenderContext", "liquid2.template.Template", "liquid2.context.BuiltIn"):
        for m in prog.cls(cname).methods.values():
            dp.setdefault(m.fid, m)
    # nested functions of data-plane functions
    for f in list(prog.all_functions()):
        p = f.parent_fn
        while p is not None:
            if p.fid in dp:
                dp.setdefault(f.fid, f)
            p = p.parent_fn
    res.floor("C10.R1", "data-plane functions", len(dp), 400)

    # ------------------------------------------------------------------ R1 ownership
    res.rule("C10.R1", "every in-place mutation in the data plane has an owned receiver (created in that function) or a per-render object; never a value that may alias caller data")
    n_mut = 0
    owned_cache: dict[str, set[str]] = {}
    for mod in prog.modules.values():
        for stmt, tgt, kind in _stores(mod):
            fi = prog.enclosing_function(mod, stmt)
            if fi is None or fi.fid not in dp:
                continue
            r = root_name(tgt)
            if r is None:
                continue
            if kind == "mutate" and isinstance(stmt, ast.Call) and isinstance(stmt.func, ast.Attribute) and stmt.func.attr in ("extend", "pop", "update", "copy", "clear") and isinstance(tgt, ast.Name) and tgt.id in PER_RENDER_ROOTS:  # type: ignore[union-attr]
                continue  # RenderContext.extend()/copy(): methods of the context, not container mutators
            if r in EXC_NAMES:
                continue
            n_mut += 1
            res.analysed_functions.add(fi.fid)
            site = f"{mod.relpath}:{stmt.lineno} {fi.qualname}"
            what = f"`{norm(stmt, 60)}` mutates an owned / per-render object"
            # receiver expression actually mutated: for `x[k] = v` it is x; for x.m() it is x
            recv = tgt.value if (kind == "store" and isinstance(tgt, ast.Subscript)) else tgt
            if kind == "store" and isinstance(tgt, ast.Attribute):
                recv = tgt.value
            why = _receiver_owned(prog, fi, recv, owned_cache)
            if why:
                res.ok("C10.R1", site, what, why)
            else:
                res.fail(
                    "C10.R1",
                    file=mod.relpath,
                    line=stmt.lineno,
                    qualname=fi.qualname,
                    construct=f"{kind} on {norm(recv, 50)}: {norm(stmt, 70)}",
                    message=f"`{norm(recv, 50)}` may alias caller-supplied data (parameter / evaluated value / element of one) and is mutated in place by `{norm(stmt, 70)}`",
                    what=what,
                )
    # `x += y` on a bare name is an in-place extend when x is a list/set/dict the function does not own
    for fid, fi in sorted(dp.items()):
        for n in ast.walk(fi.node):
            if isinstance(n, ast.AugAssign) and isinstance(n.target, ast.Name) and isinstance(n.op, (ast.Add, ast.BitOr, ast.BitAnd, ast.Sub, ast.Mult)):
                if prog.enclosing_function(fi.module, n) is not fi:
                    continue
                r = n.target.id
                owned = owned_cache.setdefault(fi.fid, _owned_vars(fi))
                if r in owned:
                    continue
                ann = ""
                for p_ in fi.node.args.posonlyargs + fi.node.args.args + fi.node.args.kwonlyargs:
                    if p_.arg == r and p_.annotation is not None:
                        ann = norm(p_.annotation)
                immutable = ann in ("int", "float", "str", "bool", "Decimal", "int | float", "float | int") or isinstance(n.value, ast.Constant) and isinstance(n.value.value, (int, float, str))
                n_mut += 1
                site = f"{fi.file}:{n.lineno} {fi.qualname}"
                what = f"`{norm(n, 60)}` does not extend a caller-owned container in place"
                if immutable:
                    res.ok("C10.R1", site, what, f"`{r}` is an immutable scalar ({ann or 'constant operand'})")
                else:
                    res.fail("C10.R1", file=fi.file, line=n.lineno, qualname=fi.qualname, construct=f"augmented assignment on {r}: {norm(n, 70)}", message=f"`{norm(n, 70)}`: `{r}` is not created in this function; if it is a list/set/dict this extends the caller's object in place", what=what)
    res.floor("C10.R1", "mutation sites examined", n_mut, 60)
    # aliasing returns: sequence coercion helpers must copy (filters sort/reverse what they return)
    # in-place methods by name on data variables in expressions (x.sort() as an expression statement is covered; sorted(x) is fine)

    # ------------------------------------------------------------------ R2 precedence
    res.rule("C10.R2", "the namespace chain read off the code is block scopes > locals > render args > matter (overlay) > template globals > environment globals > built-ins > counters")
    cm = prog.cls("liquid2.utils.chainmap.ReadOnlyChainMap")
    gi = cm.methods.get("__getitem__")
    if gi is None:
        raise AnalysisError("ReadOnlyChainMap.__getitem__ vanished")
    # lookup iterates self._maps front to back and returns the first hit
    loops = [n for n in ast.walk(gi.node) if isinstance(n, ast.For)]
    what = "ReadOnlyChainMap.__getitem__ returns the first hit scanning _maps front to back"
    ok = len(loops) == 1 and norm(loops[0].iter) == "self._maps" and any(isinstance(x, ast.Return) and norm(x.value) == f"{norm(loops[0].target)}[key]" for x in ast.walk(loops[0])) and isinstance(gi.node.body[-1], ast.Raise)
    if ok:
        res.ok("C10.R2", f"{cm.file}:{gi.node.lineno} ReadOnlyChainMap.__getitem__", what, "for mapping in self._maps: return mapping[key] (KeyError -> next)")
    else:
        res.fail("C10.R2", file=cm.file, line=gi.node.lineno, qualname="ReadOnlyChainMap.__getitem__", construct="lookup loop shape", message="chain-map lookup no longer returns the first hit scanning front to back", what=what)
    for name, op in (("push", "appendleft"), ("pop", "popleft")):
        m = cm.methods.get(name)
        what = f"ReadOnlyChainMap.{name} uses {op} (front of the chain)"
        if m is not None and any(isinstance(c, ast.Call) and isinstance(c.func, ast.Attribute) and c.func.attr == op and is_self_attr(c.func.value, "_maps") for c in ast.walk(m.node)):
            res.ok("C10.R2", f"{cm.file}:{m.node.lineno} ReadOnlyChainMap.{name}", what, f"self._maps.{op}")
        else:
            res.fail("C10.R2", file=cm.file, line=m.node.lineno if m else 0, qualname=f"ReadOnlyChainMap.{name}", construct=f"{name} does not use {op}", message=f"pushed block scopes are not at the front of the chain ({name} must use {op})", what=what)
    init = cm.methods.get("__init__")
    what = "ReadOnlyChainMap(*maps) keeps constructor order"
    if init is not None and any(isinstance(n, ast.Assign) and is_self_attr(n.targets[0], "_maps") and norm(n.value) == "deque(maps)" for n in ast.walk(init.node)):
        res.ok("C10.R2", f"{cm.file}:{init.node.lineno} ReadOnlyChainMap.__init__", what, "self._maps = deque(maps)")
    else:
        res.fail("C10.R2", file=cm.file, line=init.node.lineno if init else 0, qualname="ReadOnlyChainMap.__init__", construct="_maps construction", message="constructor order of the chain is not preserved", what=what)

    def chain_args(fi: FunctionInfo, attr: str | None) -> list[str] | None:
        for n in ast.walk(fi.node):
            v = None
            if attr is None and isinstance(n, ast.Return):
                v = n.value
            elif attr is not None and isinstance(n, (ast.Assign, ast.AnnAssign)):
                t = n.targets[0] if isinstance(n, ast.Assign) else n.target
                if is_self_attr(t, attr):
                    v = n.value
            if isinstance(v, ast.Call) and (dotted(v.func) or "") == "ReadOnlyChainMap":
                return [norm(a) for a in v.args]
        return None

    ctx = prog.cls("liquid2.context.RenderContext")
    cinit = ctx.methods["__init__"]
    scope = chain_args(cinit, "scope")
    what = "RenderContext.scope = ReadOnlyChainMap(locals, globals, builtin, counters)"
    if scope == ["self.locals", "self.globals", "builtin", "self.counters"]:
        res.ok("C10.R2", f"{cinit.file}:{cinit.node.lineno} RenderContext.__init__", what, " > ".join(scope))
    else:
        res.fail("C10.R2", file=cinit.file, line=cinit.node.lineno, qualname="RenderContext.__init__", construct=f"scope chain {scope}", message=f"lookup chain of a render context is {scope}, expected locals > globals > built-ins > counters", what=what)
    # self.globals comes from the global_data parameter
    gl = [n.value for n in ast.walk(cinit.node) if isinstance(n, ast.Assign) and is_self_attr(n.targets[0], "globals")]
    what = "RenderContext.globals is the global_data argument"
    if len(gl) == 1 and _param_or_empty_default(gl[0], "global_data"):
        res.ok("C10.R2", f"{cinit.file}:{cinit.node.lineno} RenderContext.__init__", what, norm(gl[0]))
    else:
        res.fail("C10.R2", file=cinit.file, line=cinit.node.lineno, qualname="RenderContext.__init__", construct=f"self.globals = {norm(gl[0]) if gl else '<missing>'}", message="context globals are not the global_data passed by the template", what=what)
    bi = cinit.module.globals_.get("builtin")
    what = "`builtin` is the BuiltIn() mapping (now/today)"
    if bi is not None and norm(bi) == "BuiltIn()":
        res.ok("C10.R2", f"{cinit.file}:1 context", what, "builtin = BuiltIn()")
    else:
        res.fail("C10.R2", file=cinit.file, line=1, qualname="<module>", construct=f"builtin = {norm(bi) if bi is not None else '<missing>'}", message="built-in namespace replaced", what=what)
    tmpl = prog.cls("liquid2.template.Template")
    mg = tmpl.methods.get("make_globals")
    if mg is None:
        raise AnalysisError("Template.make_globals vanished")
    tg = chain_args(mg, None)
    what = "Template.make_globals = ReadOnlyChainMap(render_args, overlay_data, global_data)"
    if tg == ["render_args", "self.overlay_data", "self.global_data"]:
        res.ok("C10.R2", f"{mg.file}:{mg.node.lineno} Template.make_globals", what, " > ".join(tg))
    else:
        res.fail("C10.R2", file=mg.file, line=mg.node.lineno, qualname="Template.make_globals", construct=f"globals chain {tg}", message=f"template globals chain is {tg}, expected render args > matter > template globals", what=what)
    env = prog.cls("liquid2.environment.Environment")
    emg = env.methods.get("make_globals")
    if emg is None:
        raise AnalysisError("Environment.make_globals vanished")
    rets = [r.value for r in ast.walk(emg.node) if isinstance(r, ast.Return) and r.value is not None]
    what = "Environment.make_globals merges {**self.globals, **globals} (template globals win) into a new dict"
    merged = [r for r in rets if isinstance(r, ast.Dict) and all(k is None for k in r.keys)]
    ok = len(merged) == 1 and [norm(v) for v in merged[0].values] == ["self.globals", "globals"] and all(isinstance(r, ast.Dict) or norm(r) == "dict(self.globals)" for r in rets)
    if ok:
        res.ok("C10.R2", f"{emg.file}:{emg.node.lineno} Environment.make_globals", what, "later keys win; both returns build a new dict")
    else:
        res.fail("C10.R2", file=emg.file, line=emg.node.lineno, qualname="Environment.make_globals", construct=f"returns {[norm(r) for r in rets]}", message="environment/template globals are not merged with template globals taking priority into a fresh dict", what=what)
    from checks.shared import check_globals_merged

    check_globals_merged(prog, res, "C10.R2")

    # BaseLoader.load passes overlay_data=matter
    for name in ("load", "load_async"):
        m = prog.cls("liquid2.loader.BaseLoader").methods.get(name)
        what = f"BaseLoader.{name} passes globals=globals and overlay_data=matter"
        txt = norm(m.node, 5000) if m else ""
        if "globals=globals" in txt and "overlay_data=matter" in txt:
            res.ok("C10.R2", f"{m.file}:{m.node.lineno} BaseLoader.{name}", what, "matter layered between render args and template globals")
        else:
            res.fail("C10.R2", file="liquid2/loader.py", line=m.node.lineno if m else 0, qualname=f"BaseLoader.{name}", construct=f"{name} from_string arguments", message="loader matter / globals are not handed to the template in their layers", what=what)
    # block scopes: extend pushes to the front (checked above); copy(): namespace first
    cp = ctx.methods["copy"]
    for c in ast.walk(cp.node):
        if isinstance(c, ast.Call) and (dotted(c.func) or "") == "ReadOnlyChainMap":
            a = [norm(x) for x in c.args]
            what = f"copy(): ReadOnlyChainMap({', '.join(a)}) puts the namespace first"
            if a and a[0] == "namespace" and len(a) == 2 and a[1] in ("self.globals", "self.base_globals", "self.scope"):
                res.ok("C10.R2", f"{cp.file}:{c.lineno} RenderContext.copy", what, "arguments shadow what the child inherits")
            else:
                res.fail("C10.R2", file=cp.file, line=c.lineno, qualname="RenderContext.copy", construct=f"ReadOnlyChainMap({', '.join(a)})", message="in a copied context the passed namespace does not take priority", what=what)
    # get()/resolve() go through self.scope
    for name in ("get", "get_async", "resolve"):
        m = ctx.methods.get(name)
        what = f"RenderContext.{name} resolves the root name through self.scope"
        if m is not None and any(isinstance(s, ast.Subscript) and is_self_attr(s.value, "scope") for s in ast.walk(m.node)):
            res.ok("C10.R2", f"{m.file}:{m.node.lineno} RenderContext.{name}", what, "self.scope[...]")
        else:
            res.fail("C10.R2", file=ctx.file, line=m.node.lineno if m else 0, qualname=f"RenderContext.{name}", construct=f"{name} lookup", message="variable lookup bypasses the scope chain", what=what)

    # ------------------------------------------------------------------ R3 wrappers
    res.rule("C10.R3", "caller mappings are wrapped, never adopted for writing: render() builds dict(*args, **kwargs); assign writes only self.locals; counters only self.counters")
    for name in ("render", "render_async"):
        m = tmpl.methods[name]
        what = f"Template.{name} copies its arguments into a new dict"
        if "dict(*args, **kwargs)" in norm(m.node, 3000):
            res.ok("C10.R3", f"{m.file}:{m.node.lineno} Template.{name}", what, "dict(*args, **kwargs)")
        else:
            res.fail("C10.R3", file=m.file, line=m.node.lineno, qualname=f"Template.{name}", construct="render arguments not copied", message="render adopts the caller's mapping instead of copying it", what=what)
    for name, field in (("assign", "locals"), ("increment", "counters"), ("decrement", "counters")):
        m = ctx.methods.get(name)
        if m is None:
            raise AnalysisError(f"RenderContext.{name} vanished")
        stores = [s for s in ast.walk(m.node) if isinstance(s, ast.Subscript) and isinstance(s.ctx, ast.Store)]
        what = f"RenderContext.{name} writes only self.{field}"
        if stores and all(is_self_attr(s.value, field) for s in stores):
            res.ok("C10.R3", f"{m.file}:{m.node.lineno} RenderContext.{name}", what, f"self.{field}[...] = …")
        else:
            res.fail("C10.R3", file=m.file, line=m.node.lineno, qualname=f"RenderContext.{name}", construct=f"{name} stores {[norm(s) for s in stores]}", message=f"{name} writes somewhere other than self.{field} (could be the caller's globals)", what=what)
    # locals/counters are fresh dicts (not the caller's) - also C09.R3
    for field in ("locals", "counters"):
        vals = [n.value for n in ast.walk(cinit.node) if isinstance(n, (ast.Assign, ast.AnnAssign)) and n.value is not None and is_self_attr(n.targets[0] if isinstance(n, ast.Assign) else n.target, field)]
        what = f"RenderContext.{field} is a fresh dict"
        if len(vals) == 1 and isinstance(vals[0], ast.Dict) and not vals[0].keys:
            res.ok("C10.R3", f"{cinit.file}:{cinit.node.lineno} RenderContext.__init__", what, "= {}")
        else:
            res.fail("C10.R3", file=cinit.file, line=cinit.node.lineno, qualname="RenderContext.__init__", construct=f"self.{field} = {norm(vals[0]) if vals else '<missing>'}", message=f"template {field} are stored in a mapping that is not a fresh dict", what=what)


    # ------------------------------------------------------------------ R4 the chain changes only through the context managers
    res.rule("C10.R4", "the precedence order of R2 is the order at run time: block scopes are pushed and popped only by RenderContext.extend (try/finally), never by hand, so no stale block scope stays in front of locals/globals (shared with C07.R2/R1)")
    from checks.shared import check_context_manager_pairing
    from checks.shared import check_scope_stack_ownership

    check_scope_stack_ownership(prog, res, "C10.R4")
    check_context_manager_pairing(prog, res, "C10.R4")

    # ------------------------------------------------------------------ R5 a tag's arguments are resolved in the caller's scope
    res.rule("C10.R5", "a name in a tag's own argument list resolves in the scope the tag was written in: no argument expression is evaluated inside the `with context.extend/loop(…)` block that pushes the tag's bindings (a keyword argument would otherwise shadow the caller's variable inside the same argument list; shared with C07.R10)")
    from checks.shared import check_arguments_before_bindings

    check_arguments_before_bindings(prog, res, "C10.R5")
    res.rule("C10.R6", "the template-globals layer of the lookup order is the current caller's: on a cache hit the cached template's global_data is rebound, on every path, from the caller's globals alone (no fallback to what the cached object already holds) - otherwise a name resolves to an earlier caller's template global instead of falling through to the built-ins, a counter or undefined (shared with C14.R2 / C09.R2b)")
    from checks.shared import check_cache_hit_rebinds

    check_cache_hit_rebinds(prog, res, "C10.R6")
    res.rule("C10.R7", "a name is bound and looked up under the spelling the template uses: no Unicode normalisation or case folding of identifiers anywhere in liquid2 (assign/capture/for targets go through parse_identifier, lookups read the path token as written - normalising one side makes a local binding invisible and the caller's data of that name is read instead)")
    from checks.shared import check_no_text_normalisation

    check_no_text_normalisation(prog, res, "C10.R7")
    res.rule("C10.R8", "the loader's matter mapping reaches the template as it was returned, and reaches it at all: BaseLoader.load[_async] passes `matter` from get_source() to from_string(overlay_data=…) without rewriting it or handing it to a helper (it is the caller's dict, held by reference), and ChoiceLoader.get_source[_async] returns the delegate's TemplateSource itself (a rebuilt tuple drops the matter layer of the lookup precedence)")
    from checks.shared import check_choice_loader_passthrough
    from checks.shared import check_load_hands_through

    check_load_hands_through(prog, res, "C10.R8", "matter")
    check_choice_loader_passthrough(prog, res, "C10.R8")
    res.rule("C10.R9", "a tag that binds a template-local name binds it every time it runs: in the render methods of every Node that declares a template_scope() (assign, capture) the `context.assign(…)` call is unconditional and is the method's only way out besides an error - an empty capture still creates its (empty) local, which shadows the render argument, matter or global of the same name")
    n9 = 0
    nb9 = prog.cls("liquid2.ast.Node")
    for ci9 in sorted(prog.subclasses("liquid2.ast.Node"), key=lambda c: (c.file, c.node.lineno)):
        if "template_scope" not in ci9.methods:
            continue
        for nm9 in ("render_to_output", "render_to_output_async"):
            m9 = ci9.methods.get(nm9)
            if m9 is None:
                continue
            assigns9 = [c for c in ast.walk(m9.node) if isinstance(c, ast.Call) and isinstance(c.func, ast.Attribute) and c.func.attr == "assign" and norm(c.func.value) == "context"]
            if not assigns9:
                continue  # counters and macros bind through other stores (their own rules)
            n9 += 1
            site = f"{ci9.file}:{m9.node.lineno} {ci9.name}.{nm9}"
            what = f"{ci9.name}.{nm9}: context.assign() runs on every path"
            cond = [c for c in assigns9 if any(isinstance(a, (ast.If, ast.IfExp, ast.For, ast.While, ast.Try)) for a in m9.module.ancestors(c) if a is not m9.node and not isinstance(a, (ast.FunctionDef, ast.AsyncFunctionDef)))]
            early = [r for r in ast.walk(m9.node) if isinstance(r, ast.Return) and r.lineno < min(c.lineno for c in assigns9)]
            if cond or early:
                bad = (cond or early)[0]
                res.fail("C10.R9", file=ci9.file, line=bad.lineno, qualname=f"{ci9.name}.{nm9}", construct=f"{ci9.name}.{nm9}: the binding is conditional", message=f"{ci9.name}.{nm9} reaches `{norm(assigns9[0], 50)}` only on some paths ({'under a condition' if cond else 'a return comes first'}): when the tag runs without binding, `{{{{ name }}}}` resolves to the render argument, matter, global or stale local of the same name instead of the tag's (possibly empty) value", what=what)
            else:
                res.ok("C10.R9", site, what, "unconditional, nothing returns before it")
    res.floor("C10.R9", "binding render methods", n9, 4)


def _param_or_empty_default(e: ast.AST, param: str) -> bool:
    """`param`, `param or {}`, `param if <test on param> else {}` (and the mirrored IfExp): the parameter itself whenever one was passed."""

    def empty(x: ast.AST) -> bool:
        return (isinstance(x, ast.Dict) and not x.keys) or (isinstance(x, ast.Call) and isinstance(x.func, ast.Name) and x.func.id == "dict" and not x.args and not x.keywords)

    def is_p(x: ast.AST) -> bool:
        return isinstance(x, ast.Name) and x.id == param

    if is_p(e):
        return True
    if isinstance(e, ast.BoolOp) and isinstance(e.op, ast.Or) and len(e.values) == 2 and is_p(e.values[0]) and empty(e.values[1]):
        return True
    if isinstance(e, ast.IfExp):
        names = {n.id for n in ast.walk(e.test) if isinstance(n, ast.Name)}
        if names == {param} and ((is_p(e.body) and empty(e.orelse)) or (is_p(e.orelse) and empty(e.body))):
            return True
    return False


def _receiver_owned(prog: Program, fi: FunctionInfo, recv: ast.AST, cache: dict[str, set[str]]) -> str | None:
    if _per_render_path(recv):
        return "field of a per-render object"
    if isinstance(recv, ast.Name):
        r = recv.id
        if r == "self":
            return "the object's own attribute (shared-object writes are C09.R2)"
        if r in PER_RENDER_ROOTS:
            return "the render context"
        owned = cache.setdefault(fi.fid, _owned_vars(fi))
        if r in owned:
            return f"`{r}` is created in this function (literal / comprehension / copying constructor / **kwargs)"
        # closure variable of an enclosing data-plane function
        p = fi.parent_fn
        while p is not None:
            if r in cache.setdefault(p.fid, _owned_vars(p)) and r not in fi.params():
                return f"`{r}` is created in the enclosing function {p.qualname}"
            p = p.parent_fn
        # a function object being decorated (parameter annotated Callable), not template data
        for p_ in fi.node.args.posonlyargs + fi.node.args.args:
            if p_.arg == r and p_.annotation is not None and norm(p_.annotation).startswith(("Callable", "typing.Callable")):
                return f"`{r}` is a callable being decorated at import time"
        # private helper parameter: every call site passes an owned value
        if r in fi.params() and fi.name.startswith(("_", "resolve_")) and not fi.name.startswith("__"):
            params = [x for x in fi.params() if x not in ("self", "cls")]
            idx = params.index(r)
            sites = good = 0
            for other in prog.all_functions():
                if other.module is not fi.module:
                    continue
                for c in ast.walk(other.node):
                    if isinstance(c, ast.Call) and ((isinstance(c.func, ast.Attribute) and c.func.attr == fi.name) or (isinstance(c.func, ast.Name) and c.func.id == fi.name)):
                        sites += 1
                        arg = c.args[idx] if idx < len(c.args) else next((k.value for k in c.keywords if k.arg == r), None)
                        if arg is not None and _owned_expr(arg, cache.setdefault(other.fid, _owned_vars(other))):
                            good += 1
            if sites and sites == good:
                return f"parameter `{r}`: all {sites} call sites pass a container they created"
        return None
    if isinstance(recv, ast.Attribute) and isinstance(recv.value, ast.Name) and recv.value.id == "self":
        return "the object's own attribute (shared-object writes are C09.R2)"
    if isinstance(recv, ast.Attribute) and root_name(recv) in PER_RENDER_ROOTS | {"self"}:
        return "attribute of a per-render / engine object"
    if isinstance(recv, ast.Attribute) and isinstance(recv.value, ast.Name) and recv.value.id.startswith("_filter"):
        return "decorator marking its own function object"
    return None
