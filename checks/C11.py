"""C11 - static analysis over-approximates run-time usage (traversal agreement)."""

from __future__ import annotations

import ast

from sa import traversal as T
from sa import twins
from sa.report import AnalysisError
from sa.report import Result
from sa.report import norm
from sa.srcmodel import ClassInfo
from sa.srcmodel import FunctionInfo
from sa.srcmodel import Program
from sa.srcmodel import dotted
from sa.util import is_self_attr

META = {
    "technique": "traversal agreement: for every Expression/Node class the attributes its evaluate/render methods use must be "
    "contributed as elements by children()/expressions(); symbolic scope agreement between block_scope/template_scope and "
    "the names bound at run time; extractor/attribute agreement for filter lists; twin agreement of the analyser",
    "level_text": "Decides the hand-maintained correspondence soundness rests on: no Expression class evaluates a child its "
    "children() does not yield (as an element - delegating to the child's own children is not enough); no Node class "
    "evaluates an expression or renders a block that expressions()/children() omit; a name removed from a block "
    "namespace before it is pushed is not declared in block_scope; template_scope names are the ones assign/"
    "increment bind; the filter extractor reads every list[Filter] attribute; the sync and async analysers agree. "
    "That reported spans contain exactly the reported text, and the partial-template `seen` logic, are not decided.",
    "level_note": "Trusts the extraction of access paths (aliases through locals, loop and comprehension variables, "
    "self-helper calls) described in sa/traversal.py; carrier classes (Filter, arguments, parameters) are treated as "
    "transparent containers of expressions.",
}
META["technique"] += '; loader twins (analysis loads the same sources on both paths); filtered comprehensions in expressions()/children()'
META["technique"] += "; no return before the node's own expressions in the analysis visitor; returned lists as child contributions"
META["technique"] += '; children / children_async twins with keyword forwarding; partial scope built from partial.in_scope alone'

EXPR_USE = {"evaluate", "evaluate_async", "map", "evaluate_args", "evaluate_args_async"}
NODE_USE = {"evaluate", "evaluate_async", "render", "render_async", "map"}

# (class, attribute): reason the attribute is reported elsewhere
EXCEPTIONS = {
    ("_AnyExpression", "left"): "the case subject: reported once by CaseNode.expressions() instead of once per `when`",
}


def _agreement(prog: Program, res: Result, rule: str, base: str, dyn_methods: tuple[str, ...], use_calls: set[str], static_methods: tuple[str, ...]) -> int:
    n = 0
    for ci in prog.subclasses(base, strict=True):
        dyn = T.dynamic_uses(prog, ci, dyn_methods, use_calls)
        if not dyn:
            continue
        st = T.static_contributions(prog, ci, static_methods)
        elem = {c.attr for c in st if c.kind == T.ELEMENT}
        dele = {c.attr for c in st if c.kind == T.DELEGATED}
        by_attr: dict[str, T.Use] = {}
        for u in dyn:
            by_attr.setdefault(u.attr, u)
        for attr, u in sorted(by_attr.items()):
            n += 1
            site = f"{ci.file}:{u.call.lineno} {ci.name}"
            what = f"{ci.name}.{attr} (used by {u.via.split(':')[0].split('.')[-1]}) is yielded by {'/'.join(static_methods)}()"
            if attr in elem:
                res.ok(rule, site, what, "contributed as an element")
            elif attr in dele and T.carrier_typed(ci, attr, prog):
                res.ok(rule, site, what, "carrier objects: their expressions are contributed through their own children()")
            elif (ci.name, attr) in EXCEPTIONS:
                res.ok(rule, site, what, "exception: " + EXCEPTIONS[(ci.name, attr)])
            else:
                how = "only delegates to its children() - the object itself (and e.g. its filters) is never visited" if attr in dele else "never mentions it"
                res.fail(
                    rule,
                    file=ci.file,
                    line=u.call.lineno,
                    qualname=f"{ci.name}.{static_methods[0]}",
                    construct=f"{ci.name}: self.{attr} used at run time ({norm(u.call.func, 50)}) but {'/'.join(static_methods)}() {how}",
                    message=f"{ci.name} uses self.{attr} when it is evaluated/rendered (`{norm(u.call.func, 50)}`), but {'/'.join(static_methods)}() {how}: variables, filters and tags below it are missing from analyze()",
                    what=what,
                )
    return n


def run(prog: Program, res: Result) -> None:  # noqa: PLR0912, PLR0915
    res.explanation = (
        "For each class the dynamic set (attributes reached by evaluate/render calls, through aliases, loops, comprehensions, "
        "match patterns and self-helper calls) is compared with the static set contributed by children()/expressions(). "
        "Scope rules compare block_scope()/template_scope() with what the render methods bind."
    )
    res.not_decided += ["reported spans contain exactly the reported text (value-level; token positions are C17)", "partial-template `seen` bookkeeping and include_partials behaviour", "names bound at run time but not declared (only adds reported globals: allowed by over-approximation)"]
    res.trusted_base += ["sa/traversal.py access-path extraction"]

    # ------------------------------------------------------------------ R1 / R2
    res.rule("C11.R1", "every Expression class: attributes used by evaluate[_async] ⊆ attributes children() contributes as elements")
    n1 = _agreement(prog, res, "C11.R1", "liquid2.expression.Expression", ("evaluate", "evaluate_async"), EXPR_USE, ("children",))
    res.floor("C11.R1", "expression attribute obligations", n1, 25)
    res.rule("C11.R2", "every Node class: expressions evaluated and blocks rendered by render_to_output[_async] ⊆ expressions() ∪ children()")
    n2 = _agreement(prog, res, "C11.R2", "liquid2.ast.Node", ("render_to_output", "render_to_output_async"), NODE_USE, ("children", "expressions"))
    res.floor("C11.R2", "node attribute obligations", n2, 25)
    # carriers: Filter.children / argument classes expose their value
    ex = prog.mod("liquid2/builtin/expressions.py")
    flt = ex.classes.get("Filter")
    if flt is None:
        raise AnalysisError("Filter class vanished")
    fc = flt.methods.get("children")
    what = "Filter.children() yields the value of every argument"
    if fc is not None and "arg.value for arg in self.args" in norm(fc.node, 500):
        res.ok("C11.R1", f"{flt.file}:{fc.node.lineno} Filter.children", what, "[arg.value for arg in self.args]")
    else:
        res.fail("C11.R1", file=flt.file, line=flt.node.lineno, qualname="Filter.children", construct="Filter.children does not yield argument values", message="filter arguments are not visited by static analysis", what=what)

    # ------------------------------------------------------------------ R3 scopes
    res.rule("C11.R3", "scope soundness: template_scope names are the names assign/capture/increment bind; block_scope constant/field names are keys of the namespace pushed at run time; a key removed from the namespace before it is pushed is excluded from block_scope")
    node_base = prog.cls("liquid2.ast.Node")
    n3 = 0
    n3c = 0
    res.rule("C11.R3c", "a name that template_scope() declares template-local is stored where it shadows the globals: the RenderContext method that binds it writes a mapping placed before `self.globals` in the scope chain (read off RenderContext.__init__) - a counter, which the chain consults last, does not hide a global of the same name from a later read")
    ctx_cls = prog.cls("liquid2.context.RenderContext")
    cinit = ctx_cls.methods.get("__init__")
    chain_order: list[str] = []
    for a in ast.walk(cinit.node) if cinit else []:
        if isinstance(a, ast.Assign) and any(is_self_attr(t, "scope") for t in a.targets) and isinstance(a.value, ast.Call):
            chain_order = [x.attr if isinstance(x, ast.Attribute) else norm(x) for x in a.value.args]
    if "globals" not in chain_order:
        raise AnalysisError("C11.R3c: RenderContext.scope chain not found")
    writer_field: dict[str, str] = {}
    for mn in ("assign", "increment", "decrement"):
        wm = ctx_cls.methods.get(mn)
        if wm is None:
            continue
        for sub in ast.walk(wm.node):
            if isinstance(sub, ast.Subscript) and isinstance(sub.ctx, ast.Store) and is_self_attr(sub.value):
                writer_field[mn] = sub.value.attr
    for ci in prog.subclasses(node_base, strict=True):
        ts = ci.methods.get("template_scope")
        renders = [m for m in (ci.methods.get("render_to_output"), ci.methods.get("render_to_output_async")) if m is not None]
        if ts is not None:
            ys = [norm(y.value.value) for y in ast.walk(ts.node) if isinstance(y, ast.Expr) and isinstance(y.value, ast.Yield) and y.value.value is not None]
            for name in ys:
                n3 += 1
                what = f"{ci.name}.template_scope yields {name}: bound by its render method"
                bound = False
                for m in renders:
                    for c in ast.walk(m.node):
                        if isinstance(c, ast.Call) and isinstance(c.func, ast.Attribute) and c.func.attr in ("assign", "increment", "decrement") and c.args and norm(c.args[0]) == name:
                            bound = True
                if bound:
                    res.ok("C11.R3", f"{ci.file}:{ts.node.lineno} {ci.name}.template_scope", what, f"context.assign/increment/decrement({name}, …)")
                    # R3c: the binding must come before the globals in the lookup chain, or a global of that name is what a later read gets
                    for m in renders[:1]:
                        for c in ast.walk(m.node):
                            if isinstance(c, ast.Call) and isinstance(c.func, ast.Attribute) and c.func.attr in ("assign", "increment", "decrement") and c.args and norm(c.args[0]) == name:
                                n3c += 1
                                fld = writer_field.get(c.func.attr)
                                what_c = f"{ci.name}: `{name}` declared template-local is stored (context.{c.func.attr}) in a mapping that precedes the globals in RenderContext.scope"
                                if fld is not None and fld in chain_order and chain_order.index(fld) < chain_order.index("globals"):
                                    res.ok("C11.R3c", f"{ci.file}:{c.lineno} {ci.name}", what_c, f"self.{fld} is link {chain_order.index(fld)} of the chain {chain_order}")
                                else:
                                    res.fail("C11.R3c", file=ci.file, line=ts.node.lineno, qualname=f"{ci.name}.template_scope", construct=f"{ci.name}.template_scope declares a name that context.{c.func.attr} stores after the globals in the lookup chain", message=f"{ci.name}.template_scope() declares `{name}` a template-local, but context.{c.func.attr}() stores it in self.{fld}, which RenderContext.scope consults after the globals ({' -> '.join(chain_order)}): when a global of that name exists, a later `{{{{ {name.split('.')[-1]} }}}}` reads the global, and analyze() does not report it as one", what=what_c)
                else:
                    res.fail("C11.R3", file=ci.file, line=ts.node.lineno, qualname=f"{ci.name}.template_scope", construct=f"{ci.name}.template_scope yields {name} which render never binds", message=f"{ci.name} declares `{name}` as a template-local but its render method binds a different name: uses of the real name are not reported as globals / the declared one hides a global", what=what)
        bs = ci.methods.get("block_scope")
        if bs is None or not renders:
            continue
        # --- constant / field names
        declared: list[str] = []
        generators: list[ast.GeneratorExp] = []
        for y in ast.walk(bs.node):
            if isinstance(y, ast.Call) and (dotted(y.func) or "") == "Identifier" and y.args:
                if any(isinstance(a, ast.GeneratorExp) and any(y is x for x in ast.walk(a)) for a in ast.walk(bs.node)):
                    continue
                declared.append(norm(y.args[0]))
            if isinstance(y, ast.GeneratorExp):
                generators.append(y)
        runtime_keys: set[str] = set()
        removed: dict[str, str] = {}
        for m in renders:
            aliases = {norm(a.targets[0]): norm(a.value) for a in ast.walk(m.node) if isinstance(a, ast.Assign) and len(a.targets) == 1 and isinstance(a.targets[0], ast.Name)}

            def rk(e: ast.AST, aliases: dict = aliases) -> str:
                t = norm(e)
                return aliases.get(t, t)

            for d in ast.walk(m.node):
                if isinstance(d, ast.Dict):
                    runtime_keys |= {rk(k) for k in d.keys if k is not None}
                if isinstance(d, ast.Subscript) and isinstance(d.ctx, ast.Store):
                    runtime_keys.add(rk(d.slice))
            # removals: namespace.pop(K) directly, or through a helper of the class that pops from its parameter
            ns_vars = set()
            for c in ast.walk(m.node):
                if isinstance(c, ast.Call) and isinstance(c.func, ast.Attribute) and c.func.attr in ("extend", "loop", "copy"):
                    for a in list(c.args) + [k.value for k in c.keywords]:
                        if isinstance(a, ast.Name):
                            ns_vars.add(a.id)
            for c in ast.walk(m.node):
                if isinstance(c, ast.Call) and isinstance(c.func, ast.Attribute) and c.func.attr in ("pop", "__delitem__") and isinstance(c.func.value, ast.Name) and c.func.value.id in ns_vars and c.args:
                    removed[norm(c.args[0])] = f"{m.qualname}: {norm(c, 50)}"
                if isinstance(c, ast.Call) and isinstance(c.func, ast.Attribute) and is_self_attr(c.func):
                    h = prog.find_method(ci, c.func.attr)
                    if h is None:
                        continue
                    hp = [p for p in h.params() if p != "self"]
                    for i, a in enumerate(c.args):
                        if isinstance(a, ast.Name) and a.id in ns_vars and i < len(hp):
                            for hc in ast.walk(h.node):
                                if isinstance(hc, ast.Call) and isinstance(hc.func, ast.Attribute) and hc.func.attr == "pop" and isinstance(hc.func.value, ast.Name) and hc.func.value.id == hp[i] and hc.args:
                                    removed[norm(hc.args[0])] = f"{h.qualname}: {norm(hc, 50)}"
        for name in declared:
            n3 += 1
            what = f"{ci.name}.block_scope declares {name}: a key of the namespace pushed at run time"
            if name in runtime_keys:
                res.ok("C11.R3", f"{ci.file}:{bs.node.lineno} {ci.name}.block_scope", what, "bound in the render method")
            else:
                res.fail("C11.R3", file=ci.file, line=bs.node.lineno, qualname=f"{ci.name}.block_scope", construct=f"{ci.name}.block_scope declares {name}; run-time keys {sorted(runtime_keys)}", message=f"{ci.name} declares block-scoped name {name} that its render method never binds: a global of that name used inside the block is hidden from analyze().globals", what=what)
        for key, where in removed.items():
            n3 += 1
            what = f"{ci.name}: namespace key {key} removed before the push is excluded from block_scope"
            excluded = any(any(isinstance(cond, ast.Compare) and isinstance(cond.ops[0], ast.NotEq) and key in (norm(cond.left), norm(cond.comparators[0])) for g in gen.generators for cond in g.ifs) for gen in generators) or not generators
            if excluded:
                res.ok("C11.R3", f"{ci.file}:{bs.node.lineno} {ci.name}.block_scope", what, f"filtered out ({where})")
            else:
                res.fail("C11.R3", file=ci.file, line=bs.node.lineno, qualname=f"{ci.name}.block_scope", construct=f"{ci.name}.block_scope declares every argument although {key} is popped ({where})", message=f"{ci.name}.block_scope declares all argument names, but `{key}` is removed from the namespace before it is pushed ({where}): inside the block that name resolves to the GLOBAL variable, which analyze() does not report", what=what)
        for gen in generators:
            n3 += 1
            src = norm(gen.generators[0].iter)
            what = f"{ci.name}.block_scope enumerates {src}: the render namespace is built from the same field"
            field = src.split("(")[0].replace(".values", "").replace(".items", "")
            if any(field in norm(m.node, 10000) for m in renders):
                res.ok("C11.R3", f"{ci.file}:{bs.node.lineno} {ci.name}.block_scope", what, f"render methods read {field}")
            else:
                res.fail("C11.R3", file=ci.file, line=bs.node.lineno, qualname=f"{ci.name}.block_scope", construct=f"{ci.name}.block_scope enumerates {src}, unused by render", message=f"block scope is declared from {src} which the render method never binds", what=what)
    res.floor("C11.R3", "scope obligations", n3, 10)
    res.floor("C11.R3c", "template-local declarations checked against the lookup chain", n3c, 4)
    # lambda parameters: LambdaExpression.scope() yields the params that map() binds
    lam = ex.classes.get("LambdaExpression")
    if lam is None:
        raise AnalysisError("LambdaExpression vanished")
    sc, mp = lam.methods.get("scope"), lam.methods.get("map")
    what = "LambdaExpression.scope() returns self.params, the names map() binds"
    if sc is not None and mp is not None and any(isinstance(r, ast.Return) and norm(r.value) == "self.params" for r in ast.walk(sc.node)) and "self.params" in norm(mp.node, 5000):
        res.ok("C11.R3", f"{lam.file}:{sc.node.lineno} LambdaExpression.scope", what, "same field")
    else:
        res.fail("C11.R3", file=lam.file, line=lam.node.lineno, qualname="LambdaExpression.scope", construct="lambda scope/params mismatch", message="lambda parameters are not declared to the analyser: they are reported as globals", what=what)

    # ------------------------------------------------------------------ R3d block-scoped names are in force for every child the analyser visits with them
    res.rule("C11.R3d", "the analyser applies block_scope() to every child children() returns; so every child block a render method renders (`self.<child>.render[_async](…)`) is rendered inside the `with context.extend/loop(…)` that pushes those names - a child rendered outside it (the `else` of a `for`) reads the loop variable from the globals while analyze() calls it block-local")
    n3d = 0
    for ci in prog.subclasses(node_base, strict=True):
        bs = ci.methods.get("block_scope")
        if bs is None or not any(isinstance(y, (ast.Yield, ast.YieldFrom, ast.Return)) and getattr(y, "value", None) is not None for y in ast.walk(bs.node)):
            continue
        kids = {k.attr for k in T.static_contributions(prog, ci, ("children",))}
        for m in (ci.methods.get("render_to_output"), ci.methods.get("render_to_output_async")):
            if m is None:
                continue
            scoped_withs = [w for w in ast.walk(m.node) if isinstance(w, (ast.With, ast.AsyncWith)) and any(isinstance(c, ast.Call) and isinstance(c.func, ast.Attribute) and c.func.attr in ("extend", "loop") for it in w.items for c in ast.walk(it.context_expr))]
            pushes_elsewhere = any(isinstance(c, ast.Call) and isinstance(c.func, ast.Attribute) and c.func.attr in ("copy",) for c in ast.walk(m.node))
            for c in ast.walk(m.node):
                if not (isinstance(c, ast.Call) and isinstance(c.func, ast.Attribute) and c.func.attr in ("render", "render_async") and is_self_attr(c.func.value) and c.func.value.attr in kids):
                    continue
                n3d += 1
                attr = c.func.value.attr
                site = f"{ci.file}:{c.lineno} {ci.name}.{m.name}"
                what = f"{ci.name}.{m.name}: self.{attr} is rendered with the block scope pushed"
                inside = any(any(x is c for x in ast.walk(w)) for w in scoped_withs)
                if inside or (pushes_elsewhere and not scoped_withs):
                    res.ok("C11.R3d", site, what, "inside the with that pushes the namespace" if inside else "rendered with a copied context that carries the namespace")
                else:
                    res.fail("C11.R3d", file=ci.file, line=c.lineno, qualname=f"{ci.name}.{m.name}", construct=f"{ci.name}.{m.name}: self.{attr} rendered outside the block scope", message=f"{ci.name}.{m.name} renders self.{attr} outside the `with` that pushes the names block_scope() declares, but the analyser visits it (children()) with those names in scope: a read of the loop variable there is looked up in the globals at run time and reported as block-local", what=what)
    res.floor("C11.R3d", "child blocks rendered by nodes that declare a block scope", n3d, 6)

    # ------------------------------------------------------------------ R3b names declared for a partial are bound for it
    res.rule("C11.R3b", "a name that partial_scope() declares as bound inside the partial (beyond the keyword arguments) is declared only under the conditions on the tag's own fields under which every render path stores that key into the partial's namespace: a name declared on weaker conditions hides a global the partial really looks up")
    from checks.C15 import _atoms as _cond_atoms
    from checks.C15 import _path_condition as _cond_path

    n3b = 0
    for ci in prog.subclasses(node_base, strict=True):
        ps = ci.methods.get("partial_scope")
        if ps is None:
            continue
        appends = [c for c in ast.walk(ps.node) if isinstance(c, ast.Call) and isinstance(c.func, ast.Attribute) and c.func.attr in ("append", "extend", "add") and c.args]
        if not appends:
            continue
        renders = [m for m in (ci.methods.get("render_to_output"), ci.methods.get("render_to_output_async")) if m is not None]

        def self_atoms(fn: FunctionInfo, node: ast.AST) -> tuple[set[tuple[str, str]], set[str]]:
            definite: set[tuple[str, str]] = set()
            mentioned: set[str] = set()
            for t, pol in _cond_path(fn.module, fn.node, node):
                for o, f in _cond_atoms(t, pol):
                    if not o.startswith("self."):
                        continue
                    if f.startswith("mentioned:"):
                        mentioned.add(o)
                    else:
                        definite.add((o, f))
            return definite, mentioned

        # what every render path requires before it stores a computed key into a namespace mapping
        required: set[tuple[str, str]] | None = None
        n_stores = 0
        for m in renders:
            for st_ in ast.walk(m.node):
                if isinstance(st_, ast.Assign) and len(st_.targets) == 1 and isinstance(st_.targets[0], ast.Subscript) and isinstance(st_.targets[0].slice, ast.Name):
                    n_stores += 1
                    d, _ = self_atoms(m, st_)
                    required = d if required is None else (required & d)
        for c in appends:
            n3b += 1
            d, _ = self_atoms(ps, c)
            # a name declared by a constant (`Identifier("forloop", …)`): the render must store that very key under conditions on the tag's
            # own fields only - a store that also depends on the run-time value (`isinstance(val, Sequence)`) leaves the name unbound for
            # other values, and the partial then reads it from the globals
            const_names = [x.args[0].value for x in ast.walk(c.args[0]) if isinstance(x, ast.Call) and (dotted(x.func) or "").endswith("Identifier") and x.args and isinstance(x.args[0], ast.Constant) and isinstance(x.args[0].value, str)]
            if const_names:
                cname = const_names[0]
                problems_c: list[str] = []
                found_store = False
                for m in renders:
                    for st_ in ast.walk(m.node):
                        if isinstance(st_, ast.Assign) and len(st_.targets) == 1 and isinstance(st_.targets[0], ast.Subscript) and isinstance(st_.targets[0].slice, ast.Constant) and st_.targets[0].slice.value == cname:
                            found_store = True
                            value_conds = [o for t_, pol_ in _cond_path(m.module, m.node, st_) for o, f_ in _cond_atoms(t_, pol_) if not o.startswith("self.")]
                            if value_conds:
                                problems_c.append(f"{m.name} stores [{cname!r}] only under a test of run-time values ({sorted(set(value_conds))[:2]})")
                        if isinstance(st_, ast.Dict) and any(isinstance(k, ast.Constant) and k.value == cname for k in st_.keys):
                            found_store = True
                site_c = f"{ci.file}:{c.lineno} {ci.name}.partial_scope"
                what_c = f"{ci.name}.partial_scope declares the constant name `{cname}` only if every render binds it whenever the tag has that shape"
                if not found_store:
                    problems_c.append(f"no render method stores the key {cname!r}")
                if problems_c:
                    res.fail("C11.R3b", file=ci.file, line=c.lineno, qualname=f"{ci.name}.partial_scope", construct=f"{ci.name}.partial_scope declares `{cname}` although the render binds it only for some values", message=f"{ci.name}.partial_scope() declares `{cname}` as bound inside the partial, but {problems_c[0]}: for other data the partial looks `{cname}` up in the globals and analyze() does not report it", what=what_c)
                else:
                    res.ok("C11.R3b", site_c, what_c, "stored under conditions on the tag's fields only")
                continue
            site = f"{ci.file}:{c.lineno} {ci.name}.partial_scope"
            what = f"{ci.name}.partial_scope declares `{norm(c.args[0], 50)}` only where the render stores that key"
            if required is None:
                res.fail("C11.R3b", file=ci.file, line=c.lineno, qualname=f"{ci.name}.partial_scope", construct=f"{ci.name}.partial_scope declares a name no render path stores", message=f"{ci.name}.partial_scope() declares `{norm(c.args[0], 50)}` as bound in the partial, but no render method stores a computed key into the partial's namespace", what=what)
            elif required <= d:
                res.ok("C11.R3b", site, what, f"declared under {sorted(d)}; every one of the {n_stores} stores requires {sorted(required)}")
            else:
                miss = sorted(required - d)
                res.fail("C11.R3b", file=ci.file, line=c.lineno, qualname=f"{ci.name}.partial_scope", construct=f"{ci.name}.partial_scope declares a bound name without requiring {[o + ':' + f for o, f in miss]}", message=f"{ci.name}.partial_scope() declares `{norm(c.args[0], 50)}` as bound inside the partial without requiring {[o + ' ' + f for o, f in miss]}, but the render stores that key only then: for a tag without it the partial looks the name up in the globals and analyze() does not report it", what=what)
    res.floor("C11.R3b", "names declared by partial_scope() beyond the keyword arguments", n3b, 4)

    # ------------------------------------------------------------------ R4 extractor reads every filter list
    res.rule("C11.R4", "the filter extractor inspects every attribute annotated list[Filter] on an Expression class and recurses over children(); the variable analyser recurses over children() under expression.scope()")
    filter_attrs: dict[str, set[str]] = {}
    for ci in prog.subclasses("liquid2.expression.Expression", strict=True):
        init = ci.methods.get("__init__")
        if init is None:
            continue
        for p in init.node.args.args + init.node.args.kwonlyargs:
            if p.annotation is not None and "list[Filter]" in norm(p.annotation):
                filter_attrs.setdefault(p.arg, set()).add(ci.name)
    res.floor("C11.R4", "list[Filter] attributes", len(filter_attrs), 2)
    sa_mod = prog.mod("liquid2/static_analysis.py")
    ef = sa_mod.functions.get("_extract_filters")
    if ef is None:
        raise AnalysisError("_extract_filters vanished")
    read = {a.attr for a in ast.walk(ef.node) if isinstance(a, ast.Attribute) and isinstance(a.value, ast.Name) and a.value.id == "expression"}
    for attr, classes in sorted(filter_attrs.items()):
        what = f"_extract_filters reads expression.{attr} ({sorted(classes)})"
        if attr in read:
            res.ok("C11.R4", f"{sa_mod.relpath}:{ef.node.lineno} _extract_filters", what, "attribute read")
        else:
            res.fail("C11.R4", file=sa_mod.relpath, line=ef.node.lineno, qualname="_extract_filters", construct=f"_extract_filters ignores .{attr}", message=f"filters stored in `{attr}` of {sorted(classes)} are never reported by analyze().filters", what=what)
    from sa.cfg import CFG

    for fname in ("_extract_filters", "_analyze_variables"):
        f = sa_mod.functions.get(fname)
        what = f"{fname} recurses over expression.children() on every path (whatever the expression type)"
        ok = False
        if f is not None:
            cfg = CFG(f.node, may_raise=lambda st: False)
            rec = [n for n in cfg.nodes if n.kind == "for" and isinstance(n.node, ast.For) and norm(n.node.iter) == "expression.children()" and any(isinstance(c, ast.Call) and (dotted(c.func) or "") == fname for c in ast.walk(n.node))]
            ok = bool(rec) and cfg.all_paths_pass(cfg.exit, lambda n: n in rec)
            # … and inside each such loop the recursive call is unconditional
            for n in rec:
                for c in ast.walk(n.node):
                    if isinstance(c, ast.Call) and (dotted(c.func) or "") == fname:
                        for a in sa_mod.ancestors(c):
                            if a is n.node:
                                break
                            if isinstance(a, (ast.If, ast.IfExp, ast.Try, ast.While)) or (isinstance(a, ast.comprehension) and a.ifs):
                                ok = False
        if ok:
            res.ok("C11.R4", f"{sa_mod.relpath}:{f.node.lineno} {fname}", what, "every path to the exit passes `for expr in expression.children(): recurse`")
        else:
            res.fail("C11.R4", file=sa_mod.relpath, line=f.node.lineno if f else 0, qualname=fname, construct=f"{fname} recursion is missing or conditional", message=f"{fname} does not recurse over the children of every expression type: filters/variables nested under the skipped types (comparisons, logical operators, lambdas, ranges …) are used at run time but never reported", what=what)
    # _visit uses expressions(), template_scope(), block_scope(), children(), partial_scope()
    for outer in ("_analyze", "_analyze_async"):
        v = sa_mod.functions.get(f"{outer}.<locals>._visit")
        if v is None:
            raise AnalysisError(f"{outer}._visit vanished")
        txt = norm(v.node, 20000)
        for piece in ("node.expressions()", "node.template_scope()", "node.block_scope()", "node.partial_scope()", "_analyze_variables(expr", "_extract_filters(expr"):
            what = f"{outer}._visit consults {piece}"
            if piece in txt:
                res.ok("C11.R4", f"{sa_mod.relpath}:{v.node.lineno} {v.qualname}", what, "present")
            else:
                res.fail("C11.R4", file=sa_mod.relpath, line=v.node.lineno, qualname=v.qualname, construct=f"{outer}._visit no longer calls {piece}", message=f"the analyser visitor does not consult {piece}", what=what)
        # tags are recorded for every tag/lines token except the transparent block wrappers
        what = f"{outer}._visit records a tag for every node with a tag/lines token"
        # order: a tag's own expressions are classified before the names it binds enter the scope (`assign x = x | default: 1` reads the outer x)
        idx_expr = next((i for i, st in enumerate(v.node.body) if isinstance(st, ast.For) and norm(st.iter) == "node.expressions()"), None)
        idx_scope = next((i for i, st in enumerate(v.node.body) if isinstance(st, ast.For) and norm(st.iter) == "node.template_scope()"), None)
        what_o = f"{outer}._visit analyses node.expressions() before node.template_scope() names are added to the scope"
        if idx_expr is not None and idx_scope is not None and idx_expr < idx_scope:
            res.ok("C11.R4", f"{sa_mod.relpath}:{v.node.lineno} {v.qualname}", what_o, f"statement {idx_expr} before statement {idx_scope}")
        else:
            res.fail("C11.R4", file=sa_mod.relpath, line=v.node.lineno, qualname=v.qualname, construct=f"{v.qualname}: template_scope names enter the scope before the tag's own expressions are analysed", message=f"{v.qualname} adds the names a tag binds (node.template_scope()) to the scope before it classifies the tag's own expressions: the right-hand side of `{{% assign x = x | default: 'a' %}}` reads the global x at render time, but x is already local for the analyser and is not reported as a global", what=what_o)
        # nothing leaves the visitor before the node's own expressions are analysed: the "this partial was seen already" return comes after
        what_r = f"{outer}._visit analyses the node's own expressions on every path (no return before the loop over node.expressions())"
        early_rets = [r_ for st in v.node.body[: (idx_expr if idx_expr is not None else 0)] for r_ in ast.walk(st) if isinstance(r_, ast.Return)]
        if idx_expr is not None and not early_rets:
            res.ok("C11.R4", f"{sa_mod.relpath}:{v.node.lineno} {v.qualname}", what_r, "no return among the statements before it")
        else:
            res.fail("C11.R4", file=sa_mod.relpath, line=(early_rets[0].lineno if early_rets else v.node.lineno), qualname=v.qualname, construct=f"{v.qualname}: returns before the node's own expressions are analysed", message=f"{v.qualname} can return before `for expr in node.expressions()`: a second `{{% include 'card', item: second %}}` of a partial already seen is cut off with its own arguments unanalysed, so `second` is looked up at render time and missing from variables / globals", what=what_r)
        # token classes that stand for a `{% … %}` tag that does something: every marker-carrying class except the output statement and comments

        tokmod = prog.mod("liquid2/token.py")
        tag_kinds = {c.name for c in tokmod.classes.values() if any(isinstance(s_, ast.AnnAssign) and isinstance(s_.target, ast.Name) and s_.target.id == "wc" for s_ in c.node.body)} - {"OutputToken", "CommentToken", "BlockCommentToken", "InlineCommentToken"}
        guards = {n_: dotted(f_.node.returns.slice) or "" for n_, f_ in tokmod.functions.items() if f_.node.returns is not None and isinstance(f_.node.returns, ast.Subscript) and (dotted(f_.node.returns.value) or "").endswith("TypeGuard")}
        covered_kinds: set[str] = set()
        for if_ in ast.walk(v.node):
            if isinstance(if_, ast.If) and any(isinstance(x, ast.Subscript) and norm(x.value) == "tags" for b in if_.body for x in ast.walk(b)) and any(isinstance(x, ast.Call) and isinstance(x.func, ast.Attribute) and x.func.attr == "append" for b in if_.body for x in ast.walk(b)):
                for c_ in ast.walk(if_.test):
                    if isinstance(c_, ast.Call) and isinstance(c_.func, ast.Name) and c_.func.id in guards and c_.args and norm(c_.args[0]) == "node.token":
                        covered_kinds.add(guards[c_.func.id])
        missing_kinds = sorted(k for k in tag_kinds if not any(b.name in covered_kinds for b in prog.mro(tokmod.classes[k])))
        if not missing_kinds and covered_kinds:
            res.ok("C11.R4", f"{sa_mod.relpath}:{v.node.lineno} {v.qualname}", what, f"records {sorted(covered_kinds)}")
        else:
            res.fail("C11.R4", file=sa_mod.relpath, line=v.node.lineno, qualname=v.qualname, construct=f"{v.qualname}: no tag recorded for nodes whose token is a {missing_kinds}", message=f"{v.qualname} records a tag only for {sorted(covered_kinds)} tokens: a node built from a {missing_kinds} token (e.g. `{{% raw %}}`) is executed by the render and missing from analyze().tags", what=what)

    # ------------------------------------------------------------------ R6 static scope pairing
    res.rule("C11.R6", "in the analyser visitors every static-scope push is followed by a pop on every path to the function's exit (no early return between them)")
    n_push = 0
    for f in list(sa_mod.functions.values()):
        pushes = [c for c in ast.walk(f.node) if isinstance(c, ast.Call) and isinstance(c.func, ast.Attribute) and c.func.attr == "push" and prog.enclosing_function(sa_mod, c) is f]
        if not pushes:
            continue
        cfg = CFG(f.node, may_raise=lambda st: False)
        pops = [n for n in cfg.nodes if n.kind == "stmt" and n.node is not None and any(isinstance(c, ast.Call) and isinstance(c.func, ast.Attribute) and c.func.attr == "pop" for c in ast.walk(n.node))]
        for c in pushes:
            n_push += 1
            pn = next((n for n in cfg.nodes if n.kind in ("stmt", "test") and n.node is not None and any(x is c for x in ast.walk(n.node))), None)
            site = f"{sa_mod.relpath}:{c.lineno} {f.qualname}"
            what = f"`{norm(c, 50)}` popped on every path to the exit"
            leak = pn is None or cfg.exit.id in cfg.reachable(pn, avoid=lambda n: n in pops and n is not pn)
            if not leak:
                res.ok("C11.R6", site, what, "no path from the push to the exit avoids a pop")
            else:
                res.fail("C11.R6", file=sa_mod.relpath, line=c.lineno, qualname=f.qualname, construct=f"{norm(c, 50)} can reach the exit without a pop", message=f"{f.qualname} can return after `{norm(c, 40)}` without the matching pop: names of a partial/block stay in the analyser's scope and later uses of them are no longer reported as globals", what=what)
    res.floor("C11.R6", "static-scope pushes", n_push, 4)

    # ------------------------------------------------------------------ R5 twins
    res.rule("C11.R5", "the async analyser and the async Template helper methods agree with their sync twins")
    for fs, fa in twins.find_pairs(prog):
        if fa.file not in ("liquid2/static_analysis.py", "liquid2/template.py") or fa.name in ("render_async", "render_with_context_async", "is_up_to_date_async"):
            continue
        site = f"{fa.file}:{fa.node.lineno} {fa.qualname}"
        what = f"{fa.qualname} == {fs.qualname} modulo await"
        diffs = twins.diff_functions(twins.normalise(fs.node), twins.normalise(fa.node))
        if not diffs:
            res.ok("C11.R5", site, what, "identical after normalisation")
        else:
            d = diffs[0]
            res.fail("C11.R5", file=fa.file, line=d.async_line or fa.node.lineno, qualname=fa.qualname, construct=f"sync `{d.sync_text}` vs async `{d.async_text}`", message=f"async analysis differs from {fs.qualname}", what=what)

    # ------------------------------------------------------------------ R7 spans of variables are the path tokens' spans
    res.rule("C11.R7", "a reported variable location is its path token's span, so the lexer must keep that span exact: stop updated after every segment, a nested variable ends before its closing bracket, unbalanced brackets rejected (shared with C17.R6)")
    from checks.C17 import check_path_tokens

    check_path_tokens(prog, res, "C11.R7")

    res.rule("C11.R9", "children()/expressions() hand every child to the analyser under no condition other than its own presence (never under a test on another attribute)")
    from checks.shared import check_unconditional_contributions

    check_unconditional_contributions(prog, res, "C11.R9")
    res.rule("C11.R11", "analyze_async() sees the templates analyze() sees: every loader's get_source_async / load_async equals its sync twin modulo await (arguments such as `tag=` and `context=` forwarded alike), so partials and parents resolve to the same source on both paths (= C13.R4)")
    from checks.shared import check_loader_twins

    check_loader_twins(prog, res, "C11.R11")
    res.rule("C11.R12", "analyze_async() walks the children analyze() walks: every children_async equals its children() modulo await, and a children_async that delegates to children() forwards every keyword (include_partials) - a dropped keyword makes the async analysis load parents and partials the caller excluded")
    from checks.shared import check_children_twins

    check_children_twins(prog, res, "C11.R12")
    res.rule("C11.R13", "what a partial may treat as bound is what its tag declares in partial_scope().in_scope and nothing else: the analysis visitor builds the partial's scope from `set(partial.in_scope)` alone, and no node that loads a partial also declares a block_scope() (names offered there would count as bound inside the partial whatever the run time does - `forloop` for `render … for` over a value that is not a sequence)")
    n13 = 0
    sa13 = prog.mod("liquid2/static_analysis.py")
    for v13 in [f for q, f in sa13.functions.items() if q.endswith("._visit")]:
        n13 += 1
        ctor_args = [norm(c.args[0], 80) for c in ast.walk(v13.node) if isinstance(c, ast.Call) and (dotted(c.func) or "").endswith("_StaticScope") and c.args] + [norm(c.args[0], 80) for c in ast.walk(v13.node) if isinstance(c, ast.Call) and isinstance(c.func, ast.Attribute) and c.func.attr == "push" and c.args and "partial" in norm(c.args[0], 80)]
        partial_args = [a for a in ctor_args if "partial" in a]
        site = f"{sa13.relpath}:{v13.node.lineno} {v13.qualname}"
        what = f"{v13.qualname}: the partial's scope is built from partial.in_scope alone"
        bad13 = [a for a in partial_args if a != "set(partial.in_scope)"]
        if bad13 or not partial_args:
            res.fail("C11.R13", file=sa13.relpath, line=v13.node.lineno, qualname=v13.qualname, construct=f"{v13.qualname}: partial scope built from `{(bad13 or ['<nothing>'])[0][:50]}`", message=f"{v13.qualname} builds the scope of a loaded partial from `{(bad13 or ['<nothing>'])[0][:70]}` instead of `set(partial.in_scope)`: names added there count as bound inside the partial, so a lookup the render makes in the globals is not reported as a global", what=what)
        else:
            res.ok("C11.R13", site, what, f"{len(partial_args)} construction(s) from set(partial.in_scope)")
    for ci13 in prog.subclasses("liquid2.ast.Node"):
        if "partial_scope" in ci13.methods and any(isinstance(r, ast.Return) and isinstance(r.value, ast.Call) for r in ast.walk(ci13.methods["partial_scope"].node)):
            n13 += 1
            site = f"{ci13.file}:{ci13.node.lineno} {ci13.name}"
            what = f"{ci13.name}: loads a partial and declares no block_scope()"
            if "block_scope" in ci13.methods:
                res.fail("C11.R13", file=ci13.file, line=ci13.methods["block_scope"].node.lineno, qualname=f"{ci13.name}.block_scope", construct=f"{ci13.name} declares block_scope() although it loads a partial", message=f"{ci13.name} loads a partial and also declares block_scope(): the visitor reads block_scope() only for nodes that render their own children; for a partial the names must be in partial_scope().in_scope, under the same conditions as the render binds them", what=what)
            else:
                res.ok("C11.R13", site, what, "partial_scope() only")
    res.floor("C11.R13", "visitors and partial-loading nodes", n13, 4)

    # ------------------------------------------------------------------ R8 attributes of an expression evaluated by another class
    res.rule("C11.R8", "an attribute of an Expression object that some other class evaluates (`<x>.<attr>.evaluate[_async](…)` with <x> declared as that Expression class) is contributed by that class's children(): what a tag evaluates through a helper expression is visible to the analyser")
    from sa.types import TypeApprox

    TA = TypeApprox(prog)
    expr_base = prog.cls("liquid2.expression.Expression")
    n8 = 0
    seen8: set[tuple[str, str, str]] = set()
    for fi in sorted(prog.all_functions(), key=lambda f: (f.file, f.node.lineno)):
        for c in ast.walk(fi.node):
            if not (isinstance(c, ast.Call) and isinstance(c.func, ast.Attribute) and c.func.attr in ("evaluate", "evaluate_async") and isinstance(c.func.value, ast.Attribute)):
                continue
            holder, attr = c.func.value.value, c.func.value.attr
            if isinstance(holder, ast.Name) and holder.id == "self":
                continue  # the class's own attribute: R1 / R2
            ht = TA.of(fi, holder)
            hc = TA.class_of(fi, ht) if ht else None
            if hc is None or not prog.is_subclass(hc, expr_base):
                continue
            key8 = (hc.full, attr, fi.qualname)
            if key8 in seen8:
                continue
            seen8.add(key8)
            n8 += 1
            ch = prog.find_method(hc, "children")
            site = f"{fi.file}:{c.lineno} {fi.qualname}"
            what = f"{hc.name}.{attr} (evaluated by {fi.qualname}) is contributed by {hc.name}.children()"
            contributed = ch is not None and attr in {k.attr for k in T.static_contributions(prog, hc, ("children",)) if k.kind == T.ELEMENT}
            if contributed:
                res.ok("C11.R8", site, what, f"{hc.name}.children() hands out self.{attr}")
            else:
                res.fail("C11.R8", file=ch.file if ch else hc.file, line=ch.node.lineno if ch else hc.node.lineno, qualname=f"{hc.name}.children", construct=f"{hc.name}.children() omits {attr}, which {fi.qualname} evaluates", message=f"{fi.qualname} evaluates `{norm(c.func.value)}` at run time but {hc.name}.children() does not contribute `{attr}`: variables and filters used there are looked up by the render and never reported by analyze()", what=what)
    res.floor("C11.R8", "expression attributes evaluated by another class", n8, 2)

    # ------------------------------------------------------------------ R10 lookups the analyser is never told about
    res.rule("C11.R10", "every name a render looks up in the namespace is visible to the analyser: outside RenderContext itself and Path.evaluate (whose path the analyser reads), no filter, tag or loader resolves a name from the render context on its own (`context.resolve(…)`, `context.globals[…]`, `context.base_globals.get(…)`) - the Filter/Tag API has no way to declare such an implicit variable, so it is looked up and never reported")
    n10 = 0
    by_fn: dict[str, list[tuple[FunctionInfo, ast.AST, str]]] = {}
    for fi in sorted(prog.all_functions(), key=lambda f: (f.file, f.node.lineno)):
        if fi.file == "liquid2/context.py" or (fi.cls is not None and fi.cls.name == "Path"):
            continue
        for c in ast.walk(fi.node):
            if prog.enclosing_function(fi.module, c) is not fi:
                continue
            what_ = None
            if isinstance(c, ast.Call) and isinstance(c.func, ast.Attribute) and c.func.attr == "resolve" and norm(c.func.value) in ("context", "ctx", "self.context") and c.args:
                what_ = norm(c.args[0], 40)
            elif isinstance(c, ast.Call) and isinstance(c.func, ast.Attribute) and c.func.attr == "get" and norm(c.func.value).endswith((".base_globals", "context.globals")) and c.args:
                what_ = norm(c.args[0], 40)
            elif isinstance(c, ast.Subscript) and isinstance(c.ctx, ast.Load) and norm(c.value).endswith(("context.globals", ".base_globals")):
                what_ = norm(c.slice, 40)
            if what_ is not None:
                by_fn.setdefault(fi.fid, []).append((fi, c, what_))
    for fid, sites in sorted(by_fn.items()):
        fi = sites[0][0]
        n10 += 1
        names = sorted({w for _, _, w in sites})
        res.fail("C11.R10", file=fi.file, line=sites[0][1].lineno, qualname=fi.qualname, construct=f"{fi.qualname} resolves names from the render context on its own", message=f"{fi.qualname} looks up {names} in the render context by itself (not through a Path the analyser can see): a render reads these names from the global namespace and analyze() never reports them", what=f"{fi.qualname}: no implicit context lookup")
    res.ok("C11.R10", "liquid2/**", f"{n10} function(s) outside RenderContext/Path resolve names on their own", "each is a finding (the API offers no way to declare them)")
    res.floor("C11.R10", "implicit-lookup scan ran", 1, 1)
