"""C12 - serialising a template and reparsing it preserves its behaviour (writer/reader agreement)."""

from __future__ import annotations

import ast
import re

from sa.report import AnalysisError
from sa.report import Result
from sa.report import norm
from sa.srcmodel import ClassInfo
from sa.srcmodel import Program
from sa.srcmodel import dotted
from sa.util import is_self_attr

META = {
    "technique": "writer/reader agreement lints: tag words printed by each Node.__str__ vs the registry name and the words "
    "its Tag.parse expects; nullary literal spellings vs the lexer keyword table and the primitive parsers; separator and "
    "segment-quoting rules on expression printers; whitespace-control marker pairing; pickle-protocol completeness of every "
    "class reachable from a Template",
    "level_text": "Decides necessary conditions of the round trip, each of the form 'the printer emits what the parser of "
    "that construct reads': tag and end-tag words, literal keywords, argument separators, quoting of every path "
    "segment including the first, a wc marker pair on every printed tag, and that every class stored in a Template can "
    "be reconstructed by pickle. Behavioural equality after reparse is not decided.",
    "level_note": "Trusts pickle's default reduce protocol (copyreg.__reduce_ex__: cls.__new__(cls, *getnewargs) then state). "
    "String quoting via repr and template-string printing are value-level and not decided.",
}

TAGWORD = re.compile(r"\{%\x00?\s*([a-z_#]+)")


def _fstring_skeleton(e: ast.AST) -> str | None:
    """Concatenated constant text of an f-string / string concat, FormattedValue -> \\x00."""
    if isinstance(e, ast.Constant) and isinstance(e.value, str):
        return e.value
    if isinstance(e, ast.JoinedStr):
        out = []
        for v in e.values:
            if isinstance(v, ast.Constant):
                out.append(str(v.value))
            else:
                out.append("\x00")
        return "".join(out)
    if isinstance(e, ast.BinOp) and isinstance(e.op, ast.Add):
        a, b = _fstring_skeleton(e.left), _fstring_skeleton(e.right)
        if a is not None and b is not None:
            return a + b
    return None


def _str_skeletons(fn: ast.AST) -> list[str]:
    out = []
    for n in ast.walk(fn):
        if isinstance(n, (ast.JoinedStr,)):
            s = _fstring_skeleton(n)
            if s:
                out.append(s)
        elif isinstance(n, ast.Constant) and isinstance(n.value, str) and "{%" in n.value:
            out.append(n.value)
    return out


def run(prog: Program, res: Result) -> None:  # noqa: PLR0912, PLR0915
    res.explanation = (
        "For each Node class the tag words in its __str__ f-strings are compared with the names under which its producing "
        "Tag classes are registered plus the words those Tags' parse methods pass to expect_tag/is_tag/parse_block(end=…). "
        "Literal classes are traced lexer word -> TokenType -> primitive-parser arm -> class -> __str__ constant."
    )
    res.not_decided += ["behavioural equality after reparse", "string quoting through repr(), template-string printing, liquid-tag line statements", "idempotence of repeated round trips"]
    res.trusted_base += ["pickle default protocol (copyreg)"]
    node_base = prog.cls("liquid2.ast.Node")
    expr_base = prog.cls("liquid2.expression.Expression")
    tag_nodes = prog.tag_nodes()

    # words each Tag class accepts
    def tag_words(tc: ClassInfo) -> set[str]:
        words: set[str] = set()
        for c in prog.mro(tc):
            for v in c.class_attrs.values():
                for x in ast.walk(v):
                    if isinstance(x, ast.Constant) and isinstance(x.value, str) and re.fullmatch(r"[a-z_]+", x.value):
                        words.add(x.value)
            for m in c.methods.values():
                for call in ast.walk(m.node):
                    if isinstance(call, ast.Call) and isinstance(call.func, ast.Attribute) and call.func.attr in ("expect_tag", "is_tag"):
                        for a in call.args:
                            if isinstance(a, ast.Constant) and isinstance(a.value, str):
                                words.add(a.value)
                    if isinstance(call, ast.Call):
                        for k in call.keywords:
                            if k.arg == "end":
                                for x in ast.walk(k.value):
                                    if isinstance(x, ast.Constant) and isinstance(x.value, str):
                                        words.add(x.value)
                for cmp_ in ast.walk(m.node):
                    if isinstance(cmp_, ast.Compare) and "name" in norm(cmp_.left):
                        for x in ast.walk(cmp_):
                            if isinstance(x, ast.Constant) and isinstance(x.value, str) and re.fullmatch(r"[a-z_]+", x.value):
                                words.add(x.value)
        return words

    producers: dict[str, list[tuple[str, ClassInfo]]] = {}
    for name, (tc, nodes) in tag_nodes.items():
        for nc in nodes:
            producers.setdefault(nc.full, []).append((name, tc))

    # ------------------------------------------------------------------ R1 tag keywords
    res.rule("C12.R1", "every tag word printed by a Node.__str__ is the registered name of a Tag that builds that node or a word that Tag's parse expects")
    n_words = 0
    lexer = prog.cls("liquid2.lexer.Lexer")
    for nc in prog.subclasses(node_base):
        m = nc.methods.get("__str__")
        if m is None:
            continue
        words = set()
        for sk in _str_skeletons(m.node):
            words |= set(TAGWORD.findall(sk))
        if not words:
            continue
        prods = producers.get(nc.full, [])
        # ConditionalBlockNode & co are built by several tags; a node class nobody registers is checked against all tags that mention it
        accepted: set[str] = set()
        for name, tc in prods:
            if not name.startswith("__"):
                accepted.add(name)
            accepted |= tag_words(tc)
        accepted.add("#")
        if any(name.startswith("__") for name, _ in prods):
            # lexer-level constructs (raw, comments): the words are spelled in the lexer's markup patterns
            for attr in ("MARKUP", "RE_COMMENT_TAG_CHUNK"):
                v = lexer.class_attrs.get(attr)
                if v is not None:
                    for x in ast.walk(v):
                        if isinstance(x, ast.Constant) and isinstance(x.value, str):
                            accepted |= set(re.findall(r"[a-z]{3,}", x.value))
        for w in sorted(words):
            n_words += 1
            site = f"{nc.file}:{m.node.lineno} {nc.name}.__str__"
            what = f"{nc.name} prints tag word `{w}`"
            if not prods:
                res.ok("C12.R1", site, what, "node class not produced by a registered tag (helper node)")
            elif w in accepted:
                res.ok("C12.R1", site, what, f"accepted by {sorted({n for n, _ in prods})}")
            else:
                res.fail("C12.R1", file=nc.file, line=m.node.lineno, qualname=f"{nc.name}.__str__", construct=f"{nc.name} prints `{w}`", message=f"{nc.name}.__str__ prints the tag word `{w}`, but the tags that build it ({sorted({n for n, _ in prods})}) are registered as / expect {sorted(accepted - {'#'})}: the serialised template does not parse back", what=what)
    res.floor("C12.R1", "printed tag words", n_words, 40)

    # ------------------------------------------------------------------ R2 nullary literals
    res.rule("C12.R2", "the constant printed by a nullary literal class is a word the lexer/primitive parsers map back to that class")
    kw = lexer.class_attrs.get("KEYWORD_MAP")
    if not isinstance(kw, ast.Dict):
        raise AnalysisError("Lexer.KEYWORD_MAP vanished")
    word_to_type = {k.value: (dotted(v) or "").split(".")[-1] for k, v in zip(kw.keys, kw.values) if isinstance(k, ast.Constant)}
    # primitive parser arms: TokenType.X -> class ; WORD value "w" -> class
    type_to_cls: dict[str, set[str]] = {}
    word_to_cls: dict[str, set[str]] = {}
    for fname in ("parse_primitive", "parse_boolean_primitive"):
        f = prog.fn("liquid2/builtin/expressions.py", fname)
        for n in ast.walk(f.node):
            if isinstance(n, ast.If):
                t = n.test
                ctor = None
                for b in n.body:
                    for c in ast.walk(b):
                        if isinstance(c, ast.Call) and isinstance(c.func, ast.Name) and c.func.id[:1].isupper() and ctor is None and isinstance(b, (ast.Return, ast.Assign)):
                            if (b.value if isinstance(b, (ast.Return, ast.Assign)) else None) is c:
                                ctor = c.func.id
                if ctor is None:
                    continue
                if isinstance(t, ast.Call) and (dotted(t.func) or "") == "is_token_type" and len(t.args) == 2:
                    type_to_cls.setdefault((dotted(t.args[1]) or "").split(".")[-1], set()).add(ctor)
                elif isinstance(t, ast.Compare) and norm(t.left) == "token.value" and isinstance(t.comparators[0], ast.Constant):
                    word_to_cls.setdefault(t.comparators[0].value, set()).add(ctor)
    n_lit = 0
    for ec in prog.subclasses(expr_base):
        m = ec.methods.get("__str__")
        if m is None:
            continue
        body = [s for s in m.node.body if not (isinstance(s, ast.Expr) and isinstance(s.value, ast.Constant))]
        if not (len(body) == 1 and isinstance(body[0], ast.Return) and isinstance(body[0].value, ast.Constant) and isinstance(body[0].value.value, str)):
            continue
        word = body[0].value.value
        n_lit += 1
        site = f"{ec.file}:{m.node.lineno} {ec.name}.__str__"
        what = f"{ec.name} prints {word!r}, which parses back to {ec.name}"
        back = set(word_to_cls.get(word, set()))
        if word in word_to_type:
            back |= type_to_cls.get(word_to_type[word], set())
        # `continue` is only legal as a for-offset and parsed there
        if ec.name == "Continue" and word == "continue":
            res.ok("C12.R2", site, what, "offset keyword of the for tag")
            continue
        if ec.name in back:
            res.ok("C12.R2", site, what, f"lexer/parsers map {word!r} -> {sorted(back)}")
        else:
            res.fail("C12.R2", file=ec.file, line=m.node.lineno, qualname=f"{ec.name}.__str__", construct=f"{ec.name}.__str__ returns {word!r}", message=f"{ec.name} serialises as {word!r}, which the lexer/primitive parsers map to {sorted(back) or 'nothing'}: the literal is lost or changes meaning on reparse", what=what)
    res.floor("C12.R2", "nullary literal printers", n_lit, 5)

    # ------------------------------------------------------------------ R3 separators
    res.rule("C12.R3", "expression-side printers never join child expressions with an empty separator; keyword arguments print as name:value / name=value")
    n_join = 0
    printers = []
    for c in prog.all_classes():
        if c.module.relpath != "liquid2/builtin/expressions.py" and not prog.is_subclass(c, expr_base):
            continue
        m = c.methods.get("__str__")
        if m is not None and (prog.is_subclass(c, expr_base) or c.name in ("Filter", "KeywordArgument", "PositionalArgument", "Parameter")):
            printers.append((c, m))
    for c, m in printers:
        for call in ast.walk(m.node):
            if isinstance(call, ast.Call) and isinstance(call.func, ast.Attribute) and call.func.attr == "join" and isinstance(call.func.value, ast.Constant):
                arg0 = call.args[0] if call.args else None
                over_children = isinstance(arg0, (ast.GeneratorExp, ast.ListComp)) and any(is_self_attr(g.iter) or (isinstance(g.iter, ast.Call) and any(is_self_attr(a) for a in ast.walk(g.iter))) for g in arg0.generators)
                if not over_children:
                    continue  # joining already-delimited fragments collected in a local buffer
                n_join += 1
                sep = call.func.value.value
                site = f"{c.file}:{call.lineno} {c.name}.__str__"
                what = f"{c.name}.__str__ joins with {sep!r}"
                if c.name == "TemplateString":
                    res.ok("C12.R3", site, what, "template string parts are self-delimiting (${…})")
                elif sep == "":
                    res.fail("C12.R3", file=c.file, line=call.lineno, qualname=f"{c.name}.__str__", construct=f"{c.name}.__str__: {norm(call, 60)}", message=f"{c.name} prints its child expressions with no separator: adjacent arguments merge into one token (e.g. `slice: 1, 3` -> `slice: 13`)", what=what)
                else:
                    res.ok("C12.R3", site, what, "non-empty separator")
    res.floor("C12.R3", "join() calls in expression printers", n_join, 5)

    # ------------------------------------------------------------------ R4 segment quoting
    res.rule("C12.R4", "Path.__str__ emits a string segment bare (or after a dot) only under an RE_PROPERTY.fullmatch guard - including the first segment")
    path = prog.cls("liquid2.builtin.expressions.Path")
    ps = path.methods.get("__str__")
    if ps is None:
        raise AnalysisError("Path.__str__ vanished")
    n_seg = 0
    for n in ast.walk(ps.node):
        emitted: list[tuple[ast.AST, ast.AST]] = []
        if isinstance(n, ast.Assign) and isinstance(n.value, ast.List):
            emitted += [(n, e) for e in n.value.elts]
        if isinstance(n, ast.Call) and isinstance(n.func, ast.Attribute) and n.func.attr == "append" and n.args:
            emitted.append((n, n.args[0]))
        for stmt, e in emitted:
            sk = _fstring_skeleton(e)
            bare = False
            var = None
            if isinstance(e, ast.Name):
                bare, var = True, e.id
            elif isinstance(e, ast.Call) and isinstance(e.func, ast.Name) and e.func.id == "str" and e.args:
                bare = True
                var = norm(e.args[0])
            elif sk is not None and not sk.startswith("["):
                bare = True
                fv = [v for v in getattr(e, "values", []) if isinstance(v, ast.FormattedValue)]
                var = norm(fv[0].value) if fv else None
            if not bare:
                continue
            n_seg += 1
            guarded = False
            for a in ps.module.ancestors(stmt):
                if isinstance(a, ast.If) and "RE_PROPERTY.fullmatch" in norm(a.test) and any(stmt is x for b in a.body for x in ast.walk(b)):
                    guarded = True
                if a is ps.node:
                    break
            site = f"{path.file}:{stmt.lineno} Path.__str__"
            what = f"`{norm(e, 40)}` emitted bare only when it is a property name"
            if guarded:
                res.ok("C12.R4", site, what, "under RE_PROPERTY.fullmatch")
            else:
                res.fail("C12.R4", file=path.file, line=stmt.lineno, qualname="Path.__str__", construct=f"bare segment {norm(e, 40)}", message=f"Path.__str__ prints `{var}` without checking it is a plain property name: `['a b']` serialises as `a b`, which parses as something else", what=what)
    res.floor("C12.R4", "bare segment emissions", n_seg, 2)

    # ------------------------------------------------------------------ R5 whitespace-control markers
    res.rule("C12.R5", "every tag / output / comment opening printed by a __str__ carries a whitespace-control marker pair taken from a token (wc[0] after the opener, wc[1]/wc[-1] before the closer)")
    n_open = 0
    for nc in prog.subclasses(node_base):
        m = nc.methods.get("__str__")
        if m is None:
            continue
        in_fstring = {id(v) for js in ast.walk(m.node) if isinstance(js, ast.JoinedStr) for v in js.values}
        for cst in ast.walk(m.node):
            if isinstance(cst, ast.Constant) and isinstance(cst.value, str) and id(cst) not in in_fstring and re.search(r"\{%|%\}|\{\{|\}\}", cst.value):
                n_open += 1
                res.fail("C12.R5", file=nc.file, line=cst.lineno, qualname=f"{nc.name}.__str__", construct=f"{nc.name}: literal markup {cst.value!r}", message=f"{nc.name}.__str__ prints markup from a plain string literal ({cst.value!r}): the token's whitespace-control markers are not reproduced", what=f"{nc.name}: markup printed with wc markers")
        for js in [n for n in ast.walk(m.node) if isinstance(n, ast.JoinedStr)]:
            sk = _fstring_skeleton(js) or ""
            for mt in list(re.finditer(r"\{%(?!\x00)|\{\{(?!\x00)", sk)) + list(re.finditer(r"(?<!\x00)%\}|(?<!\x00)\}\}", sk)):
                n_open += 1
                res.fail("C12.R5", file=nc.file, line=js.lineno, qualname=f"{nc.name}.__str__", construct=f"{nc.name}: `{mt.group()}` not adjacent to a wc marker in {sk.replace(chr(0), '…')[:60]!r}", message=f"{nc.name}.__str__ prints `{mt.group()}` without an adjacent whitespace-control marker placeholder", what=f"{nc.name}: markup printed with wc markers")
            vals = js.values
            for i, v in enumerate(vals):
                if isinstance(v, ast.Constant) and isinstance(v.value, str):
                    for opener in ("{%", "{{"):
                        if v.value.endswith(opener):
                            n_open += 1
                            nxt = vals[i + 1] if i + 1 < len(vals) else None
                            site = f"{nc.file}:{js.lineno} {nc.name}.__str__"
                            what = f"{nc.name}: `{opener}` followed by a wc[0] marker"
                            if isinstance(nxt, ast.FormattedValue) and re.search(r"wc\[\d\]$", norm(nxt.value)):
                                res.ok("C12.R5", site, what, norm(nxt.value))
                            else:
                                res.fail("C12.R5", file=nc.file, line=js.lineno, qualname=f"{nc.name}.__str__", construct=f"{nc.name}: {opener} without wc[0]", message=f"{nc.name}.__str__ prints `{opener}` without the token's left whitespace-control marker: trimming is lost on reparse", what=what)
                    for closer in ("%}", "}}"):
                        if v.value.lstrip().startswith(closer) or v.value == closer:
                            prv = vals[i - 1] if i > 0 else None
                            n_open += 1
                            site = f"{nc.file}:{js.lineno} {nc.name}.__str__"
                            what = f"{nc.name}: `{closer}` preceded by a wc[1] marker"
                            if isinstance(prv, ast.FormattedValue) and re.search(r"wc\[-?\d\]$", norm(prv.value)):
                                res.ok("C12.R5", site, what, norm(prv.value))
                            else:
                                res.fail("C12.R5", file=nc.file, line=js.lineno, qualname=f"{nc.name}.__str__", construct=f"{nc.name}: {closer} without wc[1]", message=f"{nc.name}.__str__ prints `{closer}` without the token's right whitespace-control marker", what=what)
    res.floor("C12.R5", "printed openers/closers", n_open, 60)

    # ------------------------------------------------------------------ R6 pickle
    res.rule("C12.R6", "every class reachable from a Template supports pickle's default reconstruction: immutable-builtin subclasses with extra __new__ parameters define __getnewargs[_ex]__/__reduce__; every attribute assigned on an all-slots class is a declared slot; no lambda is stored on an AST object")
    n_pk = 0
    ast_classes = set(prog.subclasses(node_base)) | set(prog.subclasses(expr_base))
    for c in prog.all_classes():
        if c.module.relpath.startswith(("liquid2/builtin/", "liquid2/shopify/tags", "liquid2/token.py", "liquid2/ast.py", "liquid2/expression.py")) and c.name in ("Filter", "KeywordArgument", "PositionalArgument", "Parameter", "Macro", "Identifier", "MessageBlock", "Partial", "BoundArgs") or c.module.relpath == "liquid2/token.py":
            ast_classes.add(c)
    for c in sorted(ast_classes, key=lambda x: x.full):
        exts = prog.ext_ancestors(c)
        imm = [b for b in exts if b in ("str", "int", "tuple", "frozenset", "bytes", "float")]
        mro = prog.mro(c)
        if imm:
            n_pk += 1
            new = prog.find_method(c, "__new__")
            site = f"{c.file}:{c.node.lineno} {c.name}"
            what = f"{c.name}({imm[0]}) can be rebuilt by pickle"
            needs = False
            if new is not None:
                a = new.node.args
                required_kw = [p.arg for p, d in zip(a.kwonlyargs, a.kw_defaults) if d is None]
                required_pos = len(a.args) - len(a.defaults) - 1  # minus cls
                needs = bool(required_kw) or required_pos > 1
            has = any(prog.find_method(c, n) is not None for n in ("__getnewargs_ex__", "__getnewargs__", "__reduce__", "__reduce_ex__"))
            if not needs or has:
                res.ok("C12.R6", site, what, "reduce support present" if has else "__new__ needs only the value")
            else:
                res.fail("C12.R6", file=c.file, line=c.node.lineno, qualname=c.name, construct=f"{c.name}.__new__ requires extra arguments but no __getnewargs_ex__/__reduce__", message=f"{c.name} subclasses {imm[0]} with a __new__ that requires more than the value and defines no __getnewargs_ex__/__reduce__: pickle.loads of any template containing it raises TypeError", what=what)
        # slots completeness
        all_slots = all("__slots__" in k.class_attrs for k in mro) and not [b for b in exts if b not in ("abc.ABC", "ABC", "typing.Generic", "Generic", "object")]
        if all_slots:
            declared: set[str] = set()
            for k in mro:
                for x in ast.walk(k.class_attrs["__slots__"]):
                    if isinstance(x, ast.Constant) and isinstance(x.value, str):
                        declared.add(x.value)
            assigned: set[str] = set()
            for k in mro:
                for m_ in k.methods.values():
                    for n in ast.walk(m_.node):
                        if isinstance(n, ast.Attribute) and isinstance(n.ctx, ast.Store) and is_self_attr(n):
                            assigned.add(n.attr)
            n_pk += 1
            missing = assigned - declared
            site = f"{c.file}:{c.node.lineno} {c.name}"
            what = f"{c.name}: every assigned attribute is a declared slot"
            if missing:
                res.fail("C12.R6", file=c.file, line=c.node.lineno, qualname=c.name, construct=f"{c.name} assigns undeclared {sorted(missing)}", message=f"{c.name} (all-__slots__ hierarchy) assigns {sorted(missing)} which no class declares: AttributeError at construction", what=what)
            else:
                res.ok("C12.R6", site, what, f"{len(assigned)} attributes ⊆ {len(declared)} slots")
        # lambdas / local functions stored on self
        for m_ in c.methods.values():
            for n in ast.walk(m_.node):
                if isinstance(n, ast.Assign) and any(is_self_attr(t) for t in n.targets) and isinstance(n.value, ast.Lambda):
                    res.fail("C12.R6", file=c.file, line=n.lineno, qualname=m_.qualname, construct=n, message="a lambda is stored on an AST object: templates containing it cannot be pickled", what="no lambda stored on AST objects")
    # custom state hooks must carry every slot
    for c in list(ast_classes) + [prog.cls("liquid2.template.Template")]:
        gs = c.methods.get("__getstate__") or c.methods.get("__reduce__") or c.methods.get("__reduce_ex__")
        if gs is None:
            continue
        slots: set[str] = set()
        for k in prog.mro(c):
            sl = k.class_attrs.get("__slots__")
            if sl is not None:
                slots |= {x.value for x in ast.walk(sl) if isinstance(x, ast.Constant) and isinstance(x.value, str)}
        mentioned = {x.value for x in ast.walk(gs.node) if isinstance(x, ast.Constant) and isinstance(x.value, str)} | {x.attr for x in ast.walk(gs.node) if isinstance(x, ast.Attribute)}
        generic = any(isinstance(x, ast.Attribute) and x.attr == "__slots__" for x in ast.walk(gs.node))
        n_pk += 1
        missing = sorted(slots - mentioned - {"__weakref__", "__dict__"})
        what = f"{c.name}.{gs.name} carries every slot"
        if missing and not generic:
            res.fail("C12.R6", file=c.file, line=gs.node.lineno, qualname=f"{c.name}.{gs.name}", construct=f"{c.name}.{gs.name} omits {missing}", message=f"{c.name}.{gs.name} hand-picks the pickled state and leaves out {missing}: an unpickled object silently loses that data", what=what)
        else:
            res.ok("C12.R6", f"{c.file}:{gs.node.lineno} {c.name}.{gs.name}", what, "all slots mentioned")
    res.floor("C12.R6", "pickle obligations", n_pk, 40)

    # ------------------------------------------------------------------ R7 truthiness of AST objects
    res.rule("C12.R7", "AST nodes keep default (always-true) truthiness: printers and renderers test optional children with `if self.x:`, so a Node/Expression class defining __bool__/__len__ makes an empty child disappear from str(template)")
    n_truth = 0
    for c in sorted(set(prog.subclasses(node_base)) | set(prog.subclasses(expr_base)), key=lambda x: x.full):
        n_truth += 1
        bad = [m for m in ("__bool__", "__len__") if m in c.methods]
        site = f"{c.file}:{c.node.lineno} {c.name}"
        what = f"{c.name} does not override truthiness"
        if bad:
            # is truthiness of instances of this class actually relied on?
            users = []
            for k in list(prog.subclasses(node_base)) + list(prog.subclasses(expr_base)):
                for m_ in k.methods.values():
                    for t in ast.walk(m_.node):
                        if isinstance(t, (ast.If, ast.IfExp)) and isinstance(t.test, ast.Attribute) and is_self_attr(t.test):
                            users.append(f"{k.name}.{m_.name}: if {norm(t.test)}")
            res.fail("C12.R7", file=c.file, line=c.methods[bad[0]].node.lineno, qualname=f"{c.name}.{bad[0]}", construct=f"{c.name} defines {bad}", message=f"{c.name} defines {bad}: {len(users)} `if self.<child>:` presence tests (e.g. {users[:2]}) now treat an empty {c.name} as absent, so str(template) drops it (and its whitespace-control markers)", what=what)
        else:
            res.ok("C12.R7", site, what, "default object truthiness")
    res.floor("C12.R7", "AST classes checked for truthiness overrides", n_truth, 50)

    # ------------------------------------------------------------------ R8 printer completeness
    res.rule("C12.R8", "every constructor-supplied field that an AST class's behaviour reads (in its own non-printing methods, or through a typed `<expr>.field` anywhere in liquid2) is also read by its __str__ (directly or through self.helper()): str() cannot drop an argument the renderer uses")
    from sa.types import TypeApprox

    T = TypeApprox(prog)
    non_beh = {"__init__", "__str__", "__repr__", "__eq__", "__hash__", "__getstate__", "__setstate__", "__sizeof__", "__reduce__", "__getnewargs__"}
    r8_exempt = {
        ("CommentNode", "text"): "printed as str(self.token): the comment token spans the text",
        ("LiquidNode", "block"): "printed as str(self.token): the LinesToken carries every line statement",
        ("ContentNode", "left_trim"): "carried by the neighbouring markup's whitespace-control markers, which those nodes print (C12.R5)",
        ("ContentNode", "right_trim"): "carried by the neighbouring markup's whitespace-control markers (C12.R5)",
        ("TrueLiteral", "value"): "constant of the class: prints `true`",
        ("FalseLiteral", "value"): "constant of the class: prints `false`",
        ("_AnyExpression", "left"): "the case subject: printed once by CaseNode.__str__, not per `when`",
    }
    ext_reads: dict[str, dict[str, list[str]]] = {}
    for f in prog.all_functions():
        if f.name in non_beh:
            continue
        for n in ast.walk(f.node):
            if isinstance(n, ast.Attribute) and isinstance(n.ctx, ast.Load) and not is_self_attr(n):
                ci = T.class_of(f, T.of(f, n.value))
                if ci is not None:
                    for k in prog.mro(ci):
                        ext_reads.setdefault(k.full, {}).setdefault(n.attr, []).append(f.qualname)
    n_r8 = 0
    used_exempt = set()
    for c in sorted(set(prog.subclasses(node_base, strict=True)) | set(prog.subclasses(expr_base, strict=True)), key=lambda x: x.full):
        sm = prog.find_method(c, "__str__")
        if sm is None or sm.cls is None or sm.cls.full in ("liquid2.ast.Node", "liquid2.expression.Expression"):
            continue
        # fields stored from constructor parameters
        fields: dict[str, int] = {}
        for k in prog.mro(c):
            init = k.methods.get("__init__")
            if init is None:
                continue
            params = set(init.params())
            for n in ast.walk(init.node):
                if isinstance(n, ast.Assign):
                    for t in n.targets:
                        if is_self_attr(t) and t.attr not in fields and any(isinstance(x, ast.Name) and x.id in params for x in ast.walk(n.value)) and not any(is_self_attr(x) for x in ast.walk(n.value)):
                            fields[t.attr] = n.lineno
        if not fields:
            continue
        printed: set[str] = set()
        work, seen = [sm], set()
        while work:
            g = work.pop()
            if g.fid in seen:
                continue
            seen.add(g.fid)
            for n in ast.walk(g.node):
                if is_self_attr(n):
                    printed.add(n.attr)
                if isinstance(n, ast.Call) and isinstance(n.func, ast.Attribute) and isinstance(n.func.value, ast.Name) and n.func.value.id == "self":
                    h = prog.find_method(c, n.func.attr)
                    if h is not None:
                        work.append(h)
        beh: dict[str, list[str]] = {}
        for k in prog.mro(c):
            for m_ in k.methods.values():
                if m_.name in non_beh or m_.name == "parse":
                    continue
                for n in ast.walk(m_.node):
                    if is_self_attr(n) and isinstance(n.ctx, ast.Load):
                        beh.setdefault(n.attr, []).append(m_.qualname)
        for a, sites in ext_reads.get(c.full, {}).items():
            beh.setdefault(a, []).extend(sites)
        for fld, line in sorted(fields.items()):
            if fld in ("token", "blank") or fld not in beh:
                continue
            n_r8 += 1
            site = f"{c.file}:{line} {c.name}"
            what = f"{c.name}.__str__ prints `{fld}` (read by {sorted(set(beh[fld]))[0]})"
            if fld in printed:
                res.ok("C12.R8", site, what, "read by the printer")
            elif (c.name, fld) in r8_exempt:
                used_exempt.add((c.name, fld))
                res.ok("C12.R8", site, what, "exempt: " + r8_exempt[(c.name, fld)])
            else:
                res.fail("C12.R8", file=c.file, line=sm.node.lineno, qualname=f"{c.name}.__str__", construct=f"{c.name}.__str__ omits {fld}", message=f"{c.name}.{fld} is set by the constructor and read by {sorted(set(beh[fld]))[:3]} but {c.name}.__str__ never reads it: str(template) drops it and the reparsed template behaves differently", what=what)
    res.floor("C12.R8", "behaviour-relevant constructor fields", n_r8, 90)
    res.stats["C12.R8.unused_exemptions"] = sorted(f"{a}.{b}" for a, b in set(r8_exempt) - used_exempt)

    # ------------------------------------------------------------------ R9 behaviour does not depend on token kinds
    res.rule("C12.R9", "no method of a Node/Expression class other than its static parse / __str__ / __init__ inspects a token's kind (is_token_type, .type_): str() prints values, not token kinds (`offset: continue` prints as a quoted string), so behaviour keyed on the kind is lost by a round trip")
    n_r9 = 0
    for c in sorted(set(prog.subclasses(node_base)) | set(prog.subclasses(expr_base)), key=lambda x: x.full):
        for m_ in c.methods.values():
            if m_.name in ("parse", "__str__", "__init__") or any(d in ("staticmethod", "classmethod") for d in m_.decorators()):
                continue
            n_r9 += 1
            hits = [n for n in ast.walk(m_.node) if (isinstance(n, ast.Attribute) and n.attr == "type_") or (isinstance(n, ast.Call) and isinstance(n.func, ast.Name) and n.func.id == "is_token_type")]
            for h in hits:
                res.fail("C12.R9", file=c.file, line=h.lineno, qualname=m_.qualname, construct=f"{m_.qualname} inspects `{norm(h, 50)}`", message=f"{m_.qualname} decides behaviour from a token kind (`{norm(h, 50)}`): the printer emits the value only, so after str() and reparse the kind - and the behaviour - can differ", what=f"{m_.qualname} does not inspect token kinds")
    res.floor("C12.R9", "render/evaluate-side methods scanned for token-kind tests", n_r9, 200)
    res.ok("C12.R9", "liquid2 AST classes", f"{n_r9} methods", "none inspects a token kind")
