"""C12 - serialising a template and reparsing it preserves its behaviour (writer/reader agreement)."""

from __future__ import annotations

import ast
import re

from sa.report import AnalysisError
from sa.report import Result
from sa.report import norm
from sa.srcmodel import ClassInfo
from sa.srcmodel import FunctionInfo
from sa.srcmodel import Program
from sa.srcmodel import dotted
from sa.util import is_self_attr

META = {
    "technique": "writer/reader agreement lints: tag words printed by each Node.__str__ vs the registry name and the words "
    "its Tag.parse expects; nullary literal spellings vs the lexer keyword table and the primitive parsers; separator and "
    "segment-quoting rules on expression printers; whitespace-control marker pairing; pickle-protocol completeness of every "
    "class reachable from a Template",
    "level_text": "Decides necessary conditions of the round trip, each of the form 'the printer emits what the parser of "
    "that construct reads': tag and end-tag words, literal keywords, argument separators, quoting of every path "
    "segment including the first, a wc marker pair on every printed tag, and that every class stored in a Template can "
    "be reconstructed by pickle. Behavioural equality after reparse is not decided.",
    "level_note": "Trusts pickle's default reduce protocol (copyreg.__reduce_ex__: cls.__new__(cls, *getnewargs) then state). "
    "String quoting via repr and template-string printing are value-level and not decided.",
}
META["technique"] += "; symbolic evaluation of the printers' source over enumerated operator trees, re-parsed with a Pratt model whose table and associativity are read from the parser's source; string writer/reader escape-table agreement; number-form agreement against the lexer's FLOAT/INT rules; printer completeness; identifier-quoting flow from parse_string_or_identifier to __str__"
META["level_text"] += ' Also decided (R8-R13): no constructor field the renderer reads is missing from __str__ and no behaviour is keyed on token kinds; for every operator tree up to depth 3 the printed condition re-parses to the same tree; string text is written only with escapes the decoder maps back (no Python repr, `${` escaped); float/int literals print in a form the lexer reads back as the same kind and value; names accepted as quoted strings are printed through a quoting helper. Token-level printing of `{% liquid %}` line statements beyond path tokens is not decided.'
META["technique"] += "; symbolic evaluation of the path printers over 21 root/segment shapes read back with a model of the path grammar; declared-type lint for truthiness tests of optional scalars in printers"
META["technique"] += '; sibling comparator UnlessTag/UnlessNode vs IfTag/IfNode for parse, constructor and printer'
META["technique"] += '; sibling comparator decrement / increment'
META["technique"] += "; the opening of a tag carries self.token's markers; hash() only inside __hash__ (nothing process-dependent is pickled)"
META["level_text"] += " Also decided (R15, R16): Path.__str__/PathToken.__str__ print every root/segment shape as text that reads back as the same segments; no printer drops a legal empty/zero value of an optional str/int attribute."

TAGWORD = re.compile(r"\{%\x00?\s*([a-z_#]+)")


def _fstring_skeleton(e: ast.AST) -> str | None:
    """Concatenated constant text of an f-string / string concat, FormattedValue -> \\x00."""
    if isinstance(e, ast.Constant) and isinstance(e.value, str):
        return e.value
    if isinstance(e, ast.JoinedStr):
        out = []
        for v in e.values:
            if isinstance(v, ast.Constant):
                out.append(str(v.value))
            else:
                out.append("\x00")
        return "".join(out)
    if isinstance(e, ast.BinOp) and isinstance(e.op, ast.Add):
        a, b = _fstring_skeleton(e.left), _fstring_skeleton(e.right)
        if a is not None and b is not None:
            return a + b
    return None


def _str_skeletons(fn: ast.AST) -> list[str]:
    out = []
    for n in ast.walk(fn):
        if isinstance(n, (ast.JoinedStr,)):
            s = _fstring_skeleton(n)
            if s:
                out.append(s)
        elif isinstance(n, ast.Constant) and isinstance(n.value, str) and "{%" in n.value:
            out.append(n.value)
    return out



def _read_contributes(g: FunctionInfo, n: ast.AST) -> bool:
    """A read of self.<field> in a printer contributes to the printed text: it is in a value position, or it is (part of) the test of an
    `if` that selects statements which do something. `if self.limit is not None: pass` - what is left when the append is deleted -
    reads the field and prints nothing."""
    child = n
    for a in g.module.ancestors(n):
        if isinstance(a, (ast.If, ast.While)) and child is a.test:
            live = [st for st in list(a.body) + list(a.orelse) if not isinstance(st, ast.Pass) and not (isinstance(st, ast.Expr) and isinstance(st.value, ast.Constant))]
            return bool(live)
        if isinstance(a, ast.stmt):
            return True
        child = a
    return True


def _unicode_trim_rule(prog: Program, res: Result) -> None:
    """Printers = every __str__ in liquid2 plus the module-level helpers they call (transitively, same module)."""
    printers: dict[str, FunctionInfo] = {}
    work = [f for f in prog.all_functions() if f.name in ("__str__", "_str") and f.file not in ("liquid2/exceptions.py", "liquid2/undefined.py", "liquid2/static_analysis.py", "liquid2/messages.py")]
    while work:
        f = work.pop()
        if f.fid in printers:
            continue
        printers[f.fid] = f
        for c in ast.walk(f.node):
            if isinstance(c, ast.Call) and isinstance(c.func, ast.Name):
                g = f.module.functions.get(c.func.id)
                if g is not None and g.cls is None:
                    work.append(g)
            if isinstance(c, ast.Call) and isinstance(c.func, ast.Attribute) and isinstance(c.func.value, ast.Name) and c.func.value.id == "self" and f.cls is not None:
                g = prog.find_method(f.cls, c.func.attr)
                if g is not None:
                    work.append(g)
    probe = ast.parse("x = ''.join(buf).strip()")
    if not any(isinstance(c, ast.Call) and isinstance(c.func, ast.Attribute) and c.func.attr == "strip" and not c.args for c in ast.walk(probe)):
        raise AnalysisError("C12.R17 matcher self-check failed")
    n = 0
    for f in sorted(printers.values(), key=lambda f: (f.file, f.node.lineno)):
        n += 1
        bad = [c for c in ast.walk(f.node) if isinstance(c, ast.Call) and isinstance(c.func, ast.Attribute) and c.func.attr in ("strip", "lstrip", "rstrip", "split", "splitlines") and not c.args and not c.keywords and prog.enclosing_function(f.module, c) is f]
        if bad:
            res.fail("C12.R17", file=f.file, line=bad[0].lineno, qualname=f.qualname, construct=f"{f.qualname}: Unicode-aware .{bad[0].func.attr}() on printed text", message=f"{f.qualname} applies `.{bad[0].func.attr}()` without an argument to text it prints: Python removes every Unicode white-space character, and the lexer accepts U+00A0, U+2003 … inside a word - `echo a\u00a0` is printed as `echo a`, another variable", what=f"{f.qualname}: no Unicode-aware trimming of printed text")
    res.ok("C12.R17", "liquid2/**", f"{n} printer functions (every __str__ and the helpers they call) scanned", "no argument-less strip/split (findings listed separately if any)")
    res.floor("C12.R17", "printer functions scanned", n, 60)

def run(prog: Program, res: Result) -> None:  # noqa: PLR0912, PLR0915
    res.explanation = (
        "For each Node class the tag words in its __str__ f-strings are compared with the names under which its producing "
        "Tag classes are registered plus the words those Tags' parse methods pass to expect_tag/is_tag/parse_block(end=…). "
        "Literal classes are traced lexer word -> TokenType -> primitive-parser arm -> class -> __str__ constant."
    )
    res.not_decided += ["behavioural equality after reparse", "string quoting through repr(), template-string printing, liquid-tag line statements", "idempotence of repeated round trips"]
    res.trusted_base += ["pickle default protocol (copyreg)"]
    node_base = prog.cls("liquid2.ast.Node")
    expr_base = prog.cls("liquid2.expression.Expression")
    tag_nodes = prog.tag_nodes()

    # words each Tag class accepts
    def tag_words(tc: ClassInfo) -> set[str]:
        words: set[str] = set()
        for c in prog.mro(tc):
            for v in c.class_attrs.values():
                for x in ast.walk(v):
                    if isinstance(x, ast.Constant) and isinstance(x.value, str) and re.fullmatch(r"[a-z_]+", x.value):
                        words.add(x.value)
            for m in c.methods.values():
                for call in ast.walk(m.node):
                    if isinstance(call, ast.Call) and isinstance(call.func, ast.Attribute) and call.func.attr in ("expect_tag", "is_tag"):
                        for a in call.args:
                            if isinstance(a, ast.Constant) and isinstance(a.value, str):
                                words.add(a.value)
                    if isinstance(call, ast.Call):
                        for k in call.keywords:
                            if k.arg == "end":
                                for x in ast.walk(k.value):
                                    if isinstance(x, ast.Constant) and isinstance(x.value, str):
                                        words.add(x.value)
                for cmp_ in ast.walk(m.node):
                    if isinstance(cmp_, ast.Compare) and "name" in norm(cmp_.left):
                        for x in ast.walk(cmp_):
                            if isinstance(x, ast.Constant) and isinstance(x.value, str) and re.fullmatch(r"[a-z_]+", x.value):
                                words.add(x.value)
        return words

    producers: dict[str, list[tuple[str, ClassInfo]]] = {}
    for name, (tc, nodes) in tag_nodes.items():
        for nc in nodes:
            producers.setdefault(nc.full, []).append((name, tc))

    # ------------------------------------------------------------------ R1 tag keywords
    res.rule("C12.R1", "every tag word printed by a Node.__str__ is the registered name of a Tag that builds that node or a word that Tag's parse expects")
    n_words = 0
    lexer = prog.cls("liquid2.lexer.Lexer")
    for nc in prog.subclasses(node_base):
        m = nc.methods.get("__str__")
        if m is None:
            continue
        words = set()
        for sk in _str_skeletons(m.node):
            words |= set(TAGWORD.findall(sk))
        if not words:
            continue
        prods = producers.get(nc.full, [])
        # ConditionalBlockNode & co are built by several tags; a node class nobody registers is checked against all tags that mention it
        accepted: set[str] = set()
        for name, tc in prods:
            if not name.startswith("__"):
                accepted.add(name)
            accepted |= tag_words(tc)
        accepted.add("#")
        if any(name.startswith("__") for name, _ in prods):
            # lexer-level constructs (raw, comments): the words are spelled in the lexer's markup patterns
            for attr in ("MARKUP", "RE_COMMENT_TAG_CHUNK"):
                v = lexer.class_attrs.get(attr)
                if v is not None:
                    for x in ast.walk(v):
                        if isinstance(x, ast.Constant) and isinstance(x.value, str):
                            accepted |= set(re.findall(r"[a-z]{3,}", x.value))
        for w in sorted(words):
            n_words += 1
            site = f"{nc.file}:{m.node.lineno} {nc.name}.__str__"
            what = f"{nc.name} prints tag word `{w}`"
            if not prods:
                res.ok("C12.R1", site, what, "node class not produced by a registered tag (helper node)")
            elif w in accepted:
                res.ok("C12.R1", site, what, f"accepted by {sorted({n for n, _ in prods})}")
            else:
                res.fail("C12.R1", file=nc.file, line=m.node.lineno, qualname=f"{nc.name}.__str__", construct=f"{nc.name} prints `{w}`", message=f"{nc.name}.__str__ prints the tag word `{w}`, but the tags that build it ({sorted({n for n, _ in prods})}) are registered as / expect {sorted(accepted - {'#'})}: the serialised template does not parse back", what=what)
    res.floor("C12.R1", "printed tag words", n_words, 40)

    # ------------------------------------------------------------------ R2 nullary literals
    res.rule("C12.R2", "the constant printed by a nullary literal class is a word the lexer/primitive parsers map back to that class")
    kw = lexer.class_attrs.get("KEYWORD_MAP")
    if not isinstance(kw, ast.Dict):
        raise AnalysisError("Lexer.KEYWORD_MAP vanished")
    word_to_type = {k.value: (dotted(v) or "").split(".")[-1] for k, v in zip(kw.keys, kw.values) if isinstance(k, ast.Constant)}
    # primitive parser arms: TokenType.X -> class ; WORD value "w" -> class
    type_to_cls: dict[str, set[str]] = {}
    word_to_cls: dict[str, set[str]] = {}
    for fname in ("parse_primitive", "parse_boolean_primitive"):
        f = prog.fn("liquid2/builtin/expressions.py", fname)
        for n in ast.walk(f.node):
            if isinstance(n, ast.If):
                t = n.test
                ctor = None
                for b in n.body:
                    for c in ast.walk(b):
                        if isinstance(c, ast.Call) and isinstance(c.func, ast.Name) and c.func.id[:1].isupper() and ctor is None and isinstance(b, (ast.Return, ast.Assign)):
                            if (b.value if isinstance(b, (ast.Return, ast.Assign)) else None) is c:
                                ctor = c.func.id
                if ctor is None:
                    continue
                if isinstance(t, ast.Call) and (dotted(t.func) or "") == "is_token_type" and len(t.args) == 2:
                    type_to_cls.setdefault((dotted(t.args[1]) or "").split(".")[-1], set()).add(ctor)
                elif isinstance(t, ast.Compare) and norm(t.left) == "token.value" and isinstance(t.comparators[0], ast.Constant):
                    word_to_cls.setdefault(t.comparators[0].value, set()).add(ctor)
    n_lit = 0
    for ec in prog.subclasses(expr_base):
        m = ec.methods.get("__str__")
        if m is None:
            continue
        body = [s for s in m.node.body if not (isinstance(s, ast.Expr) and isinstance(s.value, ast.Constant))]
        if not (len(body) == 1 and isinstance(body[0], ast.Return) and isinstance(body[0].value, ast.Constant) and isinstance(body[0].value.value, str)):
            continue
        word = body[0].value.value
        n_lit += 1
        site = f"{ec.file}:{m.node.lineno} {ec.name}.__str__"
        what = f"{ec.name} prints {word!r}, which parses back to {ec.name}"
        back = set(word_to_cls.get(word, set()))
        if word in word_to_type:
            back |= type_to_cls.get(word_to_type[word], set())
        # `continue` is only legal as a for-offset and parsed there
        if ec.name == "Continue" and word == "continue":
            res.ok("C12.R2", site, what, "offset keyword of the for tag")
            continue
        if ec.name in back:
            res.ok("C12.R2", site, what, f"lexer/parsers map {word!r} -> {sorted(back)}")
        else:
            res.fail("C12.R2", file=ec.file, line=m.node.lineno, qualname=f"{ec.name}.__str__", construct=f"{ec.name}.__str__ returns {word!r}", message=f"{ec.name} serialises as {word!r}, which the lexer/primitive parsers map to {sorted(back) or 'nothing'}: the literal is lost or changes meaning on reparse", what=what)
    res.floor("C12.R2", "nullary literal printers", n_lit, 5)

    # ------------------------------------------------------------------ R3 separators
    res.rule("C12.R3", "expression-side printers never join child expressions with an empty separator; keyword arguments print as name:value / name=value")
    n_join = 0
    printers = []
    for c in prog.all_classes():
        if c.module.relpath != "liquid2/builtin/expressions.py" and not prog.is_subclass(c, expr_base):
            continue
        m = c.methods.get("__str__")
        if m is not None and (prog.is_subclass(c, expr_base) or c.name in ("Filter", "KeywordArgument", "PositionalArgument", "Parameter")):
            printers.append((c, m))
    for c, m in printers:
        for call in ast.walk(m.node):
            if isinstance(call, ast.Call) and isinstance(call.func, ast.Attribute) and call.func.attr == "join" and isinstance(call.func.value, ast.Constant):
                arg0 = call.args[0] if call.args else None
                over_children = isinstance(arg0, (ast.GeneratorExp, ast.ListComp)) and any(is_self_attr(g.iter) or (isinstance(g.iter, ast.Call) and any(is_self_attr(a) for a in ast.walk(g.iter))) for g in arg0.generators)
                if not over_children:
                    continue  # joining already-delimited fragments collected in a local buffer
                n_join += 1
                sep = call.func.value.value
                site = f"{c.file}:{call.lineno} {c.name}.__str__"
                what = f"{c.name}.__str__ joins with {sep!r}"
                if c.name == "TemplateString":
                    res.ok("C12.R3", site, what, "template string parts are self-delimiting (${…})")
                elif sep == "":
                    res.fail("C12.R3", file=c.file, line=call.lineno, qualname=f"{c.name}.__str__", construct=f"{c.name}.__str__: {norm(call, 60)}", message=f"{c.name} prints its child expressions with no separator: adjacent arguments merge into one token (e.g. `slice: 1, 3` -> `slice: 13`)", what=what)
                else:
                    res.ok("C12.R3", site, what, "non-empty separator")
    res.floor("C12.R3", "join() calls in expression printers", n_join, 5)

    # ------------------------------------------------------------------ R4 segment quoting
    res.rule("C12.R4", "Path.__str__ and its token-level sibling PathToken.__str__ emit a string segment bare (or after a dot) only under an RE_PROPERTY.fullmatch guard - including the first segment")
    n_seg = 0
    for path in (prog.cls("liquid2.builtin.expressions.Path"), prog.cls("liquid2.token.PathToken")):
        ps = _printer_body(path)
        for n in ast.walk(ps.node):
            emitted: list[tuple[ast.AST, ast.AST]] = []
            if isinstance(n, ast.Assign) and isinstance(n.value, ast.List):
                emitted += [(n, e) for e in n.value.elts]
            if isinstance(n, ast.Call) and isinstance(n.func, ast.Attribute) and n.func.attr == "append" and n.args:
                emitted.append((n, n.args[0]))
            for stmt, e in emitted:
                sk = _fstring_skeleton(e)
                bare = False
                var = None
                if isinstance(e, ast.Name):
                    bare, var = True, e.id
                elif isinstance(e, ast.Call) and isinstance(e.func, ast.Name) and e.func.id == "str" and e.args:
                    bare = True
                    var = norm(e.args[0])
                elif sk is not None and not sk.startswith("["):
                    bare = True
                    fv = [v for v in getattr(e, "values", []) if isinstance(v, ast.FormattedValue)]
                    var = norm(fv[0].value) if fv else None
                if not bare:
                    continue
                n_seg += 1
                guarded = False
                for a in ps.module.ancestors(stmt):
                    if isinstance(a, ast.If) and "RE_PROPERTY.fullmatch" in norm(a.test):
                        t = norm(a.test)
                        negative = "not RE_PROPERTY.fullmatch" in t
                        in_body = any(stmt is x for b in a.body for x in ast.walk(b))
                        in_else = any(stmt is x for b in a.orelse for x in ast.walk(b))
                        neg_ok = negative and " or " not in t
                        if negative and not neg_ok and isinstance(a.test, ast.BoolOp) and isinstance(a.test.op, ast.And) and len(a.test.values) == 2:
                            # isinstance(v, str) and (not F(v) or X):  the else branch holds  not-a-str  or  (F(v) and not X)
                            second = a.test.values[1]
                            disj = second.values if isinstance(second, ast.BoolOp) and isinstance(second.op, ast.Or) else [second]
                            neg_ok = norm(a.test.values[0]).startswith("isinstance(") and any(norm(d).startswith("not RE_PROPERTY.fullmatch") for d in disj)
                        if (in_body and not negative) or (in_else and neg_ok):
                            guarded = True
                    if a is ps.node:
                        break
                site = f"{path.file}:{stmt.lineno} {path.name}.__str__"
                what = f"`{norm(e, 40)}` emitted bare only when it is a property name"
                if guarded:
                    res.ok("C12.R4", site, what, "under RE_PROPERTY.fullmatch")
                else:
                    res.fail("C12.R4", file=path.file, line=stmt.lineno, qualname=f"{path.name}.__str__", construct=f"bare segment {norm(e, 40)}", message=f"{path.name}.__str__ prints `{var}` without checking it is a plain property name: `['a b']` serialises as `a b`, which parses as something else", what=what)
    res.floor("C12.R4", "bare segment emissions", n_seg, 4)
    # a root that stands alone must not be a word the lexer/parser reads as something else
    tok_mod = prog.mod("liquid2/token.py")
    rw = tok_mod.globals_.get("RESERVED_WORDS")
    reserved = _literal_str_set(rw)
    lexer_cls = prog.cls("liquid2.lexer.Lexer")
    kw = lexer_cls.class_attrs.get("KEYWORD_MAP")
    kw_words = {k.value for k in kw.keys if isinstance(k, ast.Constant)} if isinstance(kw, ast.Dict) else set()
    special = set()
    exm = prog.mod("liquid2/builtin/expressions.py")
    for fname in ("parse_primitive", "parse_boolean_primitive"):
        f = exm.functions.get(fname)
        if f is not None:
            for c in ast.walk(f.node):
                if isinstance(c, ast.Compare) and norm(c.left) == "token.value" and isinstance(c.ops[0], ast.Eq) and isinstance(c.comparators[0], ast.Constant) and isinstance(c.comparators[0].value, str):
                    special.add(c.comparators[0].value)
    # contextual keywords: every word any parse function compares a token's `.value` against (for-tag arguments, `continue` …)
    for pf in prog.all_functions():
        if not (pf.name == "parse" or pf.name.startswith(("parse_", "_parse"))):
            continue
        for c in ast.walk(pf.node):
            if isinstance(c, ast.Match) and isinstance(c.subject, ast.Attribute) and c.subject.attr == "value":
                for case in c.cases:
                    for x in ast.walk(case.pattern):
                        if isinstance(x, ast.MatchValue) and isinstance(x.value, ast.Constant) and isinstance(x.value.value, str):
                            special.add(x.value.value)
            elif isinstance(c, ast.Compare) and isinstance(c.left, ast.Attribute) and c.left.attr == "value" and len(c.ops) == 1 and isinstance(c.ops[0], (ast.Eq, ast.NotEq, ast.In, ast.NotIn)):
                r_ = c.comparators[0]
                for x in r_.elts if isinstance(r_, (ast.Tuple, ast.List, ast.Set)) else [r_]:
                    if isinstance(x, ast.Constant) and isinstance(x.value, str) and re.fullmatch(r"[A-Za-z_][A-Za-z0-9_]*", x.value):
                        special.add(x.value)
    res.floor("C12.R4", "lexer keywords", len(kw_words), 10)
    res.floor("C12.R4", "contextual keywords compared with token values", len(special), 4)
    what = "token.RESERVED_WORDS covers every lexer keyword and every word a parse function compares a token's value with (primitive literals, for-tag arguments, `continue`)"
    missing = sorted((kw_words | special) - (reserved or set()))
    if reserved is not None and not missing:
        res.ok("C12.R4", f"{tok_mod.relpath} RESERVED_WORDS", what, f"{len(reserved)} words")
    else:
        res.fail("C12.R4", file=tok_mod.relpath, line=1, qualname="RESERVED_WORDS", construct=f"RESERVED_WORDS misses {missing}" if reserved is not None else "RESERVED_WORDS not found", message=f"the printers' reserved-word table {'misses ' + str(missing) if reserved is not None else 'is missing'}: a variable or name spelled like one of these words is printed bare and read back as the keyword/literal", what=what)
    for path, fname in ((prog.cls("liquid2.builtin.expressions.Path"), "__str__"), (prog.cls("liquid2.token.PathToken"), "__str__")):
        m = _printer_body(path)
        what = f"{path.name}.{fname} consults RESERVED_WORDS for a root that stands alone"
        if any(isinstance(x, ast.Name) and x.id == "RESERVED_WORDS" for x in ast.walk(m.node)):
            res.ok("C12.R4", f"{m.file}:{m.node.lineno} {path.name}.{fname}", what, "mentions RESERVED_WORDS")
        else:
            res.fail("C12.R4", file=m.file, line=m.node.lineno, qualname=f"{path.name}.{fname}", construct=f"{path.name}.{fname} ignores reserved words", message=f"{path.name}.{fname} prints a single-segment path bare whenever it looks like a property name: `['true']`, `['nil']`, `['empty']` are printed as the literals true / nil / empty", what=what)
    idf = exm.functions.get("identifier_str")
    if idf is not None:
        what = "identifier_str quotes reserved words"
        if any(isinstance(x, ast.Name) and x.id == "RESERVED_WORDS" for x in ast.walk(idf.node)):
            res.ok("C12.R4", f"{idf.file}:{idf.node.lineno} identifier_str", what, "mentions RESERVED_WORDS")
        else:
            res.fail("C12.R4", file=idf.file, line=idf.node.lineno, qualname="identifier_str", construct="identifier_str ignores reserved words", message="identifier_str prints a name spelled like a keyword bare: `{% macro 'if' %}` / `{% cycle 'true': … %}` do not parse back", what=what)

    # ------------------------------------------------------------------ R5 whitespace-control markers
    res.rule("C12.R5", "every tag / output / comment opening printed by a __str__ carries a whitespace-control marker pair taken from a token (wc[0] after the opener, wc[1]/wc[-1] before the closer)")
    n_open = 0
    for nc in list(prog.subclasses(node_base)) + list(prog.subclasses(prog.cls("liquid2.token.TokenT"), strict=True)):  # AST printers and the token-level printers of line statements
        m = nc.methods.get("__str__")
        if m is None:
            continue
        in_fstring = {id(v) for js in ast.walk(m.node) if isinstance(js, ast.JoinedStr) for v in js.values}
        for cst in ast.walk(m.node):
            if isinstance(cst, ast.Constant) and isinstance(cst.value, str) and id(cst) not in in_fstring and re.search(r"\{%|%\}|\{\{|\}\}", cst.value):
                n_open += 1
                res.fail("C12.R5", file=nc.file, line=cst.lineno, qualname=f"{nc.name}.__str__", construct=f"{nc.name}: literal markup {cst.value!r}", message=f"{nc.name}.__str__ prints markup from a plain string literal ({cst.value!r}): the token's whitespace-control markers are not reproduced", what=f"{nc.name}: markup printed with wc markers")
        for js in [n for n in ast.walk(m.node) if isinstance(n, ast.JoinedStr)]:
            sk = _fstring_skeleton(js) or ""
            for mt in list(re.finditer(r"\{%(?!\x00)|\{\{(?!\x00)", sk)) + list(re.finditer(r"(?<!\x00)%\}|(?<!\x00)\}\}", sk)):
                if nc.name == "BlockCommentToken":
                    continue  # `{% comment %}…{% endcomment %}`: the text between the two tags is never output, so the two inner markers (not recorded by the lexer) trim nothing
                n_open += 1
                res.fail("C12.R5", file=nc.file, line=js.lineno, qualname=f"{nc.name}.__str__", construct=f"{nc.name}: `{mt.group()}` not adjacent to a wc marker in {sk.replace(chr(0), '…')[:60]!r}", message=f"{nc.name}.__str__ prints `{mt.group()}` without an adjacent whitespace-control marker placeholder", what=f"{nc.name}: markup printed with wc markers")
            vals = js.values
            for i, v in enumerate(vals):
                if isinstance(v, ast.Constant) and isinstance(v.value, str):
                    for opener in ("{%", "{{"):
                        if v.value.endswith(opener):
                            n_open += 1
                            nxt = vals[i + 1] if i + 1 < len(vals) else None
                            site = f"{nc.file}:{js.lineno} {nc.name}.__str__"
                            what = f"{nc.name}: `{opener}` followed by a wc[0] marker"
                            if isinstance(nxt, ast.FormattedValue) and re.search(r"wc\[\d\]$", norm(nxt.value)):
                                res.ok("C12.R5", site, what, norm(nxt.value))
                            else:
                                res.fail("C12.R5", file=nc.file, line=js.lineno, qualname=f"{nc.name}.__str__", construct=f"{nc.name}: {opener} without wc[0]", message=f"{nc.name}.__str__ prints `{opener}` without the token's left whitespace-control marker: trimming is lost on reparse", what=what)
                    for closer in ("%}", "}}"):
                        if v.value.lstrip().startswith(closer) or v.value == closer:
                            prv = vals[i - 1] if i > 0 else None
                            n_open += 1
                            site = f"{nc.file}:{js.lineno} {nc.name}.__str__"
                            what = f"{nc.name}: `{closer}` preceded by a wc[1] marker"
                            if isinstance(prv, ast.FormattedValue) and re.search(r"wc\[-?\d\]$", norm(prv.value)):
                                res.ok("C12.R5", site, what, norm(prv.value))
                            else:
                                res.fail("C12.R5", file=nc.file, line=js.lineno, qualname=f"{nc.name}.__str__", construct=f"{nc.name}: {closer} without wc[1]", message=f"{nc.name}.__str__ prints `{closer}` without the token's right whitespace-control marker", what=what)
        # each opener's marker and the next closer's marker are the left and right marker of the same token
        for js in [n for n in ast.walk(m.node) if isinstance(n, ast.JoinedStr)]:
            vals = js.values
            # constants can hold a closer and the next opener at once ("%}…{%"): order within the f-string is close-then-open
            seq_sorted: list[tuple[str, str, int]] = []
            for i, v in enumerate(vals):
                if isinstance(v, ast.Constant) and isinstance(v.value, str):
                    if (v.value.lstrip().startswith(("%}", "}}")) or v.value in ("%}", "}}")) and i > 0 and isinstance(vals[i - 1], ast.FormattedValue):
                        mm = re.fullmatch(r"(.+)\.wc\[(-?\d)\]", norm(vals[i - 1].value))
                        if mm:
                            seq_sorted.append(("close", mm.group(1), int(mm.group(2))))
                    if v.value.endswith(("{%", "{{")) and i + 1 < len(vals) and isinstance(vals[i + 1], ast.FormattedValue):
                        mm = re.fullmatch(r"(.+)\.wc\[(-?\d)\]", norm(vals[i + 1].value))
                        if mm:
                            seq_sorted.append(("open", mm.group(1), int(mm.group(2))))
            pend: tuple[str, str, int] | None = None
            for kind_, tok_, idx_ in seq_sorted:
                if kind_ == "open":
                    pend = (kind_, tok_, idx_)
                    continue
                if pend is None:
                    continue
                n_open += 1
                site = f"{nc.file}:{js.lineno} {nc.name}.__str__"
                what = f"{nc.name}: `{pend[1]}.wc[{pend[2]}]` … `{tok_}.wc[{idx_}]` are the left and right marker of one token"
                ok_pair = pend[1] == tok_ and (pend[2], idx_) in ((0, 1), (0, -1), (2, 3), (2, -1))
                if ok_pair:
                    res.ok("C12.R5", site, what, "left marker after the opener, right marker before the closer")
                else:
                    res.fail("C12.R5", file=nc.file, line=js.lineno, qualname=f"{nc.name}.__str__", construct=f"{nc.name}: markers {pend[1]}.wc[{pend[2]}] / {tok_}.wc[{idx_}] around one tag", message=f"{nc.name}.__str__ prints a tag whose opening marker is `{pend[1]}.wc[{pend[2]}]` and whose closing marker is `{tok_}.wc[{idx_}]`: not the left and right marker of the same token, so str(template) moves or swaps whitespace control", what=what)
                pend = None
    res.floor("C12.R5", "printed openers/closers", n_open, 60)

    # ------------------------------------------------------------------ R6 pickle
    res.rule("C12.R6", "every class reachable from a Template supports pickle's default reconstruction: immutable-builtin subclasses with extra __new__ parameters define __getnewargs[_ex]__/__reduce__; every attribute assigned on an all-slots class is a declared slot; no lambda is stored on an AST object")
    n_pk = 0
    ast_classes = set(prog.subclasses(node_base)) | set(prog.subclasses(expr_base))
    for c in prog.all_classes():
        if c.module.relpath.startswith(("liquid2/builtin/", "liquid2/shopify/tags", "liquid2/token.py", "liquid2/ast.py", "liquid2/expression.py")) and c.name in ("Filter", "KeywordArgument", "PositionalArgument", "Parameter", "Macro", "Identifier", "MessageBlock", "Partial", "BoundArgs") or c.module.relpath == "liquid2/token.py":
            ast_classes.add(c)
    for c in sorted(ast_classes, key=lambda x: x.full):
        exts = prog.ext_ancestors(c)
        imm = [b for b in exts if b in ("str", "int", "tuple", "frozenset", "bytes", "float")]
        mro = prog.mro(c)
        if imm:
            n_pk += 1
            new = prog.find_method(c, "__new__")
            site = f"{c.file}:{c.node.lineno} {c.name}"
            what = f"{c.name}({imm[0]}) can be rebuilt by pickle"
            needs = False
            if new is not None:
                a = new.node.args
                required_kw = [p.arg for p, d in zip(a.kwonlyargs, a.kw_defaults) if d is None]
                required_pos = len(a.args) - len(a.defaults) - 1  # minus cls
                needs = bool(required_kw) or required_pos > 1
            has = any(prog.find_method(c, n) is not None for n in ("__getnewargs_ex__", "__getnewargs__", "__reduce__", "__reduce_ex__"))
            if not needs or has:
                res.ok("C12.R6", site, what, "reduce support present" if has else "__new__ needs only the value")
            else:
                res.fail("C12.R6", file=c.file, line=c.node.lineno, qualname=c.name, construct=f"{c.name}.__new__ requires extra arguments but no __getnewargs_ex__/__reduce__", message=f"{c.name} subclasses {imm[0]} with a __new__ that requires more than the value and defines no __getnewargs_ex__/__reduce__: pickle.loads of any template containing it raises TypeError", what=what)
        if imm:
            # the value handed back to __new__ is the object's own value: the conversion used to take it is the builtin's, not an override
            conv = {"str": "__str__", "int": "__int__", "float": "__float__", "repr": "__repr__", "format": "__format__", "bytes": "__bytes__"}
            for gn in ("__getnewargs_ex__", "__getnewargs__", "__reduce__", "__reduce_ex__", "__getstate__"):
                g = prog.find_method(c, gn)
                if g is None:
                    continue
                used: set[str] = set()
                for x in ast.walk(g.node):
                    if isinstance(x, ast.Call) and isinstance(x.func, ast.Name) and x.func.id in conv and x.args and isinstance(x.args[0], ast.Name) and x.args[0].id == "self":
                        used.add(conv[x.func.id])
                    if isinstance(x, ast.FormattedValue) and isinstance(x.value, ast.Name) and x.value.id == "self":
                        used |= {"__format__", "__str__"} if x.conversion == -1 else {"__repr__" if x.conversion == ord("r") else "__str__"}
                for d in sorted(used):
                    n_pk += 1
                    ov = prog.find_method(c, d)
                    site = f"{c.file}:{g.node.lineno} {c.name}.{gn}"
                    what = f"{c.name}.{gn} takes the value to rebuild with through {d}, which is the builtin {imm[0]}'s"
                    if ov is None:
                        res.ok("C12.R6", site, what, f"{c.name} does not override {d}")
                    else:
                        res.fail("C12.R6", file=c.file, line=ov.node.lineno, qualname=f"{c.name}.{d}", construct=f"{c.name}.{gn} rebuilds from {d}, which {c.name} overrides", message=f"{c.name}.{gn} hands `{d[2:-2]}(self)` to __new__ when a template is unpickled, but {c.name} overrides {d} (a display form): the rebuilt object holds the display text, not the original value - names written with quotes no longer match after a pickle round trip", what=what)
        # slots completeness
        all_slots = all("__slots__" in k.class_attrs for k in mro) and not [b for b in exts if b not in ("abc.ABC", "ABC", "typing.Generic", "Generic", "object")]
        if all_slots:
            declared: set[str] = set()
            for k in mro:
                for x in ast.walk(k.class_attrs["__slots__"]):
                    if isinstance(x, ast.Constant) and isinstance(x.value, str):
                        declared.add(x.value)
            assigned: set[str] = set()
            for k in mro:
                for m_ in k.methods.values():
                    for n in ast.walk(m_.node):
                        if isinstance(n, ast.Attribute) and isinstance(n.ctx, ast.Store) and is_self_attr(n):
                            assigned.add(n.attr)
            n_pk += 1
            missing = assigned - declared
            site = f"{c.file}:{c.node.lineno} {c.name}"
            what = f"{c.name}: every assigned attribute is a declared slot"
            if missing:
                res.fail("C12.R6", file=c.file, line=c.node.lineno, qualname=c.name, construct=f"{c.name} assigns undeclared {sorted(missing)}", message=f"{c.name} (all-__slots__ hierarchy) assigns {sorted(missing)} which no class declares: AttributeError at construction", what=what)
            else:
                res.ok("C12.R6", site, what, f"{len(assigned)} attributes ⊆ {len(declared)} slots")
        # lambdas / local functions stored on self
        for m_ in c.methods.values():
            for n in ast.walk(m_.node):
                if isinstance(n, ast.Assign) and any(is_self_attr(t) for t in n.targets) and isinstance(n.value, ast.Lambda):
                    res.fail("C12.R6", file=c.file, line=n.lineno, qualname=m_.qualname, construct=n, message="a lambda is stored on an AST object: templates containing it cannot be pickled", what="no lambda stored on AST objects")
    # custom state hooks must carry every slot
    for c in list(ast_classes) + [prog.cls("liquid2.template.Template")]:
        gs = c.methods.get("__getstate__") or c.methods.get("__reduce__") or c.methods.get("__reduce_ex__")
        if gs is None:
            continue
        slots: set[str] = set()
        for k in prog.mro(c):
            sl = k.class_attrs.get("__slots__")
            if sl is not None:
                slots |= {x.value for x in ast.walk(sl) if isinstance(x, ast.Constant) and isinstance(x.value, str)}
        mentioned = {x.value for x in ast.walk(gs.node) if isinstance(x, ast.Constant) and isinstance(x.value, str)} | {x.attr for x in ast.walk(gs.node) if isinstance(x, ast.Attribute)}
        generic = any(isinstance(x, ast.Attribute) and x.attr == "__slots__" for x in ast.walk(gs.node))
        n_pk += 1
        missing = sorted(slots - mentioned - {"__weakref__", "__dict__"})
        what = f"{c.name}.{gs.name} carries every slot"
        if missing and not generic:
            res.fail("C12.R6", file=c.file, line=gs.node.lineno, qualname=f"{c.name}.{gs.name}", construct=f"{c.name}.{gs.name} omits {missing}", message=f"{c.name}.{gs.name} hand-picks the pickled state and leaves out {missing}: an unpickled object silently loses that data", what=what)
        else:
            res.ok("C12.R6", f"{c.file}:{gs.node.lineno} {c.name}.{gs.name}", what, "all slots mentioned")
    res.floor("C12.R6", "pickle obligations", n_pk, 40)
    # calling a subscripted generic class stores the alias (with any forward reference) on the instance as __orig_class__:
    # objects reachable from a Template (env -> loader -> cache) then cannot be pickled
    n_gen = 0
    for mod_ in prog.modules.values():
        for c_ in ast.walk(mod_.tree):
            if isinstance(c_, ast.Call):
                n_gen += 1
                if isinstance(c_.func, ast.Subscript) and isinstance(c_.func.value, (ast.Name, ast.Attribute)):
                    r_ = prog.resolve(mod_, dotted(c_.func.value) or "")
                    if isinstance(r_, ClassInfo):
                        res.fail("C12.R6", file=mod_.relpath, line=c_.lineno, qualname=prog.qual_at(mod_, c_), construct=f"{norm(c_.func, 50)}(…) instantiates a subscripted generic", message=f"`{norm(c_, 60)}` calls a subscripted generic class: the instance keeps the alias as __orig_class__ (here with a string forward reference), so it - and every Template whose environment reaches it - cannot be pickled", what="no instantiation of a subscripted generic class")
    res.floor("C12.R6", "calls scanned for subscripted-generic instantiation", n_gen, 3000)

    # ------------------------------------------------------------------ R7 truthiness of AST objects
    res.rule("C12.R7", "AST nodes keep default (always-true) truthiness: printers and renderers test optional children with `if self.x:`, so a Node/Expression class defining __bool__/__len__ makes an empty child disappear from str(template)")
    n_truth = 0
    for c in sorted(set(prog.subclasses(node_base)) | set(prog.subclasses(expr_base)), key=lambda x: x.full):
        n_truth += 1
        bad = [m for m in ("__bool__", "__len__") if m in c.methods]
        site = f"{c.file}:{c.node.lineno} {c.name}"
        what = f"{c.name} does not override truthiness"
        if bad:
            # is truthiness of instances of this class actually relied on?
            users = []
            for k in list(prog.subclasses(node_base)) + list(prog.subclasses(expr_base)):
                for m_ in k.methods.values():
                    for t in ast.walk(m_.node):
                        if isinstance(t, (ast.If, ast.IfExp)) and isinstance(t.test, ast.Attribute) and is_self_attr(t.test):
                            users.append(f"{k.name}.{m_.name}: if {norm(t.test)}")
            res.fail("C12.R7", file=c.file, line=c.methods[bad[0]].node.lineno, qualname=f"{c.name}.{bad[0]}", construct=f"{c.name} defines {bad}", message=f"{c.name} defines {bad}: {len(users)} `if self.<child>:` presence tests (e.g. {users[:2]}) now treat an empty {c.name} as absent, so str(template) drops it (and its whitespace-control markers)", what=what)
        else:
            res.ok("C12.R7", site, what, "default object truthiness")
    res.floor("C12.R7", "AST classes checked for truthiness overrides", n_truth, 50)

    # ------------------------------------------------------------------ R8 printer completeness
    res.rule("C12.R8", "every constructor-supplied field that an AST class's behaviour reads (in its own non-printing methods, or through a typed `<expr>.field` anywhere in liquid2) is also read by its __str__ (directly or through self.helper()): str() cannot drop an argument the renderer uses")
    from sa.types import TypeApprox

    T = TypeApprox(prog)
    non_beh = {"__init__", "__str__", "__repr__", "__eq__", "__hash__", "__getstate__", "__setstate__", "__sizeof__", "__reduce__", "__getnewargs__"}
    r8_exempt = {
        ("CommentNode", "text"): "printed as str(self.token): the comment token spans the text",
        ("LiquidNode", "block"): "printed as str(self.token): the LinesToken carries every line statement",
        ("ContentNode", "left_trim"): "carried by the neighbouring markup's whitespace-control markers, which those nodes print (C12.R5)",
        ("ContentNode", "right_trim"): "carried by the neighbouring markup's whitespace-control markers (C12.R5)",
        ("TrueLiteral", "value"): "constant of the class: prints `true`",
        ("FalseLiteral", "value"): "constant of the class: prints `false`",
        ("_AnyExpression", "left"): "the case subject: printed once by CaseNode.__str__, not per `when`",
    }
    ext_reads: dict[str, dict[str, list[str]]] = {}
    for f in prog.all_functions():
        if f.name in non_beh:
            continue
        for n in ast.walk(f.node):
            if isinstance(n, ast.Attribute) and isinstance(n.ctx, ast.Load) and not is_self_attr(n):
                ci = T.class_of(f, T.of(f, n.value))
                if ci is not None:
                    for k in prog.mro(ci):
                        ext_reads.setdefault(k.full, {}).setdefault(n.attr, []).append(f.qualname)
    n_r8 = 0
    used_exempt = set()
    for c in sorted(set(prog.subclasses(node_base, strict=True)) | set(prog.subclasses(expr_base, strict=True)), key=lambda x: x.full):
        sm = prog.find_method(c, "__str__")
        if sm is None or sm.cls is None or sm.cls.full in ("liquid2.ast.Node", "liquid2.expression.Expression"):
            continue
        # fields stored from constructor parameters
        fields: dict[str, int] = {}
        for k in prog.mro(c):
            init = k.methods.get("__init__")
            if init is None:
                continue
            params = set(init.params())
            for n in ast.walk(init.node):
                if isinstance(n, ast.Assign):
                    for t in n.targets:
                        if is_self_attr(t) and t.attr not in fields and any(isinstance(x, ast.Name) and x.id in params for x in ast.walk(n.value)) and not any(is_self_attr(x) for x in ast.walk(n.value)):
                            fields[t.attr] = n.lineno
        if not fields:
            continue
        printed: set[str] = set()
        work, seen = [sm], set()
        while work:
            g = work.pop()
            if g.fid in seen:
                continue
            seen.add(g.fid)
            for n in ast.walk(g.node):
                if is_self_attr(n) and _read_contributes(g, n):
                    printed.add(n.attr)
                if isinstance(n, ast.Call) and isinstance(n.func, ast.Attribute) and isinstance(n.func.value, ast.Name) and n.func.value.id == "self":
                    h = prog.find_method(c, n.func.attr)
                    if h is not None:
                        work.append(h)
                # a module-level printer handed `self`: what it reads on that parameter is printed
                if isinstance(n, ast.Call) and isinstance(n.func, ast.Name) and any(isinstance(a, ast.Name) and a.id == "self" for a in n.args):
                    r = prog.resolve(g.module, n.func.id)
                    if hasattr(r, "node") and hasattr(r, "params"):
                        idx = next(i for i, a in enumerate(n.args) if isinstance(a, ast.Name) and a.id == "self")
                        ps = r.params()
                        if idx < len(ps):
                            pn = ps[idx]
                            for x in ast.walk(r.node):
                                if isinstance(x, ast.Attribute) and isinstance(x.value, ast.Name) and x.value.id == pn:
                                    printed.add(x.attr)
        beh: dict[str, list[str]] = {}
        for k in prog.mro(c):
            for m_ in k.methods.values():
                if m_.name in non_beh or m_.name == "parse":
                    continue
                for n in ast.walk(m_.node):
                    if is_self_attr(n) and isinstance(n.ctx, ast.Load):
                        beh.setdefault(n.attr, []).append(m_.qualname)
        for a, sites in ext_reads.get(c.full, {}).items():
            beh.setdefault(a, []).extend(sites)
        for fld, line in sorted(fields.items()):
            if fld in ("token", "blank") or fld not in beh:
                continue
            n_r8 += 1
            site = f"{c.file}:{line} {c.name}"
            what = f"{c.name}.__str__ prints `{fld}` (read by {sorted(set(beh[fld]))[0]})"
            if fld in printed:
                res.ok("C12.R8", site, what, "read by the printer")
            elif (c.name, fld) in r8_exempt:
                used_exempt.add((c.name, fld))
                res.ok("C12.R8", site, what, "exempt: " + r8_exempt[(c.name, fld)])
            else:
                res.fail("C12.R8", file=c.file, line=sm.node.lineno, qualname=f"{c.name}.__str__", construct=f"{c.name}.__str__ omits {fld}", message=f"{c.name}.{fld} is set by the constructor and read by {sorted(set(beh[fld]))[:3]} but {c.name}.__str__ never reads it: str(template) drops it and the reparsed template behaves differently", what=what)
    res.floor("C12.R8", "behaviour-relevant constructor fields", n_r8, 90)
    res.stats["C12.R8.unused_exemptions"] = sorted(f"{a}.{b}" for a, b in set(r8_exempt) - used_exempt)

    # ------------------------------------------------------------------ R9 behaviour does not depend on token kinds
    res.rule("C12.R9", "no method of a Node/Expression class other than its static parse / __str__ / __init__ inspects a token's kind (is_token_type, .type_): str() prints values, not token kinds (`offset: continue` prints as a quoted string), so behaviour keyed on the kind is lost by a round trip")
    n_r9 = 0
    for c in sorted(set(prog.subclasses(node_base)) | set(prog.subclasses(expr_base)), key=lambda x: x.full):
        for m_ in c.methods.values():
            if m_.name in ("parse", "__str__", "__init__") or any(d in ("staticmethod", "classmethod") for d in m_.decorators()):
                continue
            n_r9 += 1
            hits = [n for n in ast.walk(m_.node) if (isinstance(n, ast.Attribute) and n.attr == "type_") or (isinstance(n, ast.Call) and isinstance(n.func, ast.Name) and n.func.id == "is_token_type")]
            for h in hits:
                res.fail("C12.R9", file=c.file, line=h.lineno, qualname=m_.qualname, construct=f"{m_.qualname} inspects `{norm(h, 50)}`", message=f"{m_.qualname} decides behaviour from a token kind (`{norm(h, 50)}`): the printer emits the value only, so after str() and reparse the kind - and the behaviour - can differ", what=f"{m_.qualname} does not inspect token kinds")
    res.floor("C12.R9", "render/evaluate-side methods scanned for token-kind tests", n_r9, 200)
    res.ok("C12.R9", "liquid2 AST classes", f"{n_r9} methods", "none inspects a token kind")

    # ------------------------------------------------------------------ R10 printer/parser agreement on grouping
    res.rule("C12.R10", "for every operator tree up to depth 3 the text printed by BooleanExpression.__str__ (symbolic evaluation of the printers' source) re-parses - with the precedence table, right-operand precedence and greedy `not` read from the parser's source - to the same tree (modulo associativity of and/or chains)")
    _grouping_rule(prog, res)

    # ------------------------------------------------------------------ R11 string writer / reader agreement
    res.rule("C12.R11", "string text is printed with escapes the decoder (unescape._decode_escape_sequence) maps back to the same characters: no Python repr() in a printer, backslash escaped first, `${` escaped, no escape letter outside the decoder's table")
    _string_writer_rule(prog, res)

    # ------------------------------------------------------------------ R12 number writer / reader agreement
    res.rule("C12.R12", "FloatLiteral/IntegerLiteral print (symbolic evaluation of their __str__ on one value per repr() shape: plain, exponent with/without point, negative exponent, infinities) text that the lexer's FLOAT/INT rules read back as the same kind of literal with the same value")
    _number_writer_rule(prog, res)

    # ------------------------------------------------------------------ R13 names that may be quoted strings
    res.rule("C12.R13", "a field filled from parse_string_or_identifier() (block, macro, call, cycle, increment/decrement names, include/render aliases) is never interpolated bare by the node's __str__: it goes through a quoting helper")
    _identifier_printing_rule(prog, res)

    # ------------------------------------------------------------------ R14 array literals and template strings
    res.rule("C12.R14", "ArrayLiteral.__str__ keeps the comma that makes a one-item array an array, and TemplateString.__str__ escapes quotes, backslashes and `${` in its literal parts only (symbolic evaluation of both printers, read back with a model of the string scanner)")
    _literal_shapes_rule(prog, res)
    res.rule("C12.R15", "Path.__str__ and PathToken.__str__, evaluated symbolically on every root/segment shape (plain name, name needing quotes, reserved word alone and as a root with segments, integer root, integer index, quoted segments with either quote, nested path as root and as segment), print text that a model of the path grammar reads back as the same list of segments")
    _path_shapes_rule(prog, res)
    res.rule("C12.R16", "a printer never decides by truthiness whether to print an attribute declared `str | None` / `int | None`: the parsed values '' and 0 are legal and falsy, so the test must be `is not None` (otherwise `{% cycle '': a, b %}` is printed without its group name)")
    _optional_scalar_rule(prog, res)
    res.rule("C12.R17", "no printer trims or splits the text it prints with Python's Unicode-aware defaults (`.strip()`, `.lstrip()`, `.rstrip()`, `.split()` without an argument): the lexer's words may contain every character from U+0080 to U+FFFF, no-break and other non-ASCII spaces included, so a name that ends in one is changed by str(template)")
    _unicode_trim_rule(prog, res)
    res.rule("C12.R18", "a string token is printed inside the quotes its kind names: Token.__str__ wraps SINGLE_QUOTE_STRING in ' and DOUBLE_QUOTE_STRING in \" unconditionally - the token's value is source text, still escaped, and `\\\"` is an escape only inside double quotes")
    tok_cls = prog.cls("liquid2.token.Token")
    tstr = tok_cls.methods.get("__str__")
    if tstr is None:
        raise AnalysisError("Token.__str__ vanished")
    n18 = 0
    for i in ast.walk(tstr.node):
        if not (isinstance(i, ast.If) and isinstance(i.test, ast.Compare) and norm(i.test.left) == "self.type_" and len(i.test.comparators) == 1):
            continue
        kind = norm(i.test.comparators[0]).split(".")[-1]
        if not kind.endswith("_QUOTE_STRING"):
            continue
        n18 += 1
        q = "'" if kind.startswith("SINGLE") else '"'
        what = f"Token.__str__: {kind} is printed as {q}…{q}"
        body = i.body[0] if len(i.body) == 1 else None
        v = body.value if isinstance(body, ast.Return) else None
        ok = isinstance(v, ast.JoinedStr) and len(v.values) == 3 and isinstance(v.values[0], ast.Constant) and v.values[0].value == q and isinstance(v.values[2], ast.Constant) and v.values[2].value == q and isinstance(v.values[1], ast.FormattedValue) and norm(v.values[1].value) == "self.value"
        if ok:
            res.ok("C12.R18", f"{tstr.file}:{i.lineno} Token.__str__", what, norm(v, 40))
        else:
            res.fail("C12.R18", file=tstr.file, line=i.lineno, qualname="Token.__str__", construct=f"Token.__str__: {kind} not printed unconditionally in its own quotes", message=f"Token.__str__ does not print a {kind} token as {q}<value>{q} unconditionally: the value is still-escaped source text, so `\"say \\\"hi\\\"\"` re-quoted with single quotes contains an escape that is invalid there and str(template) no longer parses", what=what)
    res.floor("C12.R18", "quoted string kinds printed by Token.__str__", n18, 2)

    res.rule("C12.R19", "`unless` is parsed, stored and printed exactly as `if` is: UnlessTag.parse / UnlessNode.__init__ / __str__ equal their IfTag / IfNode counterparts after renaming (an `else` tag always yields a block, so str() always prints it back; tokens and fields are the same ones)")
    from checks.shared import check_unless_mirrors_if

    check_unless_mirrors_if(prog, res, "C12.R19", only=("parse", "__init__", "__str__"))
    res.rule("C12.R20", "`decrement` is parsed and printed as `increment` is: DecrementTag.parse / DecrementNode.__init__ / __str__ equal their increment counterparts up to the tag's name (= C20.R10)")
    from checks.shared import check_sibling_tags

    check_sibling_tags(prog, res, "C12.R20", "liquid2/builtin/tags/decrement_tag.py", "liquid2/builtin/tags/increment_tag.py", (("DecrementNode", "IncrementNode"), ("DecrementTag", "IncrementTag")), (("Decrement", "Increment"), ("decrement", "increment")), only=("parse", "__init__", "__str__"))
    # ------------------------------------------------------------------ R21 a tag's own opening carries its own token's markers
    res.rule("C12.R21", "the opening of a tag is printed with the whitespace control of that tag's own token: in every Node.__str__ the marker after the first `{%` / `{{` comes from `self.token.wc` (directly or through a local bound to it) - a child block's token is the first token *inside* the block, so `self.block.wc` prints the default markers and `{% tablerow … -%}` comes back as `{% tablerow … %}`")
    n21 = 0
    for nc21 in prog.subclasses(node_base):
        m21 = nc21.methods.get("__str__")
        if m21 is None:
            continue
        owners21 = []
        for js in [n for n in ast.walk(m21.node) if isinstance(n, ast.JoinedStr)]:
            vals = js.values
            for i, v in enumerate(vals):
                if isinstance(v, ast.Constant) and isinstance(v.value, str) and v.value.endswith(("{%", "{{")) and i + 1 < len(vals) and isinstance(vals[i + 1], ast.FormattedValue):
                    e = vals[i + 1].value
                    e = e.value if isinstance(e, ast.Subscript) else e
                    # look through locals: `wc = self.block.wc`, `token = self.token`
                    for _ in range(3):
                        root = e
                        while isinstance(root, (ast.Attribute, ast.Subscript)):
                            root = root.value
                        if isinstance(root, ast.Name) and root.id != "self":
                            defs21 = [a.value for a in ast.walk(m21.node) if isinstance(a, ast.Assign) and any(isinstance(t, ast.Name) and t.id == root.id for t in a.targets)]
                            if len(defs21) == 1:
                                e = ast.parse(norm(e, 400).replace(root.id, "(" + norm(defs21[0], 400) + ")", 1), mode="eval").body
                                continue
                        break
                    owners21.append(norm(e, 200).replace("(", "").replace(")", ""))
        if not owners21:
            continue
        n21 += 1
        site = f"{nc21.file}:{m21.node.lineno} {nc21.name}.__str__"
        what = f"{nc21.name}.__str__: one opening carries self.token's markers"
        # ConditionalBlockNode's block is built from the elsif tag's own token (IfTag / UnlessTag.parse: BlockNode(token=alternative_token, …)
        # next to ConditionalBlockNode(alternative_token, …)), so its block's token *is* the tag token: an equivalent spelling
        same_token_block = nc21.name == "ConditionalBlockNode" and any(o.startswith(("self.block.wc", "self.block.token.wc")) for o in owners21)
        if any(o.startswith("self.token.wc") for o in owners21) or same_token_block:
            res.ok("C12.R21", site, what, "self.token.wc" if not same_token_block else "self.block's token is the tag's token")
        else:
            res.fail("C12.R21", file=nc21.file, line=m21.node.lineno, qualname=f"{nc21.name}.__str__", construct=f"{nc21.name}.__str__: no opening printed with self.token.wc", message=f"{nc21.name}.__str__ prints its tags with the markers of {sorted(set(owners21))[:2]} and never with self.token.wc: the tag's own `-` / `~` / `+` is lost (a block's token is the first token inside it, so `self.block.wc` prints default markers) and the reparsed template trims differently", what=what)
    res.floor("C12.R21", "Node printers with an opening tag", n21, 15)
    # ------------------------------------------------------------------ R22 nothing process-dependent is stored on what gets pickled
    res.rule("C12.R22", "a pickled template behaves in the process that loads it as in the one that made it: the builtin hash() is called only inside __hash__ methods, so no hash value - which for strings differs with every interpreter's hash seed - is stored on a node or expression and carried across by pickle (a cached `_hash` on Path makes equal cycle groups unequal after unpickling) (= C09.R6)")
    n22 = 0
    for mod22 in prog.modules.values():
        for c22 in ast.walk(mod22.tree):
            if isinstance(c22, ast.Call) and isinstance(c22.func, ast.Name) and c22.func.id == "hash":
                n22 += 1
                fi22 = prog.enclosing_function(mod22, c22)
                q22 = fi22.qualname if fi22 else "<module>"
                what22 = f"`{norm(c22, 50)}` only implements __hash__"
                if fi22 is not None and fi22.name == "__hash__":
                    res.ok("C12.R22", f"{mod22.relpath}:{c22.lineno} {q22}", what22, "computed on demand in the current process")
                else:
                    res.fail("C12.R22", file=mod22.relpath, line=c22.lineno, qualname=q22, construct=f"{norm(c22, 50)} computed outside __hash__ in {q22}", message=f"{q22} computes `{norm(c22, 50)}` outside a __hash__ method: stored on the object it is pickled with it, and a string's hash differs between interpreters (PYTHONHASHSEED), so an unpickled template carries hashes that no longer match equal values made in the new process", what=what22)
    res.floor("C12.R22", "hash() calls", n22, 10)


def _grouping_rule(prog: Program, res: Result) -> None:  # noqa: PLR0912, PLR0915
    from itertools import product

    from sa.symprint import PrattModel
    from sa.symprint import Sym
    from sa.symprint import SymEval
    from sa.symprint import Unsupported

    ex = prog.mod("liquid2/builtin/expressions.py")
    rel = ex.relpath
    # ---- facts read from the parser
    consts: dict[str, int] = {}
    for st in ex.tree.body:
        if isinstance(st, ast.Assign) and len(st.targets) == 1 and isinstance(st.targets[0], ast.Name) and st.targets[0].id.startswith("PRECEDENCE_") and isinstance(st.value, ast.Constant):
            consts[st.targets[0].id] = st.value.value
    prec_tbl = ex.globals_.get("PRECEDENCES")
    if not isinstance(prec_tbl, ast.Dict) or not consts:
        raise AnalysisError("PRECEDENCES / PRECEDENCE_* constants not found in expressions.py")
    tok_prec: dict[str, int] = {}
    for k, v in zip(prec_tbl.keys, prec_tbl.values):
        if isinstance(k, ast.Attribute) and isinstance(v, ast.Name) and v.id in consts:
            tok_prec[k.attr] = consts[v.id]
    pie = ex.functions.get("parse_infix_expression")
    pbp = ex.functions.get("parse_boolean_primitive")
    if pie is None or pbp is None:
        raise AnalysisError("parse_infix_expression / parse_boolean_primitive vanished")
    arms: dict[str, str] = {}
    for m in ast.walk(pie.node):
        if isinstance(m, ast.match_case) and isinstance(m.pattern, ast.MatchValue) and isinstance(m.pattern.value, ast.Attribute):
            ret = next((r for r in ast.walk(m) if isinstance(r, ast.Return) and isinstance(r.value, ast.Call) and isinstance(r.value.func, ast.Name)), None)
            if ret is None:
                continue
            call = ret.value
            rec = call.args[2] if len(call.args) == 3 else None
            if not (isinstance(rec, ast.Call) and isinstance(rec.func, ast.Name) and rec.func.id == "parse_boolean_primitive" and len(rec.args) == 3 and isinstance(rec.args[2], ast.Name) and rec.args[2].id == "precedence" and norm(call.args[1]) == "left"):
                raise AnalysisError(f"parse_infix_expression arm {m.pattern.value.attr}: unexpected shape {norm(call, 80)}")
            arms[m.pattern.value.attr] = call.func.id
    if len(arms) < 8 or "precedence = PRECEDENCES.get(token.type_, PRECEDENCE_LOWEST)" not in norm(pie.node, 4000):
        raise AnalysisError("parse_infix_expression: operator arms / precedence binding not found")
    loop_txt = norm(pbp.node, 8000)
    if "PRECEDENCES.get(token.type_, PRECEDENCE_LOWEST) < precedence" not in loop_txt:
        raise AnalysisError("parse_boolean_primitive: loop exit test `< precedence` not found")
    lowest = consts.get("PRECEDENCE_LOWEST")
    dflt = pbp.node.args.defaults[-1] if pbp.node.args.defaults else None
    if lowest is None or not (isinstance(dflt, ast.Name) and dflt.id == "PRECEDENCE_LOWEST"):
        raise AnalysisError("parse_boolean_primitive: default precedence is not PRECEDENCE_LOWEST")
    not_cls = prog.resolve(ex, "LogicalNotExpression")
    if not isinstance(not_cls, ClassInfo) or "parse" not in not_cls.methods:
        raise AnalysisError("LogicalNotExpression.parse vanished")
    npc = [c for c in ast.walk(not_cls.methods["parse"].node) if isinstance(c, ast.Call) and isinstance(c.func, ast.Name) and c.func.id == "parse_boolean_primitive"]
    if len(npc) != 1:
        raise AnalysisError("LogicalNotExpression.parse: operand parse call not found")
    if len(npc[0].args) >= 3:
        a3 = npc[0].args[2]
        if not (isinstance(a3, ast.Name) and a3.id in consts):
            raise AnalysisError("LogicalNotExpression.parse: operand precedence is not a PRECEDENCE_* constant")
        not_operand_prec = consts[a3.id]
    else:
        kwp = next((k.value for k in npc[0].keywords if k.arg == "precedence"), None)
        not_operand_prec = consts[kwp.id] if isinstance(kwp, ast.Name) and kwp.id in consts else lowest
    res.stats["C12.R10.parser_facts"] = {"precedence_by_token": tok_prec, "arms": arms, "not_operand_precedence": not_operand_prec, "lowest": lowest}

    # ---- symbols printed by each operator class
    E = SymEval(prog)
    a, b, c3, d = (Sym(None, name=n) for n in "abcd")
    cls_of: dict[str, ClassInfo] = {}
    infix_tbl: dict[str, tuple[str, int]] = {}
    try:
        for tok, cname in arms.items():
            ci = prog.resolve(ex, cname)
            if not isinstance(ci, ClassInfo):
                raise AnalysisError(f"{cname} vanished")
            cls_of[cname] = ci
            E.steps = 0
            txt = E.to_str(Sym(ci, {"left": a, "right": b}))
            parts = txt.split()
            if len(parts) != 3 or parts[0] != "a" or parts[2] != "b":
                raise AnalysisError(f"{cname}.__str__ of (a, b) printed {txt!r}")
            infix_tbl[parts[1]] = (cname, tok_prec[tok])
        E.steps = 0
        ntxt = E.to_str(Sym(not_cls, {"expression": a})).split()
        if len(ntxt) != 2 or ntxt[1] != "a":
            raise AnalysisError(f"LogicalNotExpression.__str__ of (a) printed {' '.join(ntxt)!r}")
        prefix_tbl = {ntxt[0]: "LogicalNotExpression"}
    except Unsupported as err:
        res.not_decided.append(f"C12.R10: the printers use a construct the symbolic evaluator does not model ({err})")
        res.fail("C12.R10", file=rel, line=1, qualname="BooleanExpression.__str__", construct=f"printer not evaluable: {err}", message=f"grouping agreement could not be evaluated: {err}", what="printer is in the modelled subset")
        return
    cls_of["LogicalNotExpression"] = not_cls
    model = PrattModel(infix=infix_tbl, prefix=prefix_tbl, prefix_operand_precedence=not_operand_prec, lowest=lowest, right_absorbs_equal=True)
    be = prog.resolve(ex, "BooleanExpression")
    if not isinstance(be, ClassInfo):
        raise AnalysisError("BooleanExpression vanished")

    def mk(t):  # noqa: ANN001, ANN202
        if isinstance(t, str):
            return {"a": a, "b": b, "c": c3, "d": d}.get(t) or Sym(None, name=t)
        if len(t) == 2:
            return Sym(cls_of[t[0]], {"expression": mk(t[1])})
        return Sym(cls_of[t[0]], {"left": mk(t[1]), "right": mk(t[2])})

    def canon(t):  # noqa: ANN001, ANN202
        """Flatten chains of the same associative operator (and/or) - they mean the same however they nest."""
        if isinstance(t, str):
            return t
        if len(t) == 2:
            return (t[0], canon(t[1]))
        if t[0] in ("LogicalAndExpression", "LogicalOrExpression"):
            items: list = []

            def flat(x):  # noqa: ANN001, ANN202
                if not isinstance(x, str) and len(x) == 3 and x[0] == t[0]:
                    flat(x[1])
                    flat(x[2])
                else:
                    items.append(canon(x))

            flat(t)
            return (t[0], tuple(items))
        return (t[0], canon(t[1]), canon(t[2]))

    names = sorted(cls_of)
    infix_names = [n for n in names if n != "LogicalNotExpression"]
    leaves = ["a", "b", "c", "d"]

    def trees(depth: int, pool: list[str], leaf_iter):  # noqa: ANN001, ANN202
        if depth == 0:
            return [next(leaf_iter)]
        out = [next(leaf_iter)]
        return out

    # depth-2: every parent class over every child class (or leaf) on each side
    shapes: list = []
    kids = ["leaf"] + names
    for p in names:
        if p == "LogicalNotExpression":
            for k in kids:
                shapes.append((p, "a" if k == "leaf" else ((k, "a") if k == "LogicalNotExpression" else (k, "a", "b"))))
            continue
        for lk, rk in product(kids, kids):
            lt = "a" if lk == "leaf" else ((lk, "a") if lk == "LogicalNotExpression" else (lk, "a", "b"))
            rt = "c" if rk == "leaf" else ((rk, "c") if rk == "LogicalNotExpression" else (rk, "c", "d"))
            shapes.append((p, lt, rt))
    # depth-3 over one representative per precedence level
    reps: list[str] = []
    seen_prec: set[int] = set()
    for sym_, (cn, pr) in sorted(infix_tbl.items(), key=lambda kv: (kv[1][1], kv[0])):
        if pr not in seen_prec:
            seen_prec.add(pr)
            reps.append(cn)
    d2 = ["a"] + [(r, "a", "b") for r in reps] + [("LogicalNotExpression", "a")]
    for p in reps + ["LogicalNotExpression"]:
        for x in d2:
            if p == "LogicalNotExpression":
                for q in reps:
                    shapes.append((q, (p, x), "c"))
                    shapes.append((q, "c", (p, x)))
                continue
            for q in reps:
                shapes.append((q, (p, x, "c"), "d"))
                shapes.append((q, "d", (p, x, "c")))
                shapes.append((q, (p, "c", x), "d"))
                shapes.append((q, "d", (p, "c", x)))
    res.floor("C12.R10", "operator trees enumerated", len(shapes), 1000)
    bad: dict[str, list[str]] = {}
    n_ok = 0
    lam = prog.resolve(ex, "LambdaExpression")
    roots = [("a condition", lambda tree: Sym(be, {"expression": tree}), ""), ("its own __str__", lambda tree: tree, "")]
    if isinstance(lam, ClassInfo):
        roots.append(("an arrow function body", lambda tree: Sym(lam, {"params": ["i"], "expression": tree}), "i => "))
    res.stats["C12.R10.print_contexts"] = [r[0] for r in roots]
    for t in shapes:
        for ctx_name, wrap, prefix in roots:
            E.steps = 0
            try:
                txt = E.to_str(wrap(mk(t)))
            except Unsupported as err:
                res.fail("C12.R10", file=rel, line=1, qualname="BooleanExpression.__str__", construct=f"printer not evaluable ({ctx_name}): {err}", message=f"grouping agreement could not be evaluated: {err}", what="printer is in the modelled subset")
                return
            if prefix:
                if not txt.startswith(prefix):
                    res.fail("C12.R10", file=rel, line=1, qualname="LambdaExpression.__str__", construct=f"arrow function printed as {txt!r}", message=f"an arrow function with parameter i is printed `{txt}`", what="arrow function prefix")
                    return
                txt = txt[len(prefix):]
            try:
                back = model.parse(txt)
                same = canon(back) == canon(t)
                why = f"as {ctx_name} `{txt}` re-parses as {back}"
            except ValueError as err:
                same = False
                why = f"as {ctx_name} `{txt}` does not re-parse ({err})"
            if same:
                n_ok += 1
                continue
            # attribute the loss to the top class of the tree
            owner = t[0]
            bad.setdefault(owner, []).append(f"{t} -> {why}")
    res.stats["C12.R10.trees"] = len(shapes)
    res.stats["C12.R10.trees_agreeing"] = n_ok
    for cname in names:
        ci = cls_of[cname]
        sm = ci.methods.get("__str__")
        site = f"{rel}:{sm.node.lineno if sm else ci.node.lineno} {cname}.__str__"
        what = f"trees rooted at {cname} print to text that re-parses to the same tree"
        if cname not in bad:
            res.ok("C12.R10", site, what, "all enumerated trees agree")
        else:
            ex_ = bad[cname][0]
            res.fail("C12.R10", file=rel, line=sm.node.lineno if sm else ci.node.lineno, qualname=f"{cname}.__str__", construct=f"{cname}: grouping lost for {len(bad[cname])} tree shape(s)", message=f"{len(bad[cname])} operator tree(s) rooted at {cname} are printed without the parentheses the parser needs, e.g. {ex_}: str(template) re-parses to a different condition", what=what)


def _literal_str_set(e: ast.AST | None) -> set[str] | None:
    if e is None:
        return None
    if isinstance(e, ast.Call) and e.args:
        e = e.args[0]
    if isinstance(e, (ast.List, ast.Tuple, ast.Set)) and all(isinstance(x, ast.Constant) and isinstance(x.value, str) for x in e.elts):
        return {x.value for x in e.elts}
    return None


def _collect_helpers(prog: Program, roots: list, out: dict) -> None:
    work = list(roots)
    seen: set[str] = set()
    while work:
        f = work.pop()
        if f.fid in seen:
            continue
        seen.add(f.fid)
        for c in ast.walk(f.node):
            if isinstance(c, ast.Call) and isinstance(c.func, ast.Name):
                r = prog.resolve(f.module, c.func.id)
                if hasattr(r, "fid") and hasattr(r, "node") and r.fid not in seen and r.module.relpath.startswith("liquid2/") and not r.name.startswith("parse"):
                    out[r.fid] = r
                    work.append(r)


def _string_writer_rule(prog: Program, res: Result) -> None:  # noqa: PLR0912
    """C12.R11: what the string printers write is what the string decoder reads."""
    un = prog.mod("liquid2/unescape.py")
    dec = un.functions.get("_decode_escape_sequence")
    if dec is None:
        raise AnalysisError("_decode_escape_sequence vanished")
    reader = {c.comparators[0].value for c in ast.walk(dec.node) if isinstance(c, ast.Compare) and isinstance(c.left, ast.Name) and c.left.id == "ch" and len(c.ops) == 1 and isinstance(c.ops[0], ast.Eq) and isinstance(c.comparators[0], ast.Constant) and isinstance(c.comparators[0].value, str)}
    res.floor("C12.R11", "escape letters accepted by the decoder", len(reader), 8)
    res.stats["C12.R11.decoder_letters"] = sorted(reader)
    py_repr_letters = {"\\", "'", '"', "n", "r", "t", "x", "u", "U"}
    node_base = prog.cls("liquid2.ast.Node")
    expr_base = prog.cls("liquid2.expression.Expression")
    tok_base = prog.cls("liquid2.token.TokenT")
    printers = []
    for c in sorted(set(prog.subclasses(node_base)) | set(prog.subclasses(expr_base)) | set(prog.subclasses(tok_base)), key=lambda x: x.full):
        m = c.methods.get("__str__")
        if m is not None:
            printers.append(m)
    # helpers reachable from the printers (module-level functions of the same module); the escaping obligations below
    # concern printers of *decoded* text (AST classes) - token classes hold source text that is still escaped
    all_helpers: dict[str, object] = {}
    helpers: dict[str, object] = {}
    for group, store in ((printers, all_helpers), ([m for m in printers if m.cls is not None and not prog.is_subclass(m.cls, tok_base)], helpers)):
        _collect_helpers(prog, group, store)
    work = []
    seen: set[str] = set()
    while work:
        f = work.pop()
        if f.fid in seen:
            continue
        seen.add(f.fid)
        for c in ast.walk(f.node):
            if isinstance(c, ast.Call) and isinstance(c.func, ast.Name):
                r = prog.resolve(f.module, c.func.id)
                if hasattr(r, "fid") and hasattr(r, "node") and r.fid not in seen and r.module.relpath.startswith("liquid2/") and not r.name.startswith("parse"):
                    helpers[r.fid] = r
                    work.append(r)
    n_sites = 0
    for f in printers + list(all_helpers.values()):
        for n in ast.walk(f.node):
            hit = None
            if isinstance(n, ast.Call) and isinstance(n.func, ast.Name) and n.func.id == "repr" and n.args:
                hit = n.args[0]
            elif isinstance(n, ast.FormattedValue) and n.conversion == ord("r"):
                hit = n.value
            if hit is None:
                continue
            if any(isinstance(a, ast.Assert) for a in f.module.ancestors(n)):
                continue
            if f.cls is not None and any(b.replace(" ", "") in ("Literal[float]", "Literal[int]", "Literal[bool]") for b in f.cls.base_exprs) and norm(hit) == "self.value":
                res.ok("C12.R11", f"{f.file}:{n.lineno} {f.qualname}", f"{f.qualname}: repr() of a number", f"{f.cls.name} is declared {f.cls.base_exprs}: its value is not a string (number forms are R12's business)")
                continue
            if f.cls is not None and f.cls.name == "Literal":
                # the generic literal printer: fine for numbers as long as no str-valued literal class inherits it
                str_lits = [k for k in prog.subclasses(f.cls, strict=True) if any("[str]" in b for b in k.base_exprs)]
                if str_lits and all("__str__" in k.methods for k in str_lits):
                    res.ok("C12.R11", f"{f.file}:{n.lineno} {f.qualname}", "Literal.__str__ (repr) is not the printer of any string-valued literal", f"{[k.name for k in str_lits]} override __str__")
                    continue
            n_sites += 1
            missing = sorted(py_repr_letters - reader - {"'", '"'})
            res.fail("C12.R11", file=f.file, line=n.lineno, qualname=f.qualname, construct=f"{f.qualname} prints `{norm(hit, 40)}` with Python repr()", message=f"{f.qualname} quotes `{norm(hit, 40)}` with Python's repr(): it writes escapes the Liquid decoder rejects ({', '.join(chr(92) + m for m in missing)}) and leaves `${{` unescaped, so the printed literal re-parses to a different string (or not at all)", what=f"{f.qualname}: string printed with Liquid's own escapes")
    # the escape helper(s): chains of .replace(<const>, <const beginning with a backslash>)
    n_help = 0
    for h in helpers.values():
        pairs: list[tuple[int, str, str]] = []
        for c in ast.walk(h.node):
            if isinstance(c, ast.Call) and isinstance(c.func, ast.Attribute) and c.func.attr == "replace" and len(c.args) == 2 and all(isinstance(a, ast.Constant) and isinstance(a.value, str) for a in c.args) and c.args[1].value.startswith("\\"):
                depth = 0
                x = c.func.value
                while isinstance(x, ast.Call) and isinstance(x.func, ast.Attribute) and x.func.attr == "replace":
                    depth += 1
                    x = x.func.value
                pairs.append((depth, c.args[0].value, c.args[1].value))
        if not pairs:
            continue
        n_help += 1
        pairs.sort()
        site = f"{h.file}:{h.node.lineno} {h.qualname}"
        letters = {p[2][1] for p in pairs if len(p[2]) > 1}
        problems = []
        bad_letters = sorted(letters - reader - {"'", '"'})
        if bad_letters:
            problems.append(f"writes escapes the decoder rejects: {bad_letters}")
        if pairs[0][1] != "\\" or pairs[0][2] != "\\\\":
            problems.append("the backslash is not escaped first (later replacements would be doubled or a lone backslash survives)")
        if not any(src == "${" and dst.startswith("\\$") for _d, src, dst in pairs):
            problems.append("`${` is not escaped (printed text is re-parsed as interpolation)")
        for _d, src, dst in pairs:
            if len(dst) >= 2 and dst[1] in reader and dst[1] in "nrtbf":
                want = {"n": "\n", "r": "\r", "t": "\t", "b": "\x08", "f": "\x0c"}[dst[1]]
                if src != want:
                    problems.append(f"{src!r} is written as {dst!r}, which decodes to {want!r}")
        what = f"{h.qualname}: every escape written is one the decoder reads back to the same character"
        if problems:
            res.fail("C12.R11", file=h.file, line=h.node.lineno, qualname=h.qualname, construct=f"{h.qualname}: " + "; ".join(problems), message=f"the string escaper {h.qualname} and the decoder disagree: " + "; ".join(problems), what=what)
        else:
            res.ok("C12.R11", site, what, f"pairs {[(s_, d_) for _x, s_, d_ in pairs]}")
    res.floor("C12.R11", "string escape helpers used by the printers", n_help, 1)
    # the three kinds of string-valued syntax go through an escaping helper
    ex = prog.mod("liquid2/builtin/expressions.py")
    for cname in ("StringLiteral", "TemplateString", "Path"):
        ci = prog.resolve(ex, cname)
        m = prog.find_method(ci, "__str__") if isinstance(ci, ClassInfo) else None
        if m is not None and isinstance(ci, ClassInfo) and "__str__" in ci.methods:
            m = _printer_body(ci)  # follow `return self._str(...)`
        what = f"{cname}.__str__ quotes its text through an escaping helper"
        calls = {c.func.id for c in ast.walk(m.node) if isinstance(c, ast.Call) and isinstance(c.func, ast.Name)} if m is not None else set()
        used = [h.name for h in helpers.values() if h.name in calls and any(isinstance(c, ast.Call) and isinstance(c.func, ast.Attribute) and c.func.attr == "replace" for c in ast.walk(h.node))]
        if m is not None and m.cls is not None and m.cls.name != "Literal" and used:
            res.ok("C12.R11", f"{m.file}:{m.node.lineno} {cname}.__str__", what, f"calls {sorted(used)}")
        else:
            res.fail("C12.R11", file=ex.relpath, line=m.node.lineno if m else 1, qualname=f"{cname}.__str__", construct=f"{cname}.__str__ does not escape its text", message=f"{cname}.__str__ prints string text without the Liquid escaping helper: quotes, backslashes or `${{` in the text change the meaning of the printed literal", what=what)
    res.stats["C12.R11.repr_sites"] = n_sites
    # the escaping helper is only handed strings (it calls str methods on its argument)
    from sa.types import TypeApprox

    T = TypeApprox(prog)
    esc_names = {h.name for h in helpers.values() if any(isinstance(c, ast.Call) and isinstance(c.func, ast.Attribute) and c.func.attr == "replace" for c in ast.walk(h.node)) and len(h.params()) == 1}
    n_esc_calls = 0
    for f in printers + list(helpers.values()):
        for c in ast.walk(f.node):
            if isinstance(c, ast.Call) and isinstance(c.func, ast.Name) and c.func.id in esc_names and len(c.args) == 1:
                a = c.args[0]
                if isinstance(a, ast.Call) and isinstance(a.func, ast.Name) and a.func.id in esc_names:
                    continue
                n_esc_calls += 1
                t = T.of(f, a)
                site = f"{f.file}:{c.lineno} {f.qualname}"
                what = f"`{norm(c, 50)}` is handed a str"
                if t is not None and {x.strip() for x in t.split("|")} <= {"str", "Markup", "Identifier"}:
                    res.ok("C12.R11", site, what, f"declared / narrowed to {t}")
                else:
                    res.fail("C12.R11", file=f.file, line=c.lineno, qualname=f.qualname, construct=f"{f.qualname}: {norm(c, 50)} with a value that may not be a str", message=f"`{norm(a, 30)}` ({t or 'undeclared'}) is passed to the string escaper, which calls str methods on it: an integer segment (`{{{{ [0] }}}}`) or nested path makes str(template) raise AttributeError", what=what)
    res.floor("C12.R11", "calls of the escaping helper", n_esc_calls, 3)


def _number_writer_rule(prog: Program, res: Result) -> None:
    """C12.R12: printed number literals are read back as the same kind of literal with the same value."""
    import re as _re

    from sa.symprint import Sym
    from sa.symprint import SymEval
    from sa.symprint import Unsupported

    lexer = prog.cls("liquid2.lexer.Lexer")
    rules = None
    for n in ast.walk(lexer.node):
        if isinstance(n, ast.Dict):
            cand = {k.value: vv.value for k, vv in zip(n.keys, n.values) if isinstance(k, ast.Constant) and isinstance(vv, ast.Constant) and isinstance(vv.value, str)}
            if "FLOAT" in cand and "INT" in cand:
                rules = cand
                break
    if not rules:
        raise AnalysisError("lexer FLOAT/INT token rules not found")
    order = list(rules)
    f_re, i_re = _re.compile(rules["FLOAT"]), _re.compile(rules["INT"])
    if order.index("FLOAT") > order.index("INT"):
        res.fail("C12.R12", file=lexer.file, line=lexer.node.lineno, qualname="Lexer", construct="INT rule tried before FLOAT", message="the INT token rule precedes FLOAT: a float literal is cut at its decimal point", what="FLOAT before INT")
    ex = prog.mod("liquid2/builtin/expressions.py")
    E = SymEval(prog)
    samples_f = [1.5, 2.0, 0.1, -0.0, 1e20, -1e20, 1.5e20, 1e-7, 1.5e-7, 1e16, 123456789012345678.0, 5e-324, 1.7976931348623157e308, float("inf"), float("-inf")]
    samples_i = [0, 7, -7, 10**20, -(10**30)]
    for cname, samples, kind in (("FloatLiteral", samples_f, "FLOAT"), ("IntegerLiteral", samples_i, "INT")):
        ci = prog.resolve(ex, cname)
        if not isinstance(ci, ClassInfo):
            raise AnalysisError(f"{cname} vanished")
        sm = prog.find_method(ci, "__str__")
        line = sm.node.lineno if sm else ci.node.lineno
        bad = []
        for v in samples:
            E.steps = 0
            try:
                txt = E.to_str(Sym(ci, {"value": v}))
            except Unsupported as err:
                res.not_decided.append(f"C12.R12: {cname}.__str__ uses a construct the symbolic evaluator does not model ({err})")
                bad.append(f"{v!r}: not evaluable ({err})")
                break
            mf, mi = f_re.fullmatch(txt), i_re.fullmatch(txt)
            got = "FLOAT" if mf else ("INT" if mi else "neither a FLOAT nor an INT token")
            if got != kind:
                bad.append(f"{v!r} is printed `{txt}`, which the lexer reads as {got}")
            elif kind == "FLOAT" and float(txt) != v:
                bad.append(f"{v!r} is printed `{txt}`, which reads back as {float(txt)!r}")
        site = f"{ex.relpath}:{line} {cname}.__str__"
        what = f"{cname}.__str__: every printed form lexes as {kind} with the same value"
        if bad:
            res.fail("C12.R12", file=ex.relpath, line=line, qualname=f"{cname}.__str__", construct=f"{cname}: {len(bad)} printed form(s) read back differently", message=f"{cname}.__str__ prints forms the lexer does not read back as a {kind} literal of the same value: {'; '.join(bad[:3])}", what=what)
        else:
            res.ok("C12.R12", site, what, f"{len(samples)} representative values, one per repr() shape")


def _identifier_printing_rule(prog: Program, res: Result) -> None:  # noqa: PLR0912
    """C12.R13: a name that may have been written as a quoted string is printed through a quoting helper."""
    n_fields = 0
    for f in prog.all_functions():
        holders: dict[str, ast.AST] = {}
        inline: list[ast.Call] = []
        for n in ast.walk(f.node):
            tgt = val = None
            if isinstance(n, ast.Assign) and len(n.targets) == 1:
                tgt, val = n.targets[0], n.value
            elif isinstance(n, ast.AnnAssign) and n.value is not None:
                tgt, val = n.target, n.value
            if isinstance(tgt, ast.Name) and isinstance(val, ast.Call) and (dotted(val.func) or "").split(".")[-1] == "parse_string_or_identifier":
                holders[tgt.id] = n
        if not holders and not any(isinstance(c, ast.Call) and (dotted(c.func) or "").split(".")[-1] == "parse_string_or_identifier" for c in ast.walk(f.node)):
            continue
        # constructor calls that receive such a value
        for c in ast.walk(f.node):
            if not isinstance(c, ast.Call):
                continue
            target_cls = None
            d = dotted(c.func) or ""
            if d == "self.node_class" and f.cls is not None:
                for k in prog.mro(f.cls):
                    nc = k.class_attrs.get("node_class")
                    if nc is not None:
                        r = prog.resolve(k.module, dotted(nc) or "")
                        if isinstance(r, ClassInfo):
                            target_cls = r
                        break
            else:
                r = prog.resolve(f.module, d) if d else None
                if isinstance(r, ClassInfo) and (prog.is_subclass(r, "liquid2.ast.Node") or prog.is_subclass(r, "liquid2.expression.Expression")):
                    target_cls = r
            if target_cls is None:
                continue
            init = prog.find_method(target_cls, "__init__")
            if init is None:
                continue
            params = init.params()[1:]
            passed: list[str] = []
            for i, a in enumerate(c.args):
                is_id = (isinstance(a, ast.Name) and a.id in holders) or (isinstance(a, ast.Call) and (dotted(a.func) or "").split(".")[-1] == "parse_string_or_identifier")
                if is_id and i < len(params):
                    passed.append(params[i])
            for kw in c.keywords:
                a = kw.value
                is_id = (isinstance(a, ast.Name) and a.id in holders) or (isinstance(a, ast.Call) and (dotted(a.func) or "").split(".")[-1] == "parse_string_or_identifier")
                if is_id and kw.arg:
                    passed.append(kw.arg)
            for pname in passed:
                attrs = [t.attr for s_ in ast.walk(init.node) if isinstance(s_, ast.Assign) and isinstance(s_.value, ast.Name) and s_.value.id == pname for t in s_.targets if is_self_attr(t)]
                sm = prog.find_method(target_cls, "__str__")
                if sm is None:
                    continue
                for attr in attrs:
                    n_fields += 1
                    bare = []
                    for u in ast.walk(sm.node):
                        if not (is_self_attr(u, attr) and isinstance(u.ctx, ast.Load)):
                            continue
                        par = sm.module.parent(u)
                        if isinstance(par, ast.Call) and u in par.args:
                            continue  # handed to a helper
                        if isinstance(par, (ast.If, ast.IfExp)) and par.test is u:
                            continue  # presence test
                        if isinstance(par, (ast.BoolOp, ast.Compare, ast.UnaryOp)):
                            continue
                        bare.append(u)
                    site = f"{sm.file}:{sm.node.lineno} {target_cls.name}.__str__"
                    what = f"{target_cls.name}.{attr} (parsed by parse_string_or_identifier in {f.qualname}) is printed through a quoting helper"
                    if bare:
                        res.fail("C12.R13", file=sm.file, line=bare[0].lineno, qualname=f"{target_cls.name}.__str__", construct=f"{target_cls.name}.__str__ prints self.{attr} bare", message=f"{f.qualname} accepts a quoted string for `{attr}` (parse_string_or_identifier) but {target_cls.name}.__str__ interpolates self.{attr} as it is: a name with a space, quote or other non-word character is printed unquoted and the text no longer parses to the same tag", what=what)
                    else:
                        res.ok("C12.R13", site, what, "every use is an argument of a helper call or a presence test")
    res.floor("C12.R13", "fields holding string-or-identifier names", n_fields, 6)


def _literal_shapes_rule(prog: Program, res: Result) -> None:
    """C12.R14: array literals and template strings print in a form that reads back as the same literal."""
    from sa.symprint import Sym
    from sa.symprint import SymEval
    from sa.symprint import Unsupported

    ex = prog.mod("liquid2/builtin/expressions.py")
    E = SymEval(prog)
    arr = prog.resolve(ex, "ArrayLiteral")
    ts = prog.resolve(ex, "TemplateString")
    sl = prog.resolve(ex, "StringLiteral")
    if not all(isinstance(x, ClassInfo) for x in (arr, ts, sl)):
        raise AnalysisError("ArrayLiteral / TemplateString / StringLiteral vanished")
    a, b = Sym(None, name="a"), Sym(None, name="b")
    # ---- arrays: the reader makes an array only when it sees a comma after the first item
    for items, want in (([a], 1), ([a, b], 2)):
        E.steps = 0
        site = f"{ex.relpath}:{arr.methods['__str__'].node.lineno} ArrayLiteral.__str__"
        what = f"an array literal of {want} item(s) is printed with the comma(s) that make it an array"
        try:
            txt = E.to_str(Sym(arr, {"items": items}))
        except Unsupported as err:
            res.fail("C12.R14", file=ex.relpath, line=arr.node.lineno, qualname="ArrayLiteral.__str__", construct=f"not evaluable: {err}", message=f"ArrayLiteral.__str__ could not be evaluated symbolically: {err}", what=what)
            continue
        parts = [p_.strip() for p_ in txt.split(",")]
        ok = "," in txt and [p_ for p_ in parts if p_] == [i.name for i in items]
        if ok:
            res.ok("C12.R14", site, what, f"`{txt}`")
        else:
            res.fail("C12.R14", file=ex.relpath, line=arr.methods["__str__"].node.lineno, qualname="ArrayLiteral.__str__", construct=f"array of {want} printed as `{txt}`", message=f"an array literal with {want} item(s) is printed `{txt}`: without a comma it is read back as the bare item (a one-item array becomes a scalar, so `| size`, `for` and `first` change meaning)", what=what)
    # ---- template strings
    cases = [
        ("plain text", [("lit", "hello "), ("expr", "x")]),
        ("both quote kinds and a literal ${ in the text", [("lit", "say \"hi\" it's ${not} "), ("expr", "x"), ("lit", " \\ end")]),
        ("quotes inside the interpolated expression", [("lit", "it's "), ("expr", "f('q',\"r\")")]),
    ]
    for label, parts_ in cases:
        tmpl = [Sym(sl, {"value": v}) if k == "lit" else Sym(None, name=v) for k, v in parts_]
        E.steps = 0
        sm = ts.methods["__str__"]
        site = f"{ex.relpath}:{sm.node.lineno} TemplateString.__str__"
        what = f"a template string with {label} reads back as the same parts"
        try:
            txt = E.to_str(Sym(ts, {"template": tmpl}))
        except Unsupported as err:
            res.fail("C12.R14", file=ex.relpath, line=sm.node.lineno, qualname="TemplateString.__str__", construct=f"not evaluable: {err}", message=f"TemplateString.__str__ could not be evaluated symbolically: {err}", what=what)
            continue
        back = _scan_template_string(txt)
        want_parts = []
        for k, v in parts_:
            if k == "lit" and want_parts and want_parts[-1][0] == "lit":
                want_parts[-1] = ("lit", want_parts[-1][1] + v)
            else:
                want_parts.append((k, v))
        if back == want_parts:
            res.ok("C12.R14", site, what, f"`{txt}`")
        else:
            res.fail("C12.R14", file=ex.relpath, line=sm.node.lineno, qualname="TemplateString.__str__", construct=f"template string ({label}) printed as `{txt[:60]}`", message=f"a template string with {label} is printed `{txt}`, which reads back as {back} instead of {want_parts}", what=what)


def _printer_body(ci: ClassInfo):  # noqa: ANN202
    """The method that builds the printed text: __str__, or the method of the same class it delegates to (`return self._str(...)`)."""
    ps = ci.methods.get("__str__")
    if ps is None:
        raise AnalysisError(f"{ci.name}.__str__ vanished")
    body = [st for st in ps.node.body if not (isinstance(st, ast.Expr) and isinstance(st.value, ast.Constant))]
    if len(body) == 1 and isinstance(body[0], ast.Return) and isinstance(body[0].value, ast.Call) and isinstance(body[0].value.func, ast.Attribute) and isinstance(body[0].value.func.value, ast.Name) and body[0].value.func.value.id == "self":
        target = ci.methods.get(body[0].value.func.attr)
        if target is not None:
            return target
    return ps


def _read_path(txt: str, name_rx: "re.Pattern[str]", reserved: set[str]):  # noqa: ANN202
    """Model of the path grammar: root (name | [inner]) followed by .name / [inner]; inner = int | quoted | path.
    Returns the list of segments (str / int / nested list) or a string describing why it is not that path."""
    pos = 0

    def inner():  # noqa: ANN202
        nonlocal pos
        if pos < len(txt) and txt[pos] in "'\"":
            q = txt[pos]
            pos += 1
            out = []
            while pos < len(txt) and txt[pos] != q:
                if txt[pos] == "\\" and pos + 1 < len(txt):
                    out.append({"n": "\n", "t": "\t", "r": "\r"}.get(txt[pos + 1], txt[pos + 1]))
                    pos += 2
                else:
                    out.append(txt[pos])
                    pos += 1
            if pos >= len(txt):
                raise ValueError("unterminated quoted segment")
            pos += 1
            return "".join(out)
        m = re.compile(r"-?[0-9]+").match(txt, pos)
        if m:
            pos = m.end()
            return int(m.group())
        return path(nested=True)

    def path(nested: bool = False):  # noqa: ANN202
        nonlocal pos
        segs: list[object] = []
        m = name_rx.match(txt, pos)
        if m:
            segs.append(m.group())
            pos = m.end()
        elif pos < len(txt) and txt[pos] == "[" and not nested:
            # only a top-level path may start with a bracketed root; inside brackets the lexer wants a string, an index or a name
            pos += 1
            segs.append(inner())
            if pos >= len(txt) or txt[pos] != "]":
                raise ValueError("missing ]")
            pos += 1
        else:
            raise ValueError(f"no path at {pos} (a root printed bare that is not a name reads back as a literal)")
        while pos < len(txt):
            if txt[pos] == ".":
                m = name_rx.match(txt, pos + 1)
                if not m:
                    raise ValueError("bad property after .")
                segs.append(m.group())
                pos = m.end()
            elif txt[pos] == "[":
                pos += 1
                segs.append(inner())
                if pos >= len(txt) or txt[pos] != "]":
                    raise ValueError("missing ]")
                pos += 1
            else:
                break
        if not nested and len(segs) == 1 and isinstance(segs[0], str) and segs[0] in reserved and (txt[0] != "["):
            # at the top level a lone word such as true/nil/empty is the literal; inside brackets (`a[true]`) it is a nested variable
            raise ValueError(f"`{segs[0]}` alone reads back as a keyword, not a variable")
        return segs

    try:
        out = path()
    except ValueError as err:
        return str(err)
    if pos != len(txt):
        return f"trailing text `{txt[pos:]}`"
    return out


def _path_shapes_rule(prog: Program, res: Result) -> None:
    from sa.symprint import Sym
    from sa.symprint import SymEval
    from sa.symprint import Unsupported

    E = SymEval(prog)
    tok_mod = prog.mod("liquid2/token.py")
    pat = None
    for st in tok_mod.tree.body:
        if isinstance(st, ast.Assign) and any(isinstance(t, ast.Name) and t.id == "RE_PROPERTY" for t in st.targets) and isinstance(st.value, ast.Call) and st.value.args and isinstance(st.value.args[0], ast.Constant):
            pat = st.value.args[0].value
    reserved = _reserved_words(tok_mod) if "_reserved_words" in globals() else None
    if reserved is None:
        reserved = set()
        for st in tok_mod.tree.body:
            if isinstance(st, ast.Assign) and any(isinstance(t, ast.Name) and t.id == "RESERVED_WORDS" for t in st.targets):
                reserved = {c.value for c in ast.walk(st.value) if isinstance(c, ast.Constant) and isinstance(c.value, str)}
    if pat is None or not reserved:
        raise AnalysisError("RE_PROPERTY / RESERVED_WORDS not found in liquid2/token.py")
    name_rx = re.compile(pat)
    n = 0
    for cls in (prog.cls("liquid2.builtin.expressions.Path"), prog.cls("liquid2.token.PathToken")):
        sm = cls.methods.get("__str__")
        if sm is None:
            raise AnalysisError(f"{cls.name}.__str__ vanished")

        def mk(p):  # noqa: ANN001, ANN202
            return Sym(cls, {"path": [mk(x) if isinstance(x, list) else x for x in p]})  # noqa: B023

        shapes = [["a"], ["a", "b"], ["a b"], ["true"], ["nil", "x"], ["if"], [0], [12, "x"], ["a", 0], ["a", -1], ["a", "b c"], ["a", ["b"]], [["b"]], [["b", "c"], "d"], ["a", ["true"]], [["nil"]], ["a", ["empty", "x"]], ["it's"], ["a", 'say "hi"'], ["a", "q\"'"], ["a-b"], ["a", "1x"], ["é"], [""]]
        expect = {id(sh): sh for sh in shapes}
        if cls.name == "PathToken":
            # token-level segments hold source text, still escaped: an escaped backslash before a double quote (single-quoted source) and
            # an escaped double quote (double-quoted source) must each come back as the characters they denote
            for src_seg, value in (('a\\\\"b', 'a\\"b'), ('x\\"y', 'x"y'), ("p\\\\", "p\\")):
                sh = ["a", src_seg]
                shapes.append(sh)
                expect[id(sh)] = ["a", value]
        for shape in shapes:
            n += 1
            E.steps = 0
            site = f"{cls.file}:{sm.node.lineno} {cls.name}.__str__"
            what = f"{cls.name} {shape!r} prints as text that reads back as the same path"
            try:
                txt = E.to_str(mk(shape))
            except Unsupported as err:
                res.fail("C12.R15", file=cls.file, line=sm.node.lineno, qualname=f"{cls.name}.__str__", construct=f"not evaluable on {shape!r}: {err}", message=f"{cls.name}.__str__ could not be evaluated symbolically on {shape!r}: {err} (not decided)", what=what)
                continue
            back = _read_path(txt, name_rx, reserved)
            if back == expect[id(shape)]:
                res.ok("C12.R15", site, what, f"`{txt}`")
            else:
                res.fail("C12.R15", file=cls.file, line=sm.node.lineno, qualname=f"{cls.name}.__str__", construct=f"path {shape!r} printed as `{txt}`", message=f"{cls.name}.__str__ prints the path {shape!r} as `{txt}`, which reads back as {back!r}: str(template) no longer denotes the same variable", what=what)
    res.floor("C12.R15", "path shapes evaluated", n, 30)


def _optional_scalar_rule(prog: Program, res: Result) -> None:
    from sa.types import TypeApprox

    T = TypeApprox(prog)
    node_base = prog.cls("liquid2.ast.Node")
    expr_base = prog.cls("liquid2.expression.Expression") if prog.resolve_abs("liquid2.expression.Expression") else None
    n_tests = 0
    for fi in sorted(prog.all_functions(), key=lambda f: (f.file, f.node.lineno)):
        if fi.name != "__str__" or fi.cls is None:
            continue
        if not (prog.is_subclass(fi.cls, node_base) or (expr_base is not None and prog.is_subclass(fi.cls, expr_base))):
            continue
        for n in ast.walk(fi.node):
            if not isinstance(n, (ast.If, ast.IfExp)):
                continue
            operands = n.test.values if isinstance(n.test, ast.BoolOp) else [n.test]
            for x in operands:
                if isinstance(x, ast.UnaryOp) and isinstance(x.op, ast.Not):
                    x = x.operand
                if not (isinstance(x, ast.Attribute) and isinstance(x.value, ast.Name) and x.value.id == "self"):
                    continue
                n_tests += 1
                t = T.attr_type(fi.cls, x.attr) or ""
                parts = {p_.strip() for p_ in t.split("|")}
                what = f"{fi.qualname}: truthiness test of self.{x.attr} ({t or 'undeclared'})"
                if "None" in parts and parts & {"str", "int", "float"}:
                    res.fail("C12.R16", file=fi.file, line=n.lineno, qualname=fi.qualname, construct=f"truthiness of optional scalar self.{x.attr}", message=f"{fi.qualname} prints self.{x.attr} (declared `{t}`) only when it is truthy: the legal parsed value {'0' if 'int' in parts else chr(39)*2} is dropped from str(template), which then parses to a different template", what=what)
                else:
                    res.ok("C12.R16", f"{fi.file}:{n.lineno} {fi.qualname}", what, "not an optional str/int (an empty list or absent node prints the same as None)")
    res.floor("C12.R16", "truthiness tests of attributes in AST printers", n_tests, 15)


def _scan_template_string(txt: str):  # noqa: ANN202
    """Model of the lexer's template-string scanner: outer quotes, backslash escapes in literal text, ${ … } verbatim."""
    if len(txt) < 2 or txt[0] not in "'\"" or txt[-1] != txt[0]:
        return f"not a quoted string: {txt!r}"
    q, body = txt[0], txt[1:-1]
    out: list[tuple[str, str]] = []
    lit = ""
    i = 0
    esc = {"n": "\n", "r": "\r", "t": "\t", "\\": "\\", "'": "'", '"': '"', "$": "$", "/": "/", "b": "\x08", "f": "\x0c"}
    while i < len(body):
        ch = body[i]
        if ch == "\\":
            if i + 1 >= len(body) or body[i + 1] not in esc or (body[i + 1] in "'\"" and body[i + 1] != q):
                return f"invalid escape at {i} in {txt!r}"
            lit += esc[body[i + 1]]
            i += 2
        elif ch == q:
            return f"unescaped quote at {i} in {txt!r}"
        elif body.startswith("${", i):
            j = body.find("}", i)
            if j < 0:
                return "unterminated interpolation"
            if lit:
                out.append(("lit", lit))
                lit = ""
            out.append(("expr", body[i + 2 : j].strip()))
            i = j + 1
        else:
            lit += ch
            i += 1
    if lit:
        out.append(("lit", lit))
    return out
