"""C13 - file-system and package loaders never read outside their roots (path-confinement)."""

from __future__ import annotations

import ast

from sa import twins
from sa.cfg import CFG
from sa.cfg import N
from sa.report import Result
from sa.report import norm
from sa.srcmodel import FunctionInfo
from sa.srcmodel import Program
from sa.srcmodel import dotted
from sa.srcmodel import root_name

META = {
    "technique": "must-pass-through (guard dominance) over the CFG of every path-joining resolver, def-use closure "
    "of the joined value, who-may-read audit of file-system calls, twin agreement of source getters",
    "level_text": "Decides that in every loader function that joins a caller-supplied name onto a search root, every "
    "path to the join passes a guard rejecting parent-directory segments AND a guard rejecting absolute/anchored "
    "names on the value actually joined (or a containment post-check), that nothing re-derives the name after the "
    "guards, and that file-system reads in the package happen only in loader modules on resolver results. "
    "Up to symlinks and platform path quirks this is the whole property for name-based escapes.",
    "level_note": "Trusts pathlib semantics (joinpath with a relative, pardir-free path stays under the root; "
    "with_suffix/str/Path preserve relativeness). Symlinks inside roots are not considered.",
}
META["technique"] += '; zero-expected lint for lexical path normalisation in the loaders (positive example kept)'
META["technique"] += '; hand-through of the template name in Environment.get_template'

JOIN_ATTRS = {"joinpath"}
READ_ATTRS = {"open", "read_text", "read_bytes", "stat", "exists", "is_file", "is_dir", "iterdir", "glob", "rglob", "lstat"}
SAFE_REDERIVE = {"with_suffix", "with_name", "str", "Path", "PurePath", "PurePosixPath"}


def _names(e: ast.AST) -> set[str]:
    return {n.id for n in ast.walk(e) if isinstance(n, ast.Name)}


def _atoms(test: ast.expr) -> list[tuple[ast.expr, bool]] | None:
    """Decompose a guard test into (atom, bad_when_true) for an Or-combination; None if not decomposable."""
    if isinstance(test, ast.BoolOp):
        if isinstance(test.op, ast.Or):
            out: list[tuple[ast.expr, bool]] = []
            for v in test.values:
                sub = _atoms(v)
                if sub is None:
                    return None
                out += sub
            return out
        return None  # `a and b` raises only when both hold: not a guard for either
    if isinstance(test, ast.UnaryOp) and isinstance(test.op, ast.Not):
        sub = _atoms(test.operand)
        if sub is None or len(sub) != 1:
            return None
        return [(sub[0][0], not sub[0][1])]
    return [(test, True)]


def _classify(atom: ast.expr) -> tuple[str | None, bool]:
    """('pardir'|'absolute'|'contained'|None, bad_when_true)."""
    txt = norm(atom, 400)
    if isinstance(atom, ast.Compare) and len(atom.ops) == 1 and isinstance(atom.ops[0], (ast.In, ast.NotIn)):
        left = atom.left
        is_pardir = (dotted(left) in ("os.path.pardir", "os.pardir", "pardir")) or (isinstance(left, ast.Constant) and left.value == "..")
        # every segment is searched: the right operand is `<path>.parts` itself, not an index or a slice of it (`parts[:1]` only looks at the first)
        whole = atom.comparators[0]
        if is_pardir and isinstance(whole, ast.Attribute) and whole.attr == "parts":
            return "pardir", isinstance(atom.ops[0], ast.In)
    if isinstance(atom, ast.Call):
        d = dotted(atom.func) or ""
        if d.endswith(".is_absolute") or d in ("os.path.isabs", "isabs"):
            return "absolute", True
        if d.endswith(".is_relative_to"):
            return "contained", False
    if isinstance(atom, ast.Attribute) and atom.attr in ("anchor", "root", "drive"):
        return "absolute", True
    if isinstance(atom, ast.Call) and isinstance(atom.func, ast.Attribute) and atom.func.attr == "startswith":
        if atom.args and (norm(atom.args[0]) in ("'/'", "os.sep", "os.path.sep", "('/', '\\\\')") or "sep" in norm(atom.args[0])):
            return "absolute", True
    return None, True


def _raises_only(cfg: CFG, start: N, label: str, target: N) -> bool:
    """From *start* taking edge *label*, the join *target* cannot be reached."""
    for m, lab in start.succ:
        if lab == label:
            if m is target or target.id in cfg.reachable(m):
                return False
    return True


# members of the joined path that only probe, read or test containment (anything else - expanduser, parent, resolve, with_name … - moves it)
USE_AS_IS = {
    "is_file", "is_dir", "exists", "stat", "lstat", "open", "read_text", "read_bytes", "as_posix", "relative_to", "is_relative_to", "samefile",
    "name", "stem", "suffix", "suffixes", "parts", "is_absolute", "__str__", "__fspath__", "is_symlink", "match",
}


def run(prog: Program, res: Result) -> None:
    res.explanation = (
        "For every function in liquid2/builtin/loaders and liquid2/loader.py that joins a value derived from a "
        "parameter onto another path (joinpath, /, os.path.join), the CFG is searched for guard tests whose failing "
        "branch cannot reach the join and whose passing branch is the only way to it; one must reject os.pardir in "
        ".parts and one must reject absolute/anchored names (or a containment post-check must dominate the return), "
        "both on a name in the def-use closure of the joined value, with only suffix/str/Path re-derivations after them."
    )
    res.not_decided += ["symlinks inside the search roots", "platform-specific path quirks (drive-relative names on Windows)"]
    res.trusted_base += ["pathlib: joinpath(relative, pardir-free) stays under the left operand", "sa.cfg"]

    loader_mods = [m for m in prog.modules.values() if m.relpath.startswith("liquid2/builtin/loaders/") or m.relpath == "liquid2/loader.py"]
    res.floor("C13", "loader modules", len(loader_mods), 6)

    # ------------------------------------------------------------------ R1
    res.rule("C13.R1", "every join of a caller-supplied name onto a root is dominated by a parent-segment guard and an absolute-name guard on the joined value (or a containment post-check)")
    n_join = 0
    resolvers: set[str] = set()
    for mod in loader_mods:
        for fi in mod.functions.values():
            params = set(fi.params()) - {"self", "cls"}
            if not params or fi.name == "__init__":
                continue  # constructor arguments are the configured roots themselves
            joins: list[tuple[ast.AST, ast.expr]] = []
            for n in ast.walk(fi.node):
                if isinstance(n, ast.Call) and isinstance(n.func, ast.Attribute) and n.func.attr in JOIN_ATTRS and n.args:
                    joins.append((n, n.args[0]))
                elif isinstance(n, ast.Call) and dotted(n.func) in ("os.path.join", "posixpath.join", "ntpath.join") and len(n.args) >= 2:
                    joins.append((n, n.args[-1]))
                elif isinstance(n, ast.BinOp) and isinstance(n.op, ast.Div):
                    joins.append((n, n.right))
            if not joins:
                continue
            # def-use closure: names from which the joined value derives
            assigns: list[tuple[str, ast.expr, ast.AST]] = []
            for n in ast.walk(fi.node):
                if isinstance(n, ast.Assign) and len(n.targets) == 1 and isinstance(n.targets[0], ast.Name):
                    assigns.append((n.targets[0].id, n.value, n))
                elif isinstance(n, ast.NamedExpr):
                    assigns.append((n.target.id, n.value, n))
            for join, arg in joins:
                closure = set(_names(arg))
                changed = True
                while changed:
                    changed = False
                    for tgt, val, _ in assigns:
                        if tgt in closure:
                            new = _names(val) - closure
                            if new:
                                closure |= new
                                changed = True
                if not (closure & params):
                    continue  # joins configuration values only (e.g. package_path in __init__)
                n_join += 1
                resolvers.add(fi.name)
                res.analysed_functions.add(fi.fid)
                cfg = CFG(fi.node)
                jn = next((x for x in cfg.nodes if x.node is not None and x.kind in ("stmt", "test") and any(y is join for y in ast.walk(x.node))), None)
                if jn is None:
                    res.fail("C13.R1", file=fi.file, line=join.lineno, qualname=fi.qualname, construct=join, message="join site not found in the CFG (unsupported construct)")
                    continue
                have: dict[str, N] = {}
                for t in cfg.nodes:
                    if t.kind != "test" or t.node is None:
                        continue
                    atoms = _atoms(t.node)  # type: ignore[arg-type]
                    if atoms is None:
                        continue
                    for atom, bad_true0 in atoms:
                        kind, bad_true1 = _classify(atom)
                        if kind is None:
                            continue
                        bad_true = bad_true0 == bad_true1
                        if not (_names(atom) & closure):
                            continue
                        bad_label = "true" if bad_true else "false"
                        good_label = "false" if bad_true else "true"
                        # (i) the bad branch never reaches the join
                        if not _raises_only(cfg, t, bad_label, jn):
                            continue
                        # (ii) every path entry -> join passes through t
                        if jn.id in cfg.reachable(cfg.entry, avoid=lambda x, t=t: x is t):
                            continue
                        del good_label
                        have.setdefault(kind, t)
                site = f"{fi.file}:{join.lineno} {fi.qualname}"
                what = f"`{norm(join, 80)}` guarded"
                missing = []
                if "contained" not in have:
                    if "pardir" not in have:
                        missing.append("parent-directory segments ('..' in .parts)")
                    if "absolute" not in have:
                        missing.append("absolute / anchored names (is_absolute())")
                if missing:
                    res.fail(
                        "C13.R1",
                        file=fi.file,
                        line=join.lineno,
                        qualname=fi.qualname,
                        construct=f"{norm(join, 80)} missing guard: {', '.join(missing)}",
                        message=f"a caller-supplied template name reaches `{norm(join, 60)}` without a dominating guard against "
                        + " and ".join(missing)
                        + " (pathlib discards the search root when the right operand is absolute)",
                        what=what,
                    )
                    continue
                # (iii) no unsafe re-derivation after the guards
                bad_rederive = None
                guard_nodes = list(have.values())
                for tgt, val, stmt in assigns:
                    if tgt not in closure:
                        continue
                    sn = next((x for x in cfg.nodes if x.kind in ("stmt", "test") and x.node is not None and any(y is stmt for y in ast.walk(x.node))), None)
                    if sn is None:
                        continue
                    after_guard = any(sn.id in cfg.reachable(g) for g in guard_nodes)
                    before_join = jn.id in cfg.reachable(sn)
                    if after_guard and before_join:
                        ok = False
                        if isinstance(val, ast.Call) and isinstance(val.func, ast.Name) and val.func.id in SAFE_REDERIVE:
                            # str(x) / Path(x) of a plain closure name
                            ok = len(val.args) == 1 and not val.keywords and isinstance(val.args[0], ast.Name) and val.args[0].id in closure
                        elif isinstance(val, ast.Call) and isinstance(val.func, ast.Attribute) and val.func.attr in ("with_suffix", "with_name"):
                            # x.with_suffix(<configuration>): the suffix must not be caller data
                            ok = isinstance(val.func.value, ast.Name) and val.func.value.id in closure and all(not (_names(a) & params) for a in val.args)
                        if not ok:
                            bad_rederive = stmt
                # (iv) the joined path is used as it is: only probing / reading / containment-testing members are touched on it
                joined_names = {tgt for tgt, val, _ in assigns if any(y is join for y in ast.walk(val))}
                rewrites = []
                for x in ast.walk(fi.node):
                    if isinstance(x, ast.Attribute) and (x.value is join or (isinstance(x.value, ast.Name) and x.value.id in joined_names)) and x.attr not in USE_AS_IS:
                        rewrites.append(x)
                    if isinstance(x, ast.Call) and (dotted(x.func) or "") in ("os.path.expanduser", "os.path.expandvars", "os.path.realpath", "os.path.normpath", "os.path.abspath") and any((a is join) or (isinstance(a, ast.Name) and a.id in joined_names) for a in x.args):
                        rewrites.append(x)
                if rewrites and "contained" not in have:
                    rw = rewrites[0]
                    res.fail(
                        "C13.R1",
                        file=fi.file,
                        line=rw.lineno,
                        qualname=fi.qualname,
                        construct=f"{fi.qualname}: joined path rewritten by {norm(rw, 60)} after the guards",
                        message=f"the path built from the caller-supplied name is rewritten after the confinement guards (`{norm(rw, 70)}`): expanduser/expandvars/parent/resolve can move it outside the search root the guards were about ('~/x' joined onto '.' becomes $HOME/x)",
                        what=what,
                    )
                    continue
                if bad_rederive is not None:
                    res.fail(
                        "C13.R1",
                        file=fi.file,
                        line=bad_rederive.lineno,
                        qualname=fi.qualname,
                        construct=bad_rederive,
                        message="the joined value is re-derived after the confinement guards by something other than suffix/str/Path",
                        what=what,
                    )
                else:
                    res.ok("C13.R1", site, what, "guards: " + ", ".join(f"{k} at line {v.line}" for k, v in sorted(have.items())))
    # (v) what a resolver hands back is the guarded join: never the caller-supplied name itself (or a path made from it without a join)
    for mod in loader_mods:
        for fi in mod.functions.values():
            if fi.name not in resolvers:
                continue
            params = set(fi.params()) - {"self", "cls"}
            derived: set[str] = set(params)
            joined: set[str] = set()
            changed = True
            while changed:
                changed = False
                for a in ast.walk(fi.node):
                    if isinstance(a, ast.Assign) and len(a.targets) == 1 and isinstance(a.targets[0], ast.Name):
                        tname = a.targets[0].id
                        is_join = any((isinstance(c, ast.Call) and isinstance(c.func, ast.Attribute) and c.func.attr in JOIN_ATTRS) or (isinstance(c, ast.BinOp) and isinstance(c.op, ast.Div)) for c in ast.walk(a.value))
                        if is_join and tname not in joined:
                            joined.add(tname)
                            changed = True
                        elif not is_join and (_names(a.value) & derived) and tname not in derived and tname not in joined:
                            derived.add(tname)
                            changed = True
            for r in ast.walk(fi.node):
                if isinstance(r, ast.Return) and isinstance(r.value, ast.Name) and r.value.id in derived and r.value.id not in joined and prog.enclosing_function(mod, r) is fi:
                    n_join += 1
                    res.fail("C13.R1", file=fi.file, line=r.lineno, qualname=fi.qualname, construct=f"{fi.qualname}: returns the caller-supplied path `{r.value.id}` itself", message=f"{fi.qualname} can return `{r.value.id}`, which is made from the caller-supplied name without being joined onto a search root: an absolute name that merely *starts with* a root (`<root>/../secret`) is read as it stands - lexical containment (`is_relative_to`) does not survive `..`", what=f"{fi.qualname}: every returned path is a guarded join onto a root")
    res.floor("C13.R1", "name-onto-root joins", n_join, 2)

    # ------------------------------------------------------------------ R2 who-may-read
    res.rule("C13.R2", "file-system reads occur only in loader modules, on the result of a resolver (or inside it / in helpers that only receive resolver results)")
    n_read = 0
    for mod in prog.modules.values():
        in_loader = mod in loader_mods
        for fi in mod.functions.values():
            for c in ast.walk(fi.node):
                if not isinstance(c, ast.Call):
                    continue
                is_open = isinstance(c.func, ast.Name) and c.func.id == "open"
                is_read = isinstance(c.func, ast.Attribute) and c.func.attr in READ_ATTRS
                if is_read:
                    recv = c.func.value  # type: ignore[union-attr]
                    rn = root_name(recv)
                    # only path-like receivers: skip obvious non-paths (self.cache.…, dict/str methods never in READ_ATTRS)
                    if rn is None:
                        continue
                    if isinstance(recv, ast.Attribute) and rn == "self":
                        continue  # self.x.open(): not a path operation in this code base (no such site today)
                if not (is_open or is_read):
                    continue
                if prog.enclosing_function(mod, c) is not fi:
                    continue
                n_read += 1
                site = f"{fi.file}:{c.lineno} {fi.qualname}"
                what = f"`{norm(c, 60)}` reads a resolver result"
                if not in_loader:
                    res.fail("C13.R2", file=fi.file, line=c.lineno, qualname=fi.qualname, construct=c, message="file-system access outside the loader modules", what=what)
                    continue
                rn = root_name(c.args[0]) if is_open and c.args else root_name(c.func.value)  # type: ignore[union-attr]
                reason = _path_provenance(prog, fi, rn, resolvers)
                if reason:
                    res.ok("C13.R2", site, what, reason)
                else:
                    res.fail("C13.R2", file=fi.file, line=c.lineno, qualname=fi.qualname, construct=c, message=f"path `{rn}` read here does not come from a resolver ({sorted(resolvers)})", what=what)
            # references to read methods passed as callables: run_in_executor(None, p.read_text, …)
            for a in ast.walk(fi.node):
                if isinstance(a, ast.Attribute) and a.attr in ("read_text", "read_bytes", "open") and not isinstance(mod.parent(a), ast.Call):
                    par = mod.parent(a)
                    del par
            for c in ast.walk(fi.node):
                if isinstance(c, ast.Call):
                    for arg in c.args:
                        if isinstance(arg, ast.Attribute) and arg.attr in ("read_text", "read_bytes", "open", "stat") and c.func is not arg:
                            n_read += 1
                            rn = root_name(arg.value)
                            site = f"{fi.file}:{c.lineno} {fi.qualname}"
                            what = f"`{norm(arg)}` (passed as a callable) reads a resolver result"
                            if not in_loader:
                                res.fail("C13.R2", file=fi.file, line=c.lineno, qualname=fi.qualname, construct=arg, message="file-system access outside the loader modules", what=what)
                            else:
                                reason = _path_provenance(prog, fi, rn, resolvers)
                                if reason:
                                    res.ok("C13.R2", site, what, reason)
                                else:
                                    res.fail("C13.R2", file=fi.file, line=c.lineno, qualname=fi.qualname, construct=arg, message=f"path `{rn}` does not come from a resolver", what=what)
    res.floor("C13.R2", "file-system read sites", n_read, 5)

    # ------------------------------------------------------------------ R3 who-may-load
    res.rule("C13.R3", "loader entry points (load/get_source and async variants) are called only from loaders and Environment.get_template*; tags load templates only through env.get_template[_async]")
    n_load = 0
    for mod in prog.modules.values():
        for fi in mod.functions.values():
            for c in ast.walk(fi.node):
                if isinstance(c, ast.Call) and isinstance(c.func, ast.Attribute) and c.func.attr in ("get_source", "get_source_async", "load", "load_async"):
                    if prog.enclosing_function(mod, c) is not fi:
                        continue
                    recv = norm(c.func.value)
                    if c.func.attr.startswith("load") and not ("loader" in recv or recv.startswith("super()") or recv == "self"):
                        continue  # json.load etc.
                    n_load += 1
                    ok = mod in loader_mods or mod.relpath == "liquid2/environment.py"
                    site = f"{fi.file}:{c.lineno} {fi.qualname}"
                    what = f"`{norm(c, 60)}` called from a loader or the environment"
                    if ok:
                        res.ok("C13.R3", site, what, "inside loader/environment module")
                    else:
                        res.fail("C13.R3", file=fi.file, line=c.lineno, qualname=fi.qualname, construct=c, message="loader entry point called directly, bypassing Environment.get_template", what=what)
    res.floor("C13.R3", "loader entry-point calls", n_load, 6)
    res.rule("C13.R5", "a name with parent-directory segments fails as written: no function of the loaders normalises a template name lexically (os.path.normpath / abspath / realpath, Path.resolve, expanduser) before the guard in resolve_path - or the cache key - sees it; `nosuchdir/../main.html` must not become `main.html`")
    from checks.shared import check_no_lexical_path_normalisation

    check_no_lexical_path_normalisation(prog, res, "C13.R5")
    res.rule("C13.R6", "the loader judges the name the caller gave: Environment.get_template[_async] passes its `name` parameter to loader.load[_async] as it is - never rebound, stripped or rewritten on the way (`./../x` with its leading `./..` stripped reaches the guard as `x`)")
    env_cls6 = prog.cls("liquid2.environment.Environment")
    n6 = 0
    for nm6 in ("get_template", "get_template_async"):
        m6 = env_cls6.methods.get(nm6)
        if m6 is None:
            raise AnalysisError(f"Environment.{nm6} vanished")
        loads6 = [c for c in ast.walk(m6.node) if isinstance(c, ast.Call) and isinstance(c.func, ast.Attribute) and c.func.attr in ("load", "load_async")]
        site6 = f"{m6.file}:{m6.node.lineno} Environment.{nm6}"
        what6 = f"Environment.{nm6}: `name` reaches the loader as given"
        problems6 = []
        if not loads6:
            problems6.append((m6.node.lineno, "no loader.load call"))
        for c in loads6:
            n6 += 1
            arg = next((k.value for k in c.keywords if k.arg == "name"), c.args[1] if len(c.args) > 1 else None)
            if not (isinstance(arg, ast.Name) and arg.id == "name"):
                problems6.append((c.lineno, f"the loader receives `{norm(arg, 40) if arg is not None else '<nothing>'}`"))
        for a in ast.walk(m6.node):
            if isinstance(a, (ast.Assign, ast.AugAssign, ast.AnnAssign)) and any(isinstance(t, ast.Name) and t.id == "name" for t_ in (a.targets if isinstance(a, ast.Assign) else [a.target]) for t in ast.walk(t_)):
                problems6.append((a.lineno, f"`{norm(a, 50)}` rebinds name"))
        if problems6:
            res.fail("C13.R6", file=m6.file, line=problems6[0][0], qualname=f"Environment.{nm6}", construct=f"Environment.{nm6}: the template name is rewritten before the loader sees it", message=f"Environment.{nm6}: {problems6[0][1]} - the absolute / parent-directory guard lives in the loader and tests what it is handed; a prefix stripped here (`./../main.liquid` -> `main.liquid`) turns a name that must fail into one that loads", what=what6)
        else:
            res.ok("C13.R6", site6, what6, "name=name, never rebound")
    res.floor("C13.R6", "loader.load calls in Environment.get_template", n6, 2)

    # ------------------------------------------------------------------ R4 twins of the source getters
    res.rule("C13.R4", "sync and async source getters / loaders agree (await-normalised)")
    for fs, fa in twins.find_pairs(prog):
        if fa.module not in loader_mods:
            continue
        site = f"{fa.file}:{fa.node.lineno} {fa.qualname}"
        what = f"{fa.qualname} == {fs.qualname} modulo await"
        if twins.is_default_delegation(fa.node, fs.name):
            res.ok("C13.R4", site, what, "default delegation")
            continue
        diffs = twins.diff_functions(twins.normalise(fs.node), twins.normalise(fa.node))
        if not diffs:
            res.ok("C13.R4", site, what, "identical after normalisation")
        else:
            d = diffs[0]
            res.fail("C13.R4", file=fa.file, line=d.async_line or fa.node.lineno, qualname=fa.qualname, construct=f"sync `{d.sync_text}` vs async `{d.async_text}`", message=f"async loader twin differs from {fs.qualname}", what=what)


def _path_provenance(prog: Program, fi: FunctionInfo, name: str | None, resolvers: set[str]) -> str | None:
    if name is None:
        return None
    if fi.name in resolvers:
        return "inside the resolver itself (existence test on the joined path)"
    # assigned from a resolver call in this function
    for n in ast.walk(fi.node):
        if isinstance(n, ast.Assign) and any(isinstance(t, ast.Name) and t.id == name for t in n.targets):
            v = n.value
            if isinstance(v, ast.Await):
                v = v.value
            if isinstance(v, ast.Call):
                if isinstance(v.func, ast.Attribute) and v.func.attr in resolvers:
                    return f"assigned from {v.func.attr}()"
                if isinstance(v.func, ast.Attribute) and v.func.attr == "run_in_executor" and len(v.args) >= 2 and isinstance(v.args[1], ast.Attribute) and v.args[1].attr in resolvers:
                    return f"assigned from {v.args[1].attr}() via executor"
    # parameter of a helper whose every reference passes a resolver result
    params = fi.params()
    if name in params and fi.cls is not None:
        idx = [p for p in params if p not in ("self", "cls")].index(name)
        refs = 0
        good = 0
        for other in fi.cls.methods.values():
            for n in ast.walk(other.node):
                if isinstance(n, ast.Attribute) and n.attr == fi.name and isinstance(n.value, ast.Name) and n.value.id in ("self", "cls"):
                    par = other.module.parent(n)
                    args: list[ast.expr] = []
                    if isinstance(par, ast.Call) and par.func is n:
                        args = list(par.args)
                    elif isinstance(par, ast.Call):  # passed to partial(...) / run_in_executor(None, f, a…)
                        i = par.args.index(n) if n in par.args else -1
                        args = list(par.args[i + 1 :]) if i >= 0 else []
                    refs += 1
                    if len(args) > idx:
                        an = root_name(args[idx])
                        if an and (_path_provenance(prog, other, an, resolvers) if other is not fi else None):
                            good += 1
        if refs and refs == good:
            return f"parameter of helper {fi.name}; all {refs} references pass a resolver result"
    return None
