"""C14 - caching loaders are transparent (key / globals / staleness discipline, LRU shape)."""

from __future__ import annotations

import ast

from sa import twins
from sa.cfg import CFG
from sa.util import guarded_by_test
from sa.report import AnalysisError
from sa.report import Result
from sa.report import norm
from sa.srcmodel import Program
from sa.srcmodel import dotted

META = {
    "technique": "CFG must-pass-through rules on _check_cache/_check_cache_async (key identity, unconditional globals "
    "rebinding, staleness test before a hit, store before return), argument-flow lint on load/load_async, "
    "LRU shape audit and override exhaustiveness of ThreadSafeLRUCache, twin agreement",
    "level_text": "Decides the structural discipline that every history relies on: one key variable for lookup and "
    "store, derived from cache_key(name, context, kwargs); the original name handed to the wrapped loader; the "
    "caller's globals rebound on every hit path; a hit only after the staleness test; reloads stored before they "
    "are returned; LRU recency/eviction statements in place. The quantifier over histories is NOT explored.",
    "level_note": "Trusts OrderedDict.move_to_end/popitem semantics. Interleavings of modifications, capacity "
    "dynamics and failure injection are not decided by this technique.",
}
META["technique"] += '; constructor-parameter forwarding of the caching loaders; who-may-read the template cache'
META["technique"] += "; freshness-covers-search rule (the uptodate of a first-match source re-runs the match)"
META["technique"] += '; a failing freshness test never answers fresh'

MIXIN = "liquid2.builtin.loaders.mixins.CachingLoaderMixin"


def _is_self_attr(e: ast.AST | None, attr: str) -> bool:
    return isinstance(e, ast.Attribute) and e.attr == attr and isinstance(e.value, ast.Name) and e.value.id == "self"


def run(prog: Program, res: Result) -> None:
    res.explanation = (
        "Rules over CachingLoaderMixin._check_cache[_async] and load[_async] (slots filled from the code: the cache "
        "attribute is the one assigned an LRUCache in __init__, the key function is the method both load twins call), "
        "plus shape rules on liquid2.utils.lru_cache."
    )
    res.not_decided += [
        "histories: interleaved modifications, deletions, capacity dynamics, failing loads (the property's main quantifier)",
        "freshness semantics of FileSystemLoader._uptodate (mtime equality)",
    ]
    res.trusted_base += ["collections.OrderedDict semantics", "sa.cfg"]
    mixin = prog.cls(MIXIN)
    rel = mixin.file

    for name in ("_check_cache", "_check_cache_async", "load", "load_async", "cache_key"):
        if name not in mixin.methods:
            raise AnalysisError(f"CachingLoaderMixin.{name} vanished")

    # ------------------------------------------------------------------ R1 key discipline
    res.rule("C14.R1", "lookup and store in _check_cache* use the same key parameter; load* passes cache_key(name, context, kwargs) as that key and the original name to the wrapped loader")
    for fname in ("_check_cache", "_check_cache_async"):
        f = mixin.methods[fname]
        res.analysed_functions.add(f.fid)
        params = f.params()
        subs = [n for n in ast.walk(f.node) if isinstance(n, ast.Subscript) and _is_self_attr(n.value, "cache")]
        res.floor("C14.R1", f"self.cache[...] uses in {fname}", len(subs), 2)
        keys = {norm(s.slice) for s in subs}
        site = f"{rel}:{f.node.lineno} CachingLoaderMixin.{fname}"
        what = "all self.cache[...] subscripts use one key parameter"
        if len(keys) == 1 and next(iter(keys)) in params:
            res.ok("C14.R1", site, what, f"key parameter `{next(iter(keys))}` used for {len(subs)} lookups/stores")
        else:
            res.fail("C14.R1", file=rel, line=f.node.lineno, qualname=f"CachingLoaderMixin.{fname}", construct=f"self.cache keys {sorted(keys)}", message=f"cache lookups and stores use different keys {sorted(keys)}: an entry stored under one key is looked up under another", what=what)
        # no other cache mutation / use of name-like data as key
        for n in ast.walk(f.node):
            if isinstance(n, ast.Call) and isinstance(n.func, ast.Attribute) and _is_self_attr(n.func.value, "cache") and n.func.attr not in ("get",):
                res.fail("C14.R1", file=rel, line=n.lineno, qualname=f"CachingLoaderMixin.{fname}", construct=n, message="cache accessed through a method other than item access", what=what)
        key_param_index = params.index(next(iter(keys))) if len(keys) == 1 and next(iter(keys)) in params else None

        # corresponding load twin
        lname = "load" if fname == "_check_cache" else "load_async"
        lf = mixin.methods[lname]
        res.analysed_functions.add(lf.fid)
        calls = [c for c in ast.walk(lf.node) if isinstance(c, ast.Call) and isinstance(c.func, ast.Attribute) and c.func.attr == fname]
        site = f"{rel}:{lf.node.lineno} CachingLoaderMixin.{lname}"
        if len(calls) != 1 or key_param_index is None:
            res.fail("C14.R1", file=rel, line=lf.node.lineno, qualname=f"CachingLoaderMixin.{lname}", construct=f"{lname} calls {fname} {len(calls)} times", message=f"{lname} does not call {fname} exactly once", what="load calls _check_cache once")
            continue
        call = calls[0]
        # positional index excludes self
        idx = key_param_index - 1
        key_arg = call.args[idx] if idx < len(call.args) else next((k.value for k in call.keywords if k.arg == params[key_param_index]), None)
        lparams = lf.params()

        def _is_cache_key_call(e: ast.AST | None) -> bool:
            if not (isinstance(e, ast.Call) and isinstance(e.func, ast.Attribute) and e.func.attr == "cache_key" and isinstance(e.func.value, ast.Name) and e.func.value.id == "self"):
                return False
            a = [norm(x) for x in e.args]
            return len(a) == 3 and a[0] == "name" and a[1] == "context" and a[2] == "kwargs"

        def _resolve_local(e: ast.AST | None) -> ast.AST | None:
            if isinstance(e, ast.Name) and e.id not in lparams:
                vals = [n.value for n in ast.walk(lf.node) if isinstance(n, ast.Assign) and any(isinstance(t, ast.Name) and t.id == e.id for t in n.targets)]  # noqa: B023
                if len(vals) == 1:
                    return vals[0]
            return e

        what = f"{fname}(key=…) receives self.cache_key(name, context, kwargs)"
        if _is_cache_key_call(_resolve_local(key_arg)):
            res.ok("C14.R1", site, what, f"key argument is `{norm(_resolve_local(key_arg))}`")
        else:
            res.fail("C14.R1", file=rel, line=call.lineno, qualname=f"CachingLoaderMixin.{lname}", construct=f"{fname} key argument {norm(key_arg) if key_arg is not None else '<missing>'}", message="the cache key passed to the cache check is not self.cache_key(name, context, kwargs): entries of different namespaces collide or are never found", what=what)
        # the partial(super().load*, env, name, …) thunk
        thunks = [c for c in ast.walk(call) if isinstance(c, ast.Call) and dotted(c.func) in ("partial", "functools.partial")]
        what = f"wrapped loader receives the original name ({lname})"
        good = False
        for t in thunks:
            if t.args and isinstance(t.args[0], ast.Attribute) and t.args[0].attr == lname and norm(t.args[0].value) == "super()":
                a = [norm(x) for x in t.args[1:]]
                kw = {k.arg: norm(k.value) for k in t.keywords}
                if a[:2] == ["env", "name"] and kw.get("globals") == "globals" and kw.get("context") == "context" and kw.get(None) == "kwargs":
                    good = True
        if good:
            res.ok("C14.R1", site, what, "partial(super()." + lname + ", env, name, globals=globals, context=context, **kwargs)")
        else:
            res.fail("C14.R1", file=rel, line=call.lineno, qualname=f"CachingLoaderMixin.{lname}", construct=f"load thunk {norm(thunks[0], 120) if thunks else '<none>'}", message="the wrapped loader is not called with (env, name, globals=globals, context=context, **kwargs)", what=what)

    # cache_key: the namespace is selected by *presence* of the key, never by the truth value of what it maps to
    ck = mixin.methods["cache_key"]
    res.analysed_functions.add(ck.fid)
    what = "cache_key() selects the namespace by key presence (KeyError / `in`), not by truthiness"
    problems = []
    for n in ast.walk(ck.node):
        if isinstance(n, ast.Call) and isinstance(n.func, ast.Attribute) and n.func.attr == "get" and any("namespace_key" in norm(a) for a in n.args):
            problems.append(f"`{norm(n, 50)}` (a missing key and a falsy namespace become indistinguishable)")
        test = n.test if isinstance(n, (ast.If, ast.IfExp)) else None
        if test is not None:
            for atom in ([test] if not isinstance(test, ast.BoolOp) else test.values):
                a = atom.operand if isinstance(atom, ast.UnaryOp) and isinstance(atom.op, ast.Not) else atom
                if isinstance(a, ast.Name) and a.id not in ("context",):
                    problems.append(f"truth test on `{a.id}`")
        if isinstance(n, ast.BoolOp) and isinstance(n.op, ast.Or) and any(isinstance(v, (ast.Subscript, ast.Call)) for v in n.values):
            problems.append(f"`{norm(n, 50)}` falls back on a falsy namespace")
    subs = [x for x in ast.walk(ck.node) if isinstance(x, ast.Subscript) and "namespace_key" in norm(x.slice)]
    if not problems and len(subs) >= 2:
        res.ok("C14.R1", f"{rel}:{ck.node.lineno} CachingLoaderMixin.cache_key", what, "args[key] / context.globals[key] under KeyError handling")
    else:
        res.fail("C14.R1", file=rel, line=ck.node.lineno, qualname="CachingLoaderMixin.cache_key", construct="cache_key namespace selection: " + "; ".join(problems or ["no keyed lookups"]), message="cache_key decides on the truth value of the namespace instead of its presence: " + "; ".join(problems or ["no keyed lookups"]) + " - a falsy namespace (0, '', False) is cached under the bare name and served to other tenants", what=what)
    # args take priority over context globals: the args lookup comes first
    order = [norm(x.value) for x in sorted(subs, key=lambda x: x.lineno)]
    what = "cache_key(): loader keyword arguments take priority over context globals"
    if order[:2] == ["args", "context.globals"]:
        res.ok("C14.R1", f"{rel}:{ck.node.lineno} CachingLoaderMixin.cache_key", what, "args first")
    else:
        res.fail("C14.R1", file=rel, line=ck.node.lineno, qualname="CachingLoaderMixin.cache_key", construct=f"lookup order {order}", message="namespace lookup order changed: a context global can override the explicit loader argument", what=what)

    # R1b: the key is an injective function of (namespace, name)
    res.rule("C14.R1b", "cache_key composes the namespace and the template name injectively (a tuple, or the name alone when there is no namespace): joining two free-form strings with a separator makes ('a', 'b/c') and ('a/b', 'c') - and the bare name 'a/b/c' - the same key")
    n_ck = 0
    for r_ in ast.walk(ck.node):
        if not isinstance(r_, ast.Return) or r_.value is None:
            continue
        n_ck += 1
        v = r_.value
        what = f"`{norm(r_, 60)}` is an unambiguous key"
        parts = [x for x in v.values if isinstance(x, ast.FormattedValue)] if isinstance(v, ast.JoinedStr) else []
        concat = isinstance(v, ast.BinOp) and isinstance(v.op, (ast.Add, ast.Mod))
        if len(parts) >= 2 or concat:
            res.fail("C14.R1b", file=rel, line=r_.lineno, qualname="CachingLoaderMixin.cache_key", construct=f"cache_key joins the namespace taken from {'the load arguments' if 'args' in norm(v, 200) else ('the render context' if 'context' in norm(v, 200) else 'elsewhere')} and the name into one string", message=f"`{norm(v, 50)}` joins the namespace and the name into one string: different (namespace, name) pairs - and plain names containing the separator - collide, so a template loaded for one namespace is served to another", what=what)
        else:
            res.ok("C14.R1b", f"{rel}:{r_.lineno} CachingLoaderMixin.cache_key", what, "single component / tuple")
    res.floor("C14.R1b", "returns of cache_key", n_ck, 2)

    # R2b: a hit hands out the shared object itself and re-labels it for the current caller
    res.rule("C14.R2b", "a cache hit does not change the object other callers still hold: no attribute of the cached template is assigned on a hit (each caller's globals would have to live in a per-call copy)")
    for fname in ("_check_cache", "_check_cache_async"):
        f = mixin.methods[fname]
        cached_names = {t.id for n in ast.walk(f.node) if isinstance(n, ast.Assign) and isinstance(n.value, ast.Subscript) and _is_self_attr(n.value.value, "cache") for t in n.targets if isinstance(t, ast.Name)}
        stores = [a for a in ast.walk(f.node) if isinstance(a, ast.Assign) and any(isinstance(t, ast.Attribute) and isinstance(t.value, ast.Name) and t.value.id in cached_names for t in a.targets)]
        if not stores:
            res.ok("C14.R2b", f"{rel}:{f.node.lineno} CachingLoaderMixin.{fname}", "the cached template is not modified on a hit", "no attribute store")
        for a in stores:
            attr = next(t.attr for t in a.targets if isinstance(t, ast.Attribute))
            res.fail("C14.R2b", file=rel, line=a.lineno, qualname=f"CachingLoaderMixin.{fname}", construct=f"store cached_template.{attr}", message=f"CachingLoaderMixin.{fname} assigns `{attr}` on the cached Template, which every earlier caller still holds: a template obtained with one caller's globals renders with the globals of whoever fetched (or included) it last", what=f"`{norm(a, 60)}` does not modify the shared cached object")

    from checks.shared import check_freshness_equality

    check_freshness_equality(prog, res, "C14.R3")

    # ------------------------------------------------------------------ R2 / R3 on the CFG of _check_cache*
    res.rule("C14.R2", "every path of _check_cache* that returns the cached object first rebinds its global_data from the caller's globals, unconditionally")
    res.rule("C14.R5", "a cached template is a hit only for the Environment it was parsed for (the hit return lies on the false edge of a test containing `<cached>.env is not env`)")
    res.rule("C14.R3", "a cached object is returned only after the staleness test (auto_reload and not is_up_to_date) came out false; a reloaded template is stored before it is returned")
    for fname in ("_check_cache", "_check_cache_async"):
        f = mixin.methods[fname]
        cfg = CFG(f.node)
        # the cached variable: assigned from self.cache[...]
        cached_names = {t.id for n in ast.walk(f.node) if isinstance(n, ast.Assign) and isinstance(n.value, ast.Subscript) and _is_self_attr(n.value.value, "cache") for t in n.targets if isinstance(t, ast.Name)}
        if len(cached_names) != 1:
            res.fail("C14.R2", file=rel, line=f.node.lineno, qualname=f"CachingLoaderMixin.{fname}", construct=f"cached-template variable not bound from self.cache[key]: {sorted(cached_names)}", message="the cache lookup is not a single `x = self.cache[key]`: hit/rebinding/staleness obligations cannot be established", what="lookup shape")
            continue
        cached = next(iter(cached_names))
        globals_param = next((p for p in f.params() if p == "globals"), None)
        if globals_param is None:
            raise AnalysisError(f"{fname}: no `globals` parameter")
        hit_returns = [n for n in cfg.nodes if n.kind == "stmt" and isinstance(n.node, ast.Return) and isinstance(n.node.value, ast.Name) and n.node.value.id == cached]
        res.floor("C14.R2", f"hit returns in {fname}", len(hit_returns), 1)

        def is_rebind(n: object) -> bool:
            nd = getattr(n, "node", None)
            if getattr(n, "kind", "") != "stmt" or not isinstance(nd, ast.Assign):
                return False
            for t in nd.targets:
                if isinstance(t, ast.Attribute) and t.attr == "global_data" and isinstance(t.value, ast.Name) and t.value.id == cached:
                    names = {x.id for x in ast.walk(nd.value) if isinstance(x, ast.Name)}
                    # from the caller's globals alone: a fallback to what the cached object already holds keeps an earlier caller's globals
                    return globals_param in names and cached not in names
            return False

        def is_stale_test(n: object) -> bool:
            nd = getattr(n, "node", None)
            if getattr(n, "kind", "") != "test" or nd is None:
                return False
            txt = norm(nd, 300)
            return "auto_reload" in txt and "is_up_to_date" in txt and cached in txt

        for r in hit_returns:
            site = f"{rel}:{r.line} CachingLoaderMixin.{fname}"
            what = f"`return {cached}` preceded by `{cached}.global_data = …globals…` on every path"
            if cfg.all_paths_pass(r, is_rebind):
                res.ok("C14.R2", site, what, "rebinding statement on every path to the hit return")
            else:
                res.fail("C14.R2", file=rel, line=r.line, qualname=f"CachingLoaderMixin.{fname}", construct=f"return {cached} reachable without rebinding {cached}.global_data", message="a cache hit can be returned without rebinding the caller's globals: the previous caller's globals are served (e.g. when the new caller passes none)", what=what)
            # R3: staleness test dominates the hit, and the hit is on its false edge
            what3 = f"`return {cached}` only after the staleness test is false"
            tests = [t for t in cfg.nodes if is_stale_test(t)]
            ok3 = False
            for t in tests:
                nd = t.node

                def stale_shape(x: ast.AST) -> bool:
                    return isinstance(x, ast.BoolOp) and isinstance(x.op, ast.And) and len(x.values) == 2 and _is_self_attr(x.values[0], "auto_reload") and isinstance(x.values[1], ast.UnaryOp) and isinstance(x.values[1].op, ast.Not)

                # the staleness condition itself, or a disjunction that contains it (the false edge then still implies it is false)
                shape_ok = stale_shape(nd) or (isinstance(nd, ast.BoolOp) and isinstance(nd.op, ast.Or) and any(stale_shape(v) for v in nd.values))
                dominated = r.id not in cfg.reachable(cfg.entry, avoid=lambda x, t=t: x is t)
                via_true = any(lab == "true" and (m is r or r.id in cfg.reachable(m)) for m, lab in t.succ)
                if shape_ok and dominated and not via_true:
                    ok3 = True
            if ok3:
                res.ok("C14.R3", site, what3, "test `self.auto_reload and not <cached>.is_up_to_date*()` dominates the hit; hit only on its false edge")
            else:
                res.fail("C14.R3", file=rel, line=r.line, qualname=f"CachingLoaderMixin.{fname}", construct=f"return {cached} not guarded by the staleness test", message="a cached template can be returned without (or in spite of) the auto_reload/is_up_to_date test", what=what3)
            # R5: a template parsed for another Environment is not a hit
            what5 = f"`return {cached}` only when the cached template is bound to the requesting environment"

            def env_guard(test: ast.AST) -> bool | None:
                disj = test.values if isinstance(test, ast.BoolOp) and isinstance(test.op, ast.Or) else [test]
                for d in disj:
                    if norm(d) in (f"{cached}.env is not env", f"{cached}.env != env", f"env is not {cached}.env"):
                        return True  # bad (other environment) on the true edge
                if norm(test) in (f"{cached}.env is env", f"{cached}.env == env"):
                    return False
                return None

            if guarded_by_test(cfg, r, env_guard) is not None:
                res.ok("C14.R5", site, what5, f"hit only on the false edge of a test containing `{cached}.env is not env`")
            else:
                res.fail("C14.R5", file=rel, line=r.line, qualname=f"CachingLoaderMixin.{fname}", construct=f"return {cached} without comparing its environment", message="the cache key does not include the Environment and a hit is returned without comparing the cached template's environment: with a loader shared by two environments, one gets templates parsed with the other's filters, tags, undefined type and auto_escape setting", what=what5)
        # reload paths store before returning
        loads = [n for n in cfg.nodes if n.kind == "stmt" and n.node is not None and any(isinstance(c, ast.Call) and isinstance(c.func, ast.Name) and c.func.id == "load_func" for c in ast.walk(n.node))]
        res.floor("C14.R3", f"load_func() calls in {fname}", len(loads), 2)

        def is_store(n: object) -> bool:
            nd = getattr(n, "node", None)
            return getattr(n, "kind", "") == "stmt" and isinstance(nd, ast.Assign) and any(isinstance(t, ast.Subscript) and _is_self_attr(t.value, "cache") for t in nd.targets)

        for ld in loads:
            loaded = next((t.id for t in getattr(ld.node, "targets", []) if isinstance(t, ast.Name)), None)
            site = f"{rel}:{ld.line} CachingLoaderMixin.{fname}"
            what = f"template from `{norm(ld.node, 50)}` stored in the cache before it is returned"
            bad = False
            for r in cfg.nodes:
                if r.kind == "stmt" and isinstance(r.node, ast.Return) and r.id in cfg.reachable(ld, labels={"next", "true", "false", "iter", "exhaust", "case", "nocase"}):
                    if r.id in cfg.reachable(ld, avoid=is_store, labels={"next", "true", "false", "iter", "exhaust", "case", "nocase"}):
                        bad = True
                    # and the stored / returned value is the loaded one
                    if loaded and not (isinstance(r.node.value, ast.Name) and r.node.value.id == loaded):
                        bad = True
            stores = [n for n in cfg.nodes if is_store(n) and n.id in cfg.reachable(ld)]
            if loaded and not any(isinstance(s.node.value, ast.Name) and s.node.value.id == loaded for s in stores):
                bad = True
            if bad:
                res.fail("C14.R3", file=rel, line=ld.line, qualname=f"CachingLoaderMixin.{fname}", construct=f"{norm(ld.node, 60)} not stored before return", message="a freshly loaded template is returned without being stored under the key (or something else is stored/returned)", what=what)
            else:
                res.ok("C14.R3", site, what, "self.cache[key] = <loaded> on every normal path from the load to the return")

    from checks.shared import check_uptodate_is_bool

    check_uptodate_is_bool(prog, res, "C14.R3")

    # ------------------------------------------------------------------ R4 LRU shape
    res.rule("C14.R6", "a cached Template carries no state of its own between callers: the caching loaders rebind global_data on every hit, so whatever a Template method derives from it (the globals chain of make_globals) is built at each call - no method of Template other than the constructor stores to self")
    from checks.shared import check_no_self_stores

    check_no_self_stores(prog, res, "C14.R6", ("liquid2.template.Template",), "a Template handed out by a caching loader is shared by every caller, and its global_data is rebound on each cache hit; a value memoised on the instance (the merged globals of a render without arguments) keeps pointing at an earlier caller's data", 20)
    res.rule("C14.R7", "a caching loader is configured by its caller: every __init__ parameter that CachingLoaderMixin / the wrapped loader implements reaches that initialiser as the bare parameter (namespace_key not dropped: cache keys carry the namespace; capacity not recomputed: an LRU of the requested size evicts and re-reads), and no parameter is accepted and ignored")
    from checks.shared import check_loader_ctor_forwarding

    check_loader_ctor_forwarding(prog, res, "C14.R7")
    res.rule("C14.R8", "every cache hit goes through the mixin's hit path (environment identity, freshness, globals rebinding): no loader method outside CachingLoaderMixin reads self.cache (= C06.R11)")
    from checks.shared import check_cache_read_ownership

    check_cache_read_ownership(prog, res, "C14.R8")
    res.rule("C14.R9", "a cached source that was picked by first match over several candidates (FileSystemLoader's search paths, ChoiceLoader's delegates) is fresh only while it is still the first match: the uptodate handed out with it re-runs the pick, or is None (no freshness information) - otherwise a template that appears in an earlier candidate is not served while the later one is cached and unchanged, where the uncached loader serves it at once")
    from checks.shared import check_freshness_covers_search

    check_freshness_covers_search(prog, res, "C14.R9")
    res.rule("C14.R10", "a freshness test that cannot be carried out never answers 'fresh': no exception handler in Template.is_up_to_date[_async] (or a helper they call) returns anything but False - a deleted source whose uptodate() raises is otherwise served from the cache for ever, where the uncached loader raises TemplateNotFoundError")
    from checks.shared import check_uptodate_failure_is_stale

    check_uptodate_failure_is_stale(prog, res, "C14.R10")
    res.rule("C14.R4", "LRUCache: _cache touched only inside the LRU classes; reads and writes refresh recency; eviction pops the oldest entry, only when full, only for a new key, before the insert; ThreadSafeLRUCache wraps every accessor under the lock")
    lru = prog.cls("liquid2.utils.lru_cache.LRUCache")
    tlru = prog.cls("liquid2.utils.lru_cache.ThreadSafeLRUCache")
    lrel = lru.file
    # who touches _cache
    n_touch = 0
    for mod in prog.modules.values():
        for n in ast.walk(mod.tree):
            if isinstance(n, ast.Attribute) and n.attr == "_cache":
                n_touch += 1
                q = prog.qual_at(mod, n)
                if not (mod is lru.module and (q.startswith("LRUCache.") or q.startswith("ThreadSafeLRUCache."))):
                    res.fail("C14.R4", file=mod.relpath, line=n.lineno, qualname=q, construct=n, message="LRU storage accessed outside the LRU classes (recency/eviction invariants can be bypassed)", what="_cache private to LRUCache")
    res.floor("C14.R4", "_cache accesses", n_touch, 8)
    gi, si = lru.methods.get("__getitem__"), lru.methods.get("__setitem__")
    if gi is None or si is None:
        raise AnalysisError("LRUCache.__getitem__/__setitem__ vanished")

    def calls(fn: ast.AST, attr: str) -> list[ast.Call]:
        return [c for c in ast.walk(fn) if isinstance(c, ast.Call) and isinstance(c.func, ast.Attribute) and c.func.attr == attr and _is_self_attr(c.func.value, "_cache")]

    for f, label in ((gi, "read"), (si, "write")):
        site = f"{lrel}:{f.node.lineno} LRUCache.{f.name}"
        what = f"{label} refreshes recency via move_to_end(key)"
        mv = calls(f.node, "move_to_end")
        fcfg = CFG(f.node)

        def _is_move(n: object) -> bool:
            nd = getattr(n, "node", None)
            return nd is not None and getattr(n, "kind", "") in ("stmt", "test") and any(c is x for c in mv for x in ast.walk(nd))

        exits = [n for n in fcfg.nodes if n.kind == "stmt" and isinstance(n.node, ast.Return)] + [src for src, lab in fcfg.exit.pred if lab != "exc" and not (src.kind == "stmt" and isinstance(src.node, (ast.Return, ast.Raise)))]
        every_path = bool(exits) and all(fcfg.all_paths_pass(r, _is_move) or _is_move(r) for r in exits)
        if mv and all(len(c.args) == 1 and norm(c.args[0]) == "key" and not c.keywords for c in mv) and every_path:
            res.ok("C14.R4", site, what, "self._cache.move_to_end(key) on every path to a normal exit")
        elif mv and not every_path:
            res.fail("C14.R4", file=lrel, line=f.node.lineno, qualname=f"LRUCache.{f.name}", construct=f"{f.name}: move_to_end(key) is conditional", message=f"a cache {label} refreshes recency only on some paths (move_to_end sits under a condition): a hit that leaves no recency trace makes a later eviction remove an entry that was used more recently than the one kept", what=what)
        else:
            res.fail("C14.R4", file=lrel, line=f.node.lineno, qualname=f"LRUCache.{f.name}", construct=f"{f.name} move_to_end calls: {[norm(c) for c in mv]}", message=f"a cache {label} does not move the key to the most-recent end: eviction is no longer least-recently-used", what=what)
    # eviction
    pops = calls(si.node, "popitem")
    site = f"{lrel}:{si.node.lineno} LRUCache.__setitem__"
    what = "eviction: popitem(last=False) under `len(self._cache) >= self.capacity`, in the new-key branch, before the insert"
    ok = False
    why = "no popitem call"
    if len(pops) == 1:
        p = pops[0]
        last_false = any(k.arg == "last" and isinstance(k.value, ast.Constant) and k.value.value is False for k in p.keywords) or (p.args and isinstance(p.args[0], ast.Constant) and p.args[0].value is False)
        guard = None
        in_handler = False
        for a in lru.module.ancestors(p):
            if isinstance(a, ast.If) and guard is None:
                guard = a.test
            if isinstance(a, ast.ExceptHandler) and dotted(a.type) == "KeyError":
                in_handler = True
            if a is si.node:
                break
        g = norm(guard) if guard is not None else ""
        guard_ok = g in ("len(self._cache) >= self.capacity", "self.capacity <= len(self._cache)", "len(self) >= self.capacity")
        # insert after the pop on every path: the store self._cache[key] = value is the last statement
        last = si.node.body[-1]
        insert_last = isinstance(last, ast.Assign) and isinstance(last.targets[0], ast.Subscript) and _is_self_attr(last.targets[0].value, "_cache") and norm(last.targets[0].slice) == "key" and norm(last.value) == "value"
        ok = bool(last_false and guard_ok and in_handler and insert_last)
        why = f"last=False:{bool(last_false)} guard:`{g}` in-KeyError-branch:{in_handler} insert-last:{insert_last}"
    if ok:
        res.ok("C14.R4", site, what, why)
    else:
        res.fail("C14.R4", file=lrel, line=si.node.lineno, qualname="LRUCache.__setitem__", construct=f"eviction shape {why}", message="eviction does not pop the least-recently-used entry exactly when a new key arrives at capacity", what=what)
    # capacity >= 1 check in __init__
    init = lru.methods.get("__init__")
    what = "LRUCache.__init__ rejects capacity < 1"
    if init is not None and any(isinstance(n, ast.If) and norm(n.test) in ("capacity < 1", "capacity <= 0") and any(isinstance(x, ast.Raise) for x in n.body) for n in ast.walk(init.node)):
        res.ok("C14.R4", f"{lrel}:{init.node.lineno} LRUCache.__init__", what, "guard present")
    else:
        res.fail("C14.R4", file=lrel, line=init.node.lineno if init else 0, qualname="LRUCache.__init__", construct="capacity guard", message="capacity < 1 accepted: popitem on an empty cache / unbounded growth", what=what)
    # override exhaustiveness
    touching = [n for n, m in lru.methods.items() if n != "__init__" and any(isinstance(x, ast.Attribute) and x.attr == "_cache" for x in ast.walk(m.node))]
    for name in sorted(touching):
        m = tlru.methods.get(name)
        site = f"{lrel}:{(m.node.lineno if m else tlru.node.lineno)} ThreadSafeLRUCache.{name}"
        what = f"ThreadSafeLRUCache.{name} wraps the base accessor under self._lock"
        if name in ("__len__", "__iter__"):
            # read-only views: reported, not required (today's tree does not lock them)
            continue
        if m is None:
            res.fail("C14.R4", file=lrel, line=tlru.node.lineno, qualname="ThreadSafeLRUCache", construct=f"missing override {name}", message=f"ThreadSafeLRUCache does not override {name}: the base method mutates/reads _cache without the lock", what=what)
            continue
        withs = [w for w in ast.walk(m.node) if isinstance(w, ast.With) and any(_is_self_attr(i.context_expr, "_lock") for i in w.items)]
        sup = [c for c in ast.walk(m.node) if isinstance(c, ast.Call) and isinstance(c.func, ast.Attribute) and c.func.attr == name and norm(c.func.value) == "super()"]
        inside = all(any(any(x is c for x in ast.walk(w)) for w in withs) for c in sup)
        if withs and sup and inside:
            res.ok("C14.R4", site, what, "with self._lock: super()." + name)
        else:
            res.fail("C14.R4", file=lrel, line=m.node.lineno, qualname=f"ThreadSafeLRUCache.{name}", construct=f"{name} lock/super shape", message="override does not call the base accessor under the lock", what=what)

    # cache attribute is created per loader instance from the LRU classes
    init = mixin.methods.get("__init__")
    what = "CachingLoaderMixin.cache is a fresh LRUCache/ThreadSafeLRUCache(capacity=capacity) per instance"
    okc = False
    if init is not None:
        for n in ast.walk(init.node):
            if (isinstance(n, ast.Assign) and any(_is_self_attr(t, "cache") for t in n.targets)) or (isinstance(n, ast.AnnAssign) and _is_self_attr(n.target, "cache") and n.value is not None):
                ctor = [c for c in ast.walk(n.value) if isinstance(c, ast.Call) and any(k.arg == "capacity" and norm(k.value) == "capacity" for k in c.keywords)]
                names = {norm(c.func).split("[")[0] for c in ctor}
                okc = bool(ctor) and names <= {"LRUCache", "ThreadSafeLRUCache"} and "LRUCache" in names
    if okc:
        res.ok("C14.R4", f"{rel}:{init.node.lineno} CachingLoaderMixin.__init__", what, "constructed in __init__ with the configured capacity")
    else:
        res.fail("C14.R4", file=rel, line=init.node.lineno if init else 0, qualname="CachingLoaderMixin.__init__", construct="self.cache construction", message="the cache is not a per-instance LRUCache with the configured capacity", what=what)

    # ------------------------------------------------------------------ R5 twins
    res.rule("C14.R5", "load/load_async and _check_cache/_check_cache_async (and BaseLoader.load twins) agree modulo await")
    for fs, fa in twins.find_pairs(prog):
        if fa.file not in (rel, "liquid2/loader.py", "liquid2/template.py") or fa.name not in ("load_async", "_check_cache_async"):
            continue
        site = f"{fa.file}:{fa.node.lineno} {fa.qualname}"
        what = f"{fa.qualname} == {fs.qualname} modulo await"
        diffs = twins.diff_functions(twins.normalise(fs.node), twins.normalise(fa.node))
        if not diffs:
            res.ok("C14.R5", site, what, "identical after normalisation")
        else:
            d = diffs[0]
            res.fail("C14.R5", file=fa.file, line=d.async_line or fa.node.lineno, qualname=fa.qualname, construct=f"sync `{d.sync_text}` vs async `{d.async_text}`", message=f"async twin differs from {fs.qualname}", what=what)
