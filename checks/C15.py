"""C15 - message extraction covers every catalog lookup a render can make (sibling agreement)."""

from __future__ import annotations

import ast

from sa.cfg import CFG
from sa.report import AnalysisError
from sa.report import Result
from sa.report import norm
from sa.srcmodel import ClassInfo
from sa.srcmodel import FunctionInfo
from sa.srcmodel import Program
from sa.srcmodel import dotted
from sa.util import cfg_node_of
from sa.util import guarded_by_test

META = {
    "technique": "traversal-coverage lint on the extraction visitor; family-selector agreement between the run-time lookup "
    "selectors (TranslateNode.gettext, __call__ of every translatable filter) and the extractors (messages()/message()): "
    "path-condition atoms of each gettext-family call; line-number source agreement; index-guard dominance for totality",
    "level_text": "Decides that the extractor reaches every expression and translatable tag the renderer can reach, that "
    "the gettext family chosen at run time depends only on what the extractor can also see (syntactic presence of a "
    "plural form / context), never on the truth value of a run-time count, that a plural form always gets a count, that "
    "every extracted and looked-up message takes its line from the originating token, and that extraction cannot index "
    "an empty node list. Comment attachment distance and message text normalisation are not decided.",
    "level_note": "Treats literal-ness at extraction as the static stand-in for presence at run time. The translations "
    "object is the documented Translations protocol.",
}
META["technique"] += '; render/expressions agreement for every Node (shared with C11.R2); registration-name vs extraction-keyword table agreement including aliases'

PLURAL = {"ngettext", "npgettext"}
SINGULAR = {"gettext", "pgettext"}
FAMILY = PLURAL | SINGULAR


def _path_condition(mod, fn: ast.AST, node: ast.AST) -> list[tuple[ast.expr, bool]]:
    """[(test, polarity)] of the If statements enclosing *node* (innermost last), including the fall-through
    negation of earlier sibling `if … return` statements at the same level (early-return idiom)."""
    conds: list[tuple[ast.expr, bool]] = []
    chain = []
    cur = node
    for a in mod.ancestors(node):
        chain.append((a, cur))
        cur = a
        if a is fn:
            break
    for a, child in reversed(chain):
        if isinstance(a, ast.If):
            in_body = any(child is x for x in a.body)
            conds.append((a.test, in_body))
        body = getattr(a, "body", None)
        if isinstance(body, list) and child in body:
            for st in body[: body.index(child)]:
                if isinstance(st, ast.If) and st.body and isinstance(st.body[-1], (ast.Return, ast.Raise)) and not st.orelse:
                    conds.append((st.test, False))
    return conds


def _atoms(test: ast.expr, polarity: bool) -> list[tuple[str, str]]:
    """(operand, form) with form in truthy|falsy|is_not_none|is_none|isinstance|other."""
    if isinstance(test, ast.UnaryOp) and isinstance(test.op, ast.Not):
        return _atoms(test.operand, not polarity)
    if isinstance(test, ast.BoolOp):
        if (isinstance(test.op, ast.And) and polarity) or (isinstance(test.op, ast.Or) and not polarity):
            out = []
            for v in test.values:
                out += _atoms(v, polarity)
            return out
        # a disjunction that holds / a conjunction that fails: every operand is involved but none is known
        out = []
        for v in test.values:
            out += [(o, "mentioned:" + f) for o, f in _atoms(v, polarity)]
        return out
    if isinstance(test, ast.Compare) and len(test.ops) == 1 and isinstance(test.comparators[0], ast.Constant) and test.comparators[0].value is None:
        if isinstance(test.ops[0], ast.IsNot):
            return [(norm(test.left), "is_not_none" if polarity else "is_none")]
        if isinstance(test.ops[0], ast.Is):
            return [(norm(test.left), "is_none" if polarity else "is_not_none")]
    if isinstance(test, ast.Call) and isinstance(test.func, ast.Name) and test.func.id == "isinstance" and test.args:
        return [(norm(test.args[0]), "isinstance" if polarity else "not_isinstance")]
    if isinstance(test, (ast.Name, ast.Attribute)):
        return [(norm(test), "truthy" if polarity else "falsy")]
    return [(norm(test, 60), "other")]


def _never_none(prog: Program, fi: FunctionInfo, name: str) -> str | None:
    """Why the parameter/local *name* of fi can be taken as never None where a plural form is present."""
    # (a) a defaulting statement in the same function:  if … name is None …: name = <constant>
    for n in ast.walk(fi.node):
        if isinstance(n, ast.If) and f"{name} is None" in norm(n.test, 300):
            for b in n.body:
                if isinstance(b, ast.Assign) and any(isinstance(t, ast.Name) and t.id == name for t in b.targets) and isinstance(b.value, ast.Constant) and b.value.value is not None:
                    return f"defaulted by `if {norm(n.test, 50)}: {norm(b)}`"
    # (b) a parameter whose every call site passes the result of a function that never returns None
    if name in fi.params() and fi.cls is not None:
        ok = 0
        sites = 0
        for m in fi.cls.methods.values():
            for c in ast.walk(m.node):
                if isinstance(c, ast.Call) and isinstance(c.func, ast.Attribute) and c.func.attr == fi.name and isinstance(c.func.value, ast.Name) and c.func.value.id == "self":
                    sites += 1
                    arg = next((k.value for k in c.keywords if k.arg == name), None)
                    if arg is None:
                        params = [p for p in fi.params() if p != "self"]
                        idx = params.index(name)
                        arg = c.args[idx] if idx < len(c.args) else None
                    src = None
                    if isinstance(arg, ast.Name):
                        for a in ast.walk(m.node):
                            if isinstance(a, ast.Assign) and any(isinstance(t, ast.Name) and t.id == arg.id for t in a.targets):
                                src = a.value
                    elif arg is not None:
                        src = arg
                    if isinstance(src, ast.Call) and isinstance(src.func, ast.Attribute) and isinstance(src.func.value, ast.Name) and src.func.value.id == "self":
                        h = prog.find_method(fi.cls, src.func.attr)
                        if h is not None:
                            rets = [r.value for r in ast.walk(h.node) if isinstance(r, ast.Return)]
                            if rets and all(r is not None and ((isinstance(r, ast.Constant) and r.value is not None) or (isinstance(r, ast.Call) and (dotted(r.func) or "") in ("to_int", "int", "len"))) for r in rets):
                                ok += 1
        if sites and ok == sites:
            return f"every call site passes the result of a helper whose returns are never None ({sites} site(s))"
    return None



def _is_catalog(recv: ast.AST) -> bool:
    """The receiver of a gettext-family call is the message catalog: a local/parameter called translations, or the result of the
    resolver (`self._resolve_translations(context)` / `self.resolve_translations(context)`) used directly."""
    if isinstance(recv, ast.Name):
        return recv.id == "translations"
    return isinstance(recv, ast.Call) and isinstance(recv.func, ast.Attribute) and recv.func.attr.endswith("resolve_translations")


def _hands_over(loop: ast.For, *, generator: bool) -> bool:
    """Every iteration passes the loop variable on: at the top level of the loop body (under no test) there is a call that receives the
    variable (or a nested loop over something derived from it that hands over in turn) and - in a generator - its result is yielded.
    `for x in e.children(): pass` iterates and drops everything."""
    names = {t.id for t in ast.walk(loop.target) if isinstance(t, ast.Name)}

    def mentions(e: ast.AST) -> bool:
        return any(isinstance(x, ast.Name) and x.id in names for x in ast.walk(e))

    for st in loop.body:
        if isinstance(st, ast.Expr) and isinstance(st.value, ast.YieldFrom) and isinstance(st.value.value, ast.Call) and any(mentions(a) for a in st.value.value.args):
            return True
        if not generator and isinstance(st, ast.Expr) and isinstance(st.value, ast.Call) and any(mentions(a) for a in st.value.args):
            return True
        if isinstance(st, ast.For) and mentions(st.iter):
            inner_yields = any(isinstance(x, (ast.Yield, ast.YieldFrom)) for b in st.body for x in ast.walk(b))
            if _hands_over(st, generator=generator) or (isinstance(st.iter, ast.Call) and inner_yields and not isinstance(st.iter.func, ast.Attribute)):
                return True
    return False

def run(prog: Program, res: Result) -> None:  # noqa: PLR0912, PLR0915
    res.explanation = (
        "R1 checks the shape of extract_from_template's visitors. R2 computes, for every translations.<family>() call in a "
        "run-time selector, the conjunction of conditions under which it is reached, and compares the atoms with what the "
        "extractor tests. R3 checks the line-number source on both sides. R4 checks index guards in the extraction code."
    )
    res.not_decided += ["translator-comment attachment distance in lines (only the read/yield/clear discipline is checked)", "message text normalisation / whitespace", "lookups made with non-literal operands (not extractable by definition)"]
    res.trusted_base += ["gettext Translations protocol"]
    msgs = prog.mod("liquid2/messages.py")
    eft = msgs.functions.get("extract_from_template")
    if eft is None:
        raise AnalysisError("extract_from_template vanished")
    visit = msgs.functions.get("extract_from_template.<locals>.visit")
    vexpr = msgs.functions.get("extract_from_template.<locals>.visit_expression")
    if visit is None or vexpr is None:
        raise AnalysisError("extract_from_template visitors vanished")

    # ------------------------------------------------------------------ R1 traversal
    res.rule("C15.R1", "the extraction visitor reaches every node (children(include_partials=False)), every expression (expressions()) and every sub-expression (children()); the filter extractor reads every filter-bearing attribute of (ternary) filtered expressions (filters, tail_filters, left, alternative - read off the constructors)")
    checks = [
        (eft, "for node in template.nodes", lambda f: any(isinstance(l, ast.For) and norm(l.iter) == "template.nodes" for l in f.node.body)),
        (eft, "top-level: node.expressions() then visit(node)", lambda f: "node.expressions()" in norm(f.node, 20000).split("def visit(")[-1] and "visit(node)" in norm(f.node, 20000)),
        (visit, "for child in node.children(ctx, include_partials=False)", lambda f: any(isinstance(l, ast.For) and norm(l.iter) == "node.children(ctx, include_partials=False)" and l in f.node.body for l in ast.walk(f.node))),
        (visit, "child.expressions() visited and visit(child) recursed", lambda f: "child.expressions()" in norm(f.node, 20000) and "visit(child)" in norm(f.node, 20000)),
        (visit, "translatable tags yield node.messages()", lambda f: "node.messages()" in norm(f.node, 20000) and "isinstance(node, TranslatableTag)" in norm(f.node, 20000)),
        (vexpr, "for expression in expr.children(): recurse (unconditional)", lambda f: any(isinstance(l, ast.For) and norm(l.iter) == "expr.children()" and l in f.node.body and _hands_over(l, generator=True) for l in ast.walk(f.node))),
        (visit, "every loop over children()/expressions() hands its element to a visitor and yields what comes back", lambda f: all(_hands_over(l, generator=True) for l in ast.walk(f.node) if isinstance(l, ast.For) and isinstance(l.iter, ast.Call) and isinstance(l.iter.func, ast.Attribute) and l.iter.func.attr in ("children", "expressions"))),
        (eft, "the top-level loop hands every node and each of its expressions to the visitors and yields what comes back", lambda f: all(_hands_over(l, generator=True) for l in f.node.body if isinstance(l, ast.For))),
        (vexpr, "filtered expressions go through _extract_from_filters", lambda f: "_extract_from_filters(" in norm(f.node, 20000) and "isinstance(expr, (FilteredExpression, TernaryFilteredExpression))" in norm(f.node, 20000)),
    ]
    for f, label, pred in checks:
        what = f"{f.qualname}: {label}"
        if pred(f):
            res.ok("C15.R1", f"{f.file}:{f.node.lineno} {f.qualname}", what, "present")
        else:
            res.fail("C15.R1", file=f.file, line=f.node.lineno, qualname=f.qualname, construct=f"missing: {label}", message=f"the extraction visitor no longer does `{label}`: messages below that point are looked up at run time but never extracted", what=what)
    eff = msgs.functions.get("_extract_from_filters")
    if eff is None:
        raise AnalysisError("_extract_from_filters vanished")
    read = {a.attr for a in ast.walk(eff.node) if isinstance(a, ast.Attribute) and isinstance(a.value, ast.Name) and a.value.id == "expression"}
    # the attributes to cover are read off the two classes: every constructor parameter that holds filters
    # (annotation mentions Filter) or an operand a first filter can be applied to (left / alternative)
    ex_mod = prog.mod("liquid2/builtin/expressions.py")
    need_attrs: set[str] = set()
    for cname in ("FilteredExpression", "TernaryFilteredExpression"):
        ci_ = ex_mod.classes.get(cname)
        init_ = ci_.methods.get("__init__") if ci_ is not None else None
        if init_ is None:
            raise AnalysisError(f"{cname}.__init__ vanished")
        a_ = init_.node.args
        for p_ in a_.posonlyargs + a_.args + a_.kwonlyargs:
            ann = norm(p_.annotation) if p_.annotation is not None else ""
            if "Filter]" in ann or p_.arg in ("left", "alternative"):
                need_attrs.add(p_.arg)
    res.floor("C15.R1", "filter-bearing attributes of filtered expressions", len(need_attrs), 4)
    for attr in sorted(need_attrs):
        what = f"_extract_from_filters reads expression.{attr}"
        if attr in read:
            res.ok("C15.R1", f"{eff.file}:{eff.node.lineno} _extract_from_filters", what, "read")
        else:
            res.fail("C15.R1", file=eff.file, line=eff.node.lineno, qualname="_extract_from_filters", construct=f"_extract_from_filters ignores .{attr}", message=f"translation filters applied to `{attr}` of a (ternary) filtered expression are never extracted", what=what)
    # operand/filter pairs: which literal can meet which first filter at run time (read off FilteredExpression.evaluate and
    # TernaryFilteredExpression.evaluate: `filters` apply to the alternative, `tail_filters` to whichever branch was chosen)
    required_pairs = {
        ("expression.left", "expression.filters"): "FilteredExpression: left | filters",
        ("expression.alternative", "expression.filters"): "ternary: alternative | filters",
        ("expression.left.left", "expression.tail_filters"): "ternary: chosen left branch || tail filters",
        ("expression.alternative", "expression.tail_filters"): "ternary: chosen alternative || tail filters",
    }
    pairs: set[tuple[str, str]] = set()
    helpers_ = {n_: f_ for n_, f_ in msgs.functions.items() if any(isinstance(c, ast.Call) and isinstance(c.func, ast.Attribute) and c.func.attr == "message" for c in ast.walk(f_.node))}
    for c in ast.walk(eff.node):
        if isinstance(c, ast.Call) and isinstance(c.func, ast.Name) and c.func.id in helpers_ and c.func.id != eff.name:
            hp = helpers_[c.func.id].params()
            bound = {hp[i]: a for i, a in enumerate(c.args) if i < len(hp)}
            bound.update({k.arg: k.value for k in c.keywords if k.arg})
            lp = next((p_ for p_ in hp if p_ in ("left", "operand")), None)
            fp = next((p_ for p_ in hp if "filter" in p_), None)
            if lp in bound and fp in bound:
                pairs.add((norm(bound[lp]), norm(bound[fp])))
        if isinstance(c, ast.Call) and isinstance(c.func, ast.Attribute) and c.func.attr == "message" and len(c.args) >= 2:
            flt = norm(c.args[1])
            src = next((norm(a.value.value) for a in ast.walk(eff.node) if isinstance(a, ast.Assign) and any(norm(t) == flt for t in a.targets) and isinstance(a.value, ast.Subscript)), flt)
            pairs.add((norm(c.args[0]), src))
    # the ternary's left operand is a filtered expression of its own: handing it back to the extractor covers (left.left | left.filters)
    required_pairs[("expression.left.left", "expression.left.filters")] = "ternary: the left branch's own filters (a FilteredExpression)"
    for c in ast.walk(eff.node):
        if isinstance(c, ast.Call) and isinstance(c.func, ast.Name) and c.func.id == eff.name and any(norm(a) == "expression.left" for a in c.args) and isinstance(eff.module.parent(c), (ast.YieldFrom, ast.For, ast.Return)):
            if ("expression.left", "expression.filters") in pairs:
                pairs.add(("expression.left.left", "expression.left.filters"))
    for pair, label in required_pairs.items():
        what = f"_extract_from_filters offers `{pair[0]}` to the first filter of `{pair[1]}` ({label})"
        if pair in pairs:
            res.ok("C15.R1", f"{eff.file}:{eff.node.lineno} _extract_from_filters", what, "pair extracted")
        else:
            res.fail("C15.R1", file=eff.file, line=eff.node.lineno, qualname="_extract_from_filters", construct=f"pair {pair[0]} | {pair[1]} not extracted", message=f"{label}: at run time the first filter of `{pair[1]}` can receive the literal `{pair[0]}` and look it up in the catalog, but the extractor never offers that operand to that filter's message()", what=what)
    # a tail filter receives the branch's literal only when the branch has no filters of its own (TernaryFilteredExpression.evaluate
    # applies left's own filters / self.filters first): the offer to the tail filters is guarded by the emptiness of exactly that list
    own_list = {"expression.left.left": "expression.left.filters", "expression.alternative": "expression.filters"}
    for c in ast.walk(eff.node):
        if not (isinstance(c, ast.Call) and isinstance(c.func, ast.Name) and c.func.id in helpers_ and c.func.id != eff.name):
            continue
        hp = helpers_[c.func.id].params()
        bound = {hp[i]: a for i, a in enumerate(c.args) if i < len(hp)}
        bound.update({k.arg: k.value for k in c.keywords if k.arg})
        lp = next((p_ for p_ in hp if p_ in ("left", "operand")), None)
        fp = next((p_ for p_ in hp if "filter" in p_), None)
        if lp not in bound or fp not in bound or norm(bound[fp]) != "expression.tail_filters" or norm(bound[lp]) not in own_list:
            continue
        need = own_list[norm(bound[lp])]
        atoms_: list[tuple[str, str]] = []
        for t_, pol_ in _path_condition(eff.module, eff.node, c):
            atoms_ += _atoms(t_, pol_)
        what = f"_extract_from_filters offers `{norm(bound[lp])}` to the tail filters only when `{need}` is empty"
        if (need, "falsy") in atoms_:
            res.ok("C15.R1", f"{eff.file}:{c.lineno} _extract_from_filters", what, "guarded by the emptiness of the branch's own filter list")
        else:
            res.fail("C15.R1", file=eff.file, line=c.lineno, qualname="_extract_from_filters", construct=f"tail-filter offer of {norm(bound[lp])} not guarded by `not {need}`", message=f"the first tail filter receives the literal `{norm(bound[lp])}` at run time exactly when `{need}` is empty (the branch's own filters come first), but the extractor offers it under {[o + ':' + f for o, f in atoms_]}: a lookup made when that list is empty is not extracted, or one is extracted that the render never makes", what=what)
    # every registered translatable filter class defines message(); every TranslatableTag node defines messages()
    tf = prog.resolve_abs("liquid2.messages.TranslatableFilter")
    tt = prog.resolve_abs("liquid2.messages.TranslatableTag")
    filters, tags = prog.registries()
    n_tf = 0
    for name, regs in filters.items():
        for _n, target, _v, _m in regs:
            if isinstance(target, ClassInfo) and isinstance(tf, ClassInfo) and prog.is_subclass(target, tf):
                n_tf += 1
                m = prog.find_method(target, "message")
                what = f"filter `{name}` ({target.name}) implements message()"
                if m is not None and m.cls is not None and m.cls.full != tf.full:
                    res.ok("C15.R1", f"{target.file}:{m.node.lineno} {target.name}.message", what, "extractor twin exists")
                else:
                    res.fail("C15.R1", file=target.file, line=target.node.lineno, qualname=target.name, construct=f"{target.name} has no message()", message=f"translation filter {name} performs catalog lookups but has no extractor", what=what)
    res.floor("C15.R1", "translatable filters registered", n_tf, 5)
    # R12: the names render looks translation filters up under are the names the extractor listens for
    res.rule("C15.R12", "every name under which a translation filter is registered - directly or as an alias of an existing registration (`env.filters[k] = env.filters[…]`) - is a key of messages.DEFAULT_KEYWORDS: `_extract_from_first_filter` only considers filters whose name is a keyword, so `{{ 'apple' | _ }}` under an unlisted alias looks a message up that extraction never reports")
    msgs_mod = prog.mod("liquid2/messages.py")
    kw_node = msgs_mod.globals_.get("DEFAULT_KEYWORDS")
    if not isinstance(kw_node, ast.Dict):
        raise AnalysisError("messages.DEFAULT_KEYWORDS is not a dict literal")
    keywords_ = {k.value for k in kw_node.keys if isinstance(k, ast.Constant)}
    n12 = 0
    trans_names: set[str] = set()
    for name, regs in filters.items():
        for _n, target, _v, _m in regs:
            if isinstance(target, ClassInfo) and isinstance(tf, ClassInfo) and prog.is_subclass(target, tf):
                n12 += 1
                trans_names.add(name)
                what = f"translation filter name `{name}` is an extraction keyword"
                if name in keywords_:
                    res.ok("C15.R12", f"{target.file}:{target.node.lineno} {target.name}", what, "in DEFAULT_KEYWORDS")
                else:
                    res.fail("C15.R12", file=target.file, line=target.node.lineno, qualname=target.name, construct=f"translation filter registered as `{name}`, not a keyword", message=f"{target.name} is registered under `{name}`, which DEFAULT_KEYWORDS does not list: its lookups are never extracted", what=what)
    for mod_ in prog.modules.values():
        for a in ast.walk(mod_.tree):
            if not (isinstance(a, ast.Assign) and len(a.targets) == 1 and isinstance(a.targets[0], ast.Subscript) and isinstance(a.targets[0].value, ast.Attribute) and a.targets[0].value.attr == "filters"):
                continue
            v_ = a.value
            if not (isinstance(v_, ast.Subscript) and isinstance(v_.value, ast.Attribute) and v_.value.attr == "filters") and not (isinstance(v_, ast.Call) and isinstance(v_.func, ast.Attribute) and v_.func.attr == "get" and isinstance(v_.func.value, ast.Attribute) and v_.func.value.attr == "filters"):
                continue
            n12 += 1
            key_ = a.targets[0].slice
            src_ = v_.slice if isinstance(v_, ast.Subscript) else (v_.args[0] if v_.args else None)

            def _const(e: ast.AST | None) -> str | None:
                if isinstance(e, ast.Constant) and isinstance(e.value, str):
                    return e.value
                if isinstance(e, ast.Attribute) and e.attr == "name" and isinstance(e.value, ast.Name):
                    ci_ = prog.resolve(mod_, e.value.id)
                    nm_ = ci_.node if isinstance(ci_, ClassInfo) else None
                    for st_ in (nm_.body if nm_ is not None else []):
                        if isinstance(st_, ast.Assign) and any(isinstance(t, ast.Name) and t.id == "name" for t in st_.targets) and isinstance(st_.value, ast.Constant):
                            return st_.value.value
                return None

            k_, s_ = _const(key_), _const(src_)
            fi_ = prog.enclosing_function(mod_, a)
            q_ = fi_.qualname if fi_ else "<module>"
            what = f"{q_}: alias `{k_ or norm(key_)}` of filter `{s_ or norm(src_) if src_ is not None else '?'}`"
            if s_ is not None and s_ not in trans_names:
                res.ok("C15.R12", f"{mod_.relpath}:{a.lineno} {q_}", what, "not a translation filter")
            elif k_ is not None and k_ in keywords_:
                res.ok("C15.R12", f"{mod_.relpath}:{a.lineno} {q_}", what, "alias is a keyword")
            else:
                res.fail("C15.R12", file=mod_.relpath, line=a.lineno, qualname=q_, construct=f"{q_}: translation filter aliased as `{k_ or norm(key_)}`, not a keyword", message=f"{q_} registers `{norm(a, 70)}`: the alias runs {s_ or 'a possibly translating filter'} at render time, but DEFAULT_KEYWORDS has no `{k_ or norm(key_)}`, so `{{{{ 'apple' | {k_ or '…'} }}}}` makes a catalog lookup that extraction never reports", what=what)
    res.floor("C15.R12", "translation filter registrations and aliases", n12, 5)
    # R6: the extractor twins bind arguments like the call does
    res.rule("C15.R6", "message() of a translation filter takes its operands from the positional arguments only (the call is func(left, *positional, **keywords)): no constant index into the filter's mixed argument list, where a keyword argument written first would be taken for the plural or the context")
    n_msg = 0
    for name, regs in filters.items():
        for _n, target, _v, _m in regs:
            if not (isinstance(target, ClassInfo) and isinstance(tf, ClassInfo) and prog.is_subclass(target, tf)):
                continue
            m = prog.find_method(target, "message")
            if m is None or m.cls is None or m.cls.full == tf.full:
                continue
            n_msg += 1
            fparam = next((p for p in m.params() if "filter" in p), "_filter")
            raw = [s_ for s_ in ast.walk(m.node) if isinstance(s_, ast.Subscript) and norm(s_.value) == f"{fparam}.args" and not isinstance(s_.slice, ast.Slice)]
            site = f"{m.file}:{m.node.lineno} {target.name}.message"
            what = f"{target.name}.message binds operands from the positional arguments"
            if raw:
                res.fail("C15.R6", file=m.file, line=raw[0].lineno, qualname=f"{target.name}.message", construct=f"{target.name}.message indexes {fparam}.args", message=f"{target.name}.message reads `{norm(raw[0])}` from the mixed positional/keyword argument list: with a keyword argument written before the positional ones the extracted plural / context is that keyword's value, while the render binds the positional argument", what=what)
            else:
                res.ok("C15.R6", site, what, "no index into the mixed list")
    res.floor("C15.R6", "message() implementations", n_msg, 4)

    # ------------------------------------------------------------------ R2 family selectors
    res.rule("C15.R2", "the gettext family chosen at run time depends only on presence tests the extractor can mirror (plural form / context present), never on the truth value of a count; when a plural form is present a count is always available")
    selectors: list[FunctionInfo] = []
    if isinstance(tt, ClassInfo):
        for c in prog.subclasses(tt, strict=True):
            g = prog.find_method(c, "gettext")
            if g is not None:
                selectors.append(g)
    if isinstance(tf, ClassInfo):
        for c in prog.subclasses(tf, strict=True):
            m = c.methods.get("__call__")
            if m is not None:
                selectors.append(m)
    res.floor("C15.R2", "run-time selectors", len(selectors), 6)
    n_calls = 0
    for sel in selectors:
        res.analysed_functions.add(sel.fid)
        for c in ast.walk(sel.node):
            if not (isinstance(c, ast.Call) and isinstance(c.func, ast.Attribute) and c.func.attr in FAMILY and _is_catalog(c.func.value)):
                continue
            n_calls += 1
            fam = c.func.attr
            conds = _path_condition(sel.module, sel.node, c)
            atoms: list[tuple[str, str]] = []
            for t, pol in conds:
                atoms += _atoms(t, pol)
            site = f"{sel.file}:{c.lineno} {sel.qualname}"
            what = f"translations.{fam}(…) in {sel.qualname} selected by presence tests only"
            problems = []
            for operand, form in atoms:
                base = operand.split(".")[-1]
                f0 = form.split(":")[-1]
                countlike = base in ("count", "n", "num", "number") or "count" in base
                if countlike and f0 in ("truthy", "falsy"):
                    problems.append(f"`{operand}` is tested for truth: a count of 0 selects the singular lookup although the extractor reports the plural family")
                elif countlike and f0 in ("is_not_none", "is_none"):
                    why = _never_none(prog, sel, operand)
                    if why is None:
                        problems.append(f"`{operand} is None` is possible when a plural form is present: the singular family is looked up although extraction reports the plural one")
                elif f0 == "other":
                    problems.append(f"family selection depends on `{operand}`, which the extractor cannot mirror")
            if problems:
                res.fail("C15.R2", file=sel.file, line=c.lineno, qualname=sel.qualname, construct=f"translations.{fam} under {[f'{o}:{f}' for o, f in atoms]}", message=f"{sel.qualname}: translations.{fam}() is selected under conditions the extractor does not see - " + "; ".join(problems), what=what)
            else:
                res.ok("C15.R2", site, what, ", ".join(f"{o}:{f}" for o, f in atoms) or "unconditional")
    res.floor("C15.R2", "gettext-family call sites", n_calls, 10)
    # extractor side: plural family whenever a plural form is present
    if isinstance(tt, ClassInfo):
        for c in prog.subclasses(tt, strict=True):
            m = c.methods.get("messages")
            if m is None:
                continue
            t = norm(m.node, 20000)
            what = f"{c.name}.messages(): plural block => ngettext/npgettext, else gettext/pgettext"
            if "if self.plural_block:" in t and "'npgettext'" in t and "'ngettext'" in t and "'pgettext'" in t and "'gettext'" in t:
                res.ok("C15.R2", f"{c.file}:{m.node.lineno} {c.name}.messages", what, "four families selected by presence of plural block and literal context")
            else:
                res.fail("C15.R2", file=c.file, line=m.node.lineno, qualname=f"{c.name}.messages", construct="extractor family selection", message="the tag extractor no longer distinguishes the four gettext families by plural/context presence", what=what)
    # fixed-family filters use their own name as funcname and call the same family at run time
    if isinstance(tf, ClassInfo):
        for c in prog.subclasses(tf, strict=True):
            nm = c.class_attrs.get("name")
            fam = nm.value if isinstance(nm, ast.Constant) else None
            if fam not in FAMILY:
                continue
            call, msg = c.methods.get("__call__"), c.methods.get("message")
            if call is None or msg is None:
                continue
            called = {x.func.attr for x in ast.walk(call.node) if isinstance(x, ast.Call) and isinstance(x.func, ast.Attribute) and x.func.attr in FAMILY and _is_catalog(x.func.value)}
            fn_ok = any(isinstance(k, ast.keyword) and k.arg == "funcname" and norm(k.value) in ("self.name", repr(fam)) for k in ast.walk(msg.node))
            what = f"{c.name}: run time calls translations.{fam} and message() reports funcname {fam}"
            if called == {fam} and fn_ok:
                res.ok("C15.R2", f"{c.file}:{call.node.lineno} {c.name}", what, "same family on both sides")
            else:
                res.fail("C15.R2", file=c.file, line=call.node.lineno, qualname=f"{c.name}.__call__", construct=f"{c.name}: runtime {sorted(called)} vs extractor funcname", message=f"filter {fam}: run time looks up {sorted(called)} but the extractor reports funcname `{fam}`", what=what)

    # ------------------------------------------------------------------ R2b / R2c / R2d: the two sides agree on degenerate operands
    res.rule("C15.R2b", "where the run time chooses the context family on the TRUTH of the context value (an empty context is looked up as no context), the extractor's context-family branch also tests the truth of the literal's value; where the run time tests `is not None`, presence of the literal suffices")
    res.rule("C15.R2c", "a condition on the tag itself under which the extractor reports nothing (an empty message block) is a condition under which the run-time selector returns without any catalog lookup")
    res.rule("C15.R2d", "a translate tag's message context is either a string literal the extractor can report or rejected when the tag is parsed: the extractor has no branch that reports the context-free family for a context argument that is present but not a literal")
    pairs: list[tuple[ClassInfo, FunctionInfo, FunctionInfo, bool]] = []
    if isinstance(tt, ClassInfo):
        for c in prog.subclasses(tt, strict=True):
            g, m = prog.find_method(c, "gettext"), c.methods.get("messages")
            if g is not None and m is not None:
                pairs.append((c, g, m, True))
    if isinstance(tf, ClassInfo):
        for c in prog.subclasses(tf, strict=True):
            g, m = c.methods.get("__call__"), c.methods.get("message")
            if g is not None and m is not None:
                pairs.append((c, g, m, False))
    n_b = n_c = n_d = 0
    for c, sel, ext, is_tag in pairs:
        # run-time form of the context test
        forms: set[str] = set()
        lookups = [x for x in ast.walk(sel.node) if isinstance(x, ast.Call) and isinstance(x.func, ast.Attribute) and x.func.attr in FAMILY and _is_catalog(x.func.value)]
        for x in lookups:
            if x.func.attr not in ("pgettext", "npgettext"):
                continue
            for t, pol in _path_condition(sel.module, sel.node, x):
                for operand, form in _atoms(t, pol):
                    if "context" in operand.split(".")[-1] and form.split(":")[-1] in ("truthy", "is_not_none"):
                        forms.add(form.split(":")[-1])
        # extractor branches that report a context family
        ctx_branches = [a for a in ast.walk(ext.node) if isinstance(a, ast.Assign) and isinstance(a.value, ast.Constant) and a.value.value in ("pgettext", "npgettext")]
        for a in ctx_branches:
            atoms: list[tuple[str, str]] = []
            for t, pol in _path_condition(ext.module, ext.node, a):
                atoms += _atoms(t, pol)
            lits = [o for o, f in atoms if f == "isinstance"]
            site = f"{ext.file}:{a.lineno} {ext.qualname}"
            if forms:
                n_b += 1
                what = f"{ext.qualname}: `{a.value.value}` is reported under the same notion of 'has a context' as {sel.qualname} uses"
                if "truthy" in forms:
                    mirrored = any((o + ".value", "truthy") in atoms for o in lits)
                    if mirrored:
                        res.ok("C15.R2b", site, what, "run time tests the truth of the context; the extractor tests the truth of the literal's value")
                    else:
                        res.fail("C15.R2b", file=ext.file, line=a.lineno, qualname=ext.qualname, construct=f"{ext.qualname}: {a.value.value} reported for an empty context literal", message=f"{sel.qualname} looks up the context family only when the context is non-empty (truth test), but {ext.qualname} reports `{a.value.value}` for any string literal, including '': the render asks the catalog for the context-free family", what=what)
                else:
                    res.ok("C15.R2b", site, what, "run time tests presence (`is not None`); presence of the literal is the mirror")
        # R2c: silent extractor conditions on the tag itself
        for r in ast.walk(ext.node):
            if not isinstance(r, ast.Return):
                continue
            v = r.value
            empty = v is None or (isinstance(v, ast.Constant) and v.value is None) or (isinstance(v, (ast.Tuple, ast.List)) and not v.elts)
            if not empty:
                continue
            atoms = []
            for t, pol in _path_condition(ext.module, ext.node, r):
                atoms += _atoms(t, pol)
            if not atoms or not all(o.startswith("self.") for o, _ in atoms):
                continue  # silence that depends on literal-ness of operands: outside the property ("applied to string literals")
            n_c += 1
            site = f"{ext.file}:{r.lineno} {ext.qualname}"
            what = f"{ext.qualname} reports nothing when {atoms}: {sel.qualname} makes no catalog lookup then"
            bad = []
            opposite = {"truthy": "falsy", "falsy": "truthy", "is_none": "is_not_none", "is_not_none": "is_none"}
            for x in lookups:
                xa: list[tuple[str, str]] = []
                for t, pol in _path_condition(sel.module, sel.node, x):
                    xa += _atoms(t, pol)
                if not any((o, opposite.get(f, "?")) in xa for o, f in atoms):
                    bad.append(x)
            if bad:
                res.fail("C15.R2c", file=sel.file, line=bad[0].lineno, qualname=sel.qualname, construct=f"{sel.qualname}: catalog lookup although {ext.qualname} reports nothing ({', '.join(o + ':' + f for o, f in atoms)})", message=f"{ext.qualname} returns no message when {', '.join(o + ' is ' + f for o, f in atoms)}, but {sel.qualname} still calls translations.{bad[0].func.attr}() in that case: a lookup (of the empty msgid) that extraction never reports", what=what)
            else:
                res.ok("C15.R2c", site, what, "every catalog call is behind the negated condition")
        # R2d: present but non-literal context
        if True:  # tags and filters alike: message()/messages() report a context-free family only when no context argument is written
            free = [a for a in ast.walk(ext.node) if isinstance(a, ast.Assign) and isinstance(a.value, ast.Constant) and a.value.value in ("gettext", "ngettext")]
            for a in free:
                atoms = []
                for t, pol in _path_condition(ext.module, ext.node, a):
                    atoms += _atoms(t, pol)
                n_d += 1
                site = f"{ext.file}:{a.lineno} {ext.qualname}"
                what = f"{ext.qualname}: `{a.value.value}` is reported only when no context argument is present"
                # sound when the branch is guarded by absence of the argument alone (falsy/is_none on the argument), not by a failed literal test
                nonlit = [o for o, f in atoms if f == "not_isinstance" or (f.startswith("mentioned:") and f.split(":")[-1] in ("isinstance", "not_isinstance"))]
                if nonlit:
                    res.fail("C15.R2d", file=ext.file, line=a.lineno, qualname=ext.qualname, construct=f"{ext.qualname}: {a.value.value} reported for a context argument that is not a string literal", message=f"{ext.qualname} falls back to `{a.value.value}` when the context argument is present but not a string literal (a variable); the render then asks the catalog for {'pgettext' if a.value.value == 'gettext' else 'npgettext'} with the variable's value: a lookup whose family and context extraction does not report", what=what)
                else:
                    res.ok("C15.R2d", site, what, "guarded by absence only")
    # the plural operand likewise: bound once from the filter's arguments, never given a value the template did not write
    for c, sel, ext, is_tag in pairs:
        plural_names = {t.id for a in ast.walk(sel.node) if isinstance(a, ast.Assign) for t in a.targets if isinstance(t, ast.Name) and "plural" in t.id} | {p_ for p_ in sel.params() if "plural" in p_}
        for p_ in sorted(plural_names):
            binds = [a for a in ast.walk(sel.node) if isinstance(a, ast.Assign) and any(isinstance(t, ast.Name) and t.id == p_ for t in a.targets)]
            extra = binds[1:] if p_ not in sel.params() else binds
            extra = [a for a in extra if not (isinstance(a.value, ast.Call) and (dotted(a.value.func) or "").split(".")[-1] in ("to_liquid_string", "str", "escape", "Markup"))]
            n_b += 1
            if extra:
                a = extra[0]
                res.fail("C15.R2b", file=sel.file, line=a.lineno, qualname=sel.qualname, construct=f"{sel.qualname}: the plural operand `{p_}` is given a value the template did not write", message=f"{sel.qualname} rebinds `{p_}` (`{norm(a, 60)}`) before it selects the gettext family: the extractor reports the singular family (gettext / pgettext) when no plural is written, while the render now asks the catalog for ngettext / npgettext with that stand-in plural", what=f"{sel.qualname}: the plural operand reaches the family selection as written")
            else:
                res.ok("C15.R2b", f"{sel.file}:{sel.node.lineno} {sel.qualname}", f"{sel.qualname}: the plural operand reaches the family selection as written", f"`{p_}` bound once")
    # the operand the family is selected on is the one the template wrote: no rebinding of the context parameter in a run-time selector
    for c, sel, ext, is_tag in pairs:
        ctx_params = [p_ for p_ in sel.params() if "context" in p_ and p_ not in ("context",) and "count" not in p_]
        for p_ in ctx_params:
            for a in ast.walk(sel.node):
                if isinstance(a, ast.Assign) and any(isinstance(t, ast.Name) and t.id == p_ for t in a.targets) and not (isinstance(a.value, ast.Call) and (dotted(a.value.func) or "").split(".")[-1] in ("to_liquid_string", "str", "escape", "Markup")):
                    n_b += 1
                    res.fail("C15.R2b", file=sel.file, line=a.lineno, qualname=sel.qualname, construct=f"{sel.qualname}: the context operand `{p_}` is rebound before the lookup", message=f"{sel.qualname} rebinds `{p_}` (`{norm(a, 60)}`) before it selects the gettext family: the extractor decides from the operand as written (a literal '' is a context for it), so the render asks for another family than the one reported", what=f"{sel.qualname}: the context operand reaches the family selection as written")
    res.floor("C15.R2b", "context-family branches of extractors", n_b, 4)
    res.floor("C15.R2c", "silent extractor conditions on the tag", n_c, 1)
    res.floor("C15.R2d", "context-free branches of tag extractors", n_d, 2)
    # R2e: a translation filter's message() is silent only where the filter's left value is not a literal (outside the property) or an argument is missing (the call fails)
    res.rule("C15.R2e", "message() of a translation filter reports nothing only when the left value is not a string literal or a required argument is missing: a `return None` reached because *another* operand (the plural form, the context) is written but not a string literal is a branch on which the render still asks the catalog (ngettext / pgettext with the variable's value) and extraction reports nothing")
    n_e = 0
    for c, sel, ext, is_tag in pairs:
        if is_tag:
            continue
        for r_ in ast.walk(ext.node):
            if not (isinstance(r_, ast.Return) and (r_.value is None or (isinstance(r_.value, ast.Constant) and r_.value.value is None))):
                continue
            n_e += 1
            atoms_e = []
            for t_, pol_ in _path_condition(ext.module, ext.node, r_):
                atoms_e += _atoms(t_, pol_)
            others = sorted({o for o, f in atoms_e if f.split(":")[-1] in ("not_isinstance", "is_not_none") and o not in ("left",) and not o.startswith("len(") and not o.startswith("_filter")})
            site = f"{ext.file}:{r_.lineno} {ext.qualname}"
            what = f"{ext.qualname}: silent only for a non-literal left value or a missing argument"
            if others:
                res.fail("C15.R2e", file=ext.file, line=r_.lineno, qualname=ext.qualname, construct=f"{ext.qualname}: reports nothing when {' / '.join(others)} is not a string literal", message=f"{ext.qualname} returns None when `{' / '.join(others)}` is written but not a string literal: the render still looks the message up ({'ngettext' if 'plural' in others else 'pgettext'} with the variable's value), and extraction reports no message at all for that expression", what=what)
            else:
                res.ok("C15.R2e", site, what, "left value not a literal / argument missing")
    res.floor("C15.R2e", "silent returns of filter extractors", n_e, 6)

    # ------------------------------------------------------------------ R3 line numbers
    res.rule("C15.R3", "both sides take the line from the originating token: tags use line_number(self.token); filters get _line_number(expr.token) from the visitor")
    if isinstance(tt, ClassInfo):
        for c in prog.subclasses(tt, strict=True):
            m = c.methods.get("messages")
            if m is None:
                continue
            what = f"{c.name}.messages uses lineno=line_number(self.token)"
            if any(isinstance(k, ast.keyword) and k.arg == "lineno" and norm(k.value) == "line_number(self.token)" for k in ast.walk(m.node)):
                res.ok("C15.R3", f"{c.file}:{m.node.lineno} {c.name}.messages", what, "originating tag token")
            else:
                res.fail("C15.R3", file=c.file, line=m.node.lineno, qualname=f"{c.name}.messages", construct="lineno source", message="extracted tag messages do not carry the line of the tag token", what=what)
    what = "visitor passes _line_number(expr.token) for expressions"
    if norm(eft.node, 20000).count("_line_number(expr.token)") >= 2:
        res.ok("C15.R3", f"{eft.file}:{eft.node.lineno} extract_from_template", what, "both expression loops")
    else:
        res.fail("C15.R3", file=eft.file, line=eft.node.lineno, qualname="extract_from_template", construct="expression line numbers", message="expression messages are not numbered from the expression's own token", what=what)
    if isinstance(tf, ClassInfo):
        for c in prog.subclasses(tf, strict=True):
            m = c.methods.get("message")
            if m is None:
                continue
            kws = [k for k in ast.walk(m.node) if isinstance(k, ast.keyword) and k.arg == "lineno"]
            what = f"{c.name}.message passes the visitor's lineno through"
            if kws and all(norm(k.value) == "lineno" for k in kws):
                res.ok("C15.R3", f"{c.file}:{m.node.lineno} {c.name}.message", what, "lineno=lineno")
            else:
                res.fail("C15.R3", file=c.file, line=m.node.lineno, qualname=f"{c.name}.message", construct="lineno passthrough", message="a filter extractor invents its own line number", what=what)

    # ------------------------------------------------------------------ R5 translator comments
    res.rule("C15.R5", "a translator comment is attached to the one message that follows it: each yielded MessageTuple takes its comments from `_comments` inside the loop that yields, after the staleness test, and the list is cleared right after the yield")
    n_y = 0
    for f in (visit, vexpr):
        for y in ast.walk(f.node):
            if not (isinstance(y, ast.Yield) and isinstance(y.value, ast.Call) and (dotted(y.value.func) or "") == "MessageTuple"):
                continue
            n_y += 1
            kw = {k.arg: k.value for k in y.value.keywords}
            cm = kw.get("comments")
            loop = next((a for a in msgs.ancestors(y) if isinstance(a, (ast.For, ast.While))), None)
            stmt = next((a for a in msgs.ancestors(y) if isinstance(a, ast.Expr)), None)
            problems = []
            if cm is None or "_comments" not in norm(cm):
                # a local: it must be assigned from _comments inside the same loop
                ok_local = False
                if isinstance(cm, ast.Name) and loop is not None:
                    ok_local = any(isinstance(a, ast.Assign) and norm(a.targets[0]) == cm.id and "_comments" in norm(a.value) for b in loop.body for a in ast.walk(b))
                if not ok_local:
                    problems.append(f"comments={norm(cm) if cm is not None else '<missing>'} is not read from _comments inside the loop that yields")
            if loop is not None and stmt is not None and stmt in loop.body:
                i = loop.body.index(stmt)
                nxt = loop.body[i + 1] if i + 1 < len(loop.body) else None
                if nxt is None or norm(nxt) != "_comments.clear()":
                    problems.append("the yield is not followed by _comments.clear()")
                if not any(isinstance(b, ast.If) and "_comments[-1][0] < lineno - 1" in norm(b.test) for b in loop.body[:i]):
                    problems.append("no staleness test (`_comments[-1][0] < lineno - 1`) before the yield in the same iteration")
            else:
                problems.append("yield not directly inside a loop body")
            # every message the extractor finds is reported, with its own line: nothing in the iteration can skip the yield
            if loop is not None:
                skips = [x for b in loop.body for x in ast.walk(b) if isinstance(x, (ast.Continue, ast.Break)) or (isinstance(x, ast.Return) and x is not y)]
                if skips:
                    problems.append(f"the iteration can leave before the yield (`{norm(skips[0], 30)}` at line {skips[0].lineno}): a message that was found is not reported (e.g. a de-duplication keyed without the line number drops later occurrences of the same text)")
            site = f"{f.file}:{y.lineno} {f.qualname}"
            what = f"{f.qualname}: comments attached per message"
            if problems:
                res.fail("C15.R5", file=f.file, line=y.lineno, qualname=f.qualname, construct=f"yield MessageTuple: {problems[0]}", message="translator comments can be attached to a message that does not immediately follow them: " + "; ".join(problems), what=what)
            else:
                res.ok("C15.R5", site, what, "read, yield, clear - all within one iteration")
    res.floor("C15.R5", "MessageTuple yields", n_y, 2)

    # ------------------------------------------------------------------ R4 totality
    res.rule("C15.R4", "extraction never indexes a possibly-empty sequence without a dominating emptiness guard")
    n_idx = 0
    for f in msgs.functions.values():
        if f.parent_fn is not None and not f.qualname.startswith("extract"):
            continue
        cfg = None
        for s in ast.walk(f.node):
            if isinstance(s, ast.Subscript) and isinstance(s.ctx, ast.Load) and isinstance(s.slice, ast.Constant) and isinstance(s.slice.value, int) and isinstance(s.value, (ast.Attribute, ast.Name)) and msgs.functions.get(f.qualname) is f and prog.enclosing_function(msgs, s) is f:
                seq = norm(s.value)
                if not (seq.endswith(".nodes") or seq.endswith("filters") or seq.endswith("args")):
                    continue
                n_idx += 1
                cfg = cfg or CFG(f.node)
                tn = cfg_node_of(cfg, s)

                def nonempty(e: ast.AST, seq: str = seq) -> bool | None:
                    t = norm(e, 300)
                    if t == f"not {seq}" or t == f"len({seq}) == 0":
                        return True  # bad (empty) on the true edge
                    if t == seq or t.endswith(f"and {seq}") or f" {seq} and" in f" {t}" or t.startswith(f"{seq} and"):
                        return False
                    if t.startswith(f"len({seq}) <") or t.startswith(f"len({seq}) >"):
                        return True if "<" in t else False
                    return None

                g = guarded_by_test(cfg, tn, nonempty) if tn is not None else None
                in_try = any(isinstance(a, ast.Try) and any((dotted(h.type) or "") in ("IndexError", "LookupError", "Exception") for h in a.handlers if h.type is not None) for a in msgs.ancestors(s))
                # same-expression guard:  `X and X[0]`
                same = any(isinstance(a, ast.BoolOp) and isinstance(a.op, ast.And) and any(norm(v) == seq for v in a.values) for a in msgs.ancestors(s)) or any(isinstance(a, ast.If) and seq in norm(a.test, 300) and "isinstance" in norm(a.test, 300) and f"and {seq}" in norm(a.test, 300) for a in msgs.ancestors(s))
                site = f"{f.file}:{s.lineno} {f.qualname}"
                what = f"`{norm(s)}` guarded against an empty sequence"
                if g is not None or in_try or same:
                    res.ok("C15.R4", site, what, f"guard `{norm(g.node)}`" if g is not None else "same-expression / try guard")
                else:
                    res.fail("C15.R4", file=f.file, line=s.lineno, qualname=f.qualname, construct=f"{norm(s)} without an emptiness guard", message=f"`{norm(s)}` raises IndexError when `{seq}` is empty (e.g. extracting messages from an empty template)", what=what)
    res.floor("C15.R4", "constant-index reads in extraction code", n_idx, 1)

    # ------------------------------------------------------------------ R7 the visitor's view of the tree is complete
    res.rule("C15.R7", "extraction walks node.children(): every Node/Expression class hands each child to the traversals under no condition other than that child's own presence (shared with C11.R9) - a translate tag or translation filter inside a child that children() drops is looked up at run time but never extracted")
    from checks.shared import check_unconditional_contributions

    check_unconditional_contributions(prog, res, "C15.R7")
    res.rule("C15.R11", "extraction walks what render evaluates: for every Node class the expressions evaluated and blocks rendered by render_to_output[_async] are among those expressions() / children() hand out - an argument that render evaluates and expressions() filters out (a repeated name, a non-path value) can hold a `| t` filter whose lookup extraction never sees (= C11.R2)")
    from checks.C11 import NODE_USE
    from checks.C11 import _agreement

    n11_ = _agreement(prog, res, "C15.R11", "liquid2.ast.Node", ("render_to_output", "render_to_output_async"), NODE_USE, ("children", "expressions"))
    res.floor("C15.R11", "node attribute obligations", n11_, 25)

    # ------------------------------------------------------------------ R8 message line numbers and error positions use one search
    res.rule("C15.R8", "a message's line number is found by the same offset -> line search as error positions: messages.line_number, line_number_factory._line_number and LiquidError._error_context agree after normalisation and report `<index of the line found> + 1` (shared with C17.R8)")
    from checks.C17 import check_line_searches

    check_line_searches(prog, res, "C15.R8")
    res.rule("C15.R10", "the line number of a message is computed over the same pieces as the character offset it is compared with: a function that sums line lengths splits with splitlines(keepends=True) and adds nothing per line (shared with C17.R5) - otherwise the reported line drifts by one character per preceding line, a translator comment is detached, and the search raises ValueError near the end of the source")
    from checks.C17 import check_line_model

    check_line_model(prog, res, "C15.R10")


    # ------------------------------------------------------------------ R9 extraction never fails: locals are bound before use
    res.rule("C15.R9", "extraction never fails on a template that parses: in messages.py and in every message()/messages() method each local is bound on every path before it is read (definite-assignment dataflow; shared with C02.R7)")
    from checks.shared import check_definite_assignment

    check_definite_assignment(prog, res, "C15.R9", scope="extraction")
