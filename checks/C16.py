"""C16 - strict undefined raises only for missing variables; default policy never raises UndefinedError."""

from __future__ import annotations

import ast

from sa.report import AnalysisError
from sa.report import Result
from sa.report import norm
from sa.srcmodel import ClassInfo
from sa.srcmodel import Program
from sa.srcmodel import dotted
from sa.util import is_self_attr

META = {
    "technique": "who-may-raise audit for UndefinedError, override-exhaustiveness table check across the Undefined family, "
    "provenance audit of every env.undefined(...) construction site (failed-lookup handler or engine-absent object)",
    "level_text": "Decides completely the third sentence of the property (under the default policy absence alone never "
    "raises UndefinedError: only StrictUndefined's own methods raise it and nothing constructs StrictUndefined except "
    "through env.undefined), and the necessary direction of the first (an undefined value exists only where a lookup "
    "failed or an engine object is absent, and every value-producing hook of StrictUndefined raises). Output refinement "
    "between policies and 'raises only when actually used' are behavioural and not decided.",
    "level_note": "Trusts Python's special-method dispatch (dunder lookup bypasses __getattribute__ on the type). "
    "User subclasses of Undefined are outside the claim.",
}
META["technique"] += '; narrowing-before-use dataflow for values that may be Undefined (context.resolve); operand-normalisation dominance in the comparison helpers; presence-by-key rule on the lookup functions'
META["level_text"] += " Also decided, as necessary conditions of the second sentence (R5, R6): _eq/_lt/_contains resolve __liquid__() before Python comparison can consult an undefined operand's own __eq__; lookups decide 'missing' from the failed key, never from a nil/false value."
META["technique"] += "; sibling agreement between the undefined classes (a relaxed hook must have the default's body, operands of and/or chains compared as sets)"
META["technique"] += '; truth-table complement check of reject against where'
META["technique"] += "; nil tests on elements in filter comprehensions cover undefined and the map placeholder"
META["technique"] += '; field-not-value presence tests for optionally evaluated tag arguments; zero-expected lint for hash-based collections in the filters; predicate agreement of where / find / find_index / has'
META["technique"] += "; `is not None` defaulting of RenderContext's mapping parameters"
META["technique"] += '; one positional argument to context.resolve'
META["level_text"] += " Also decided (R8): every hook that a strict undefined class answers without raising answers exactly as the default Undefined does."

U = "liquid2.undefined.Undefined"
VALUE_HOOKS = {"__contains__", "__eq__", "__getitem__", "__len__", "__iter__", "__str__", "__int__", "__hash__", "__reversed__", "__bool__"}


def _all_paths_raise(fn: ast.FunctionDef, exc: str) -> bool:
    body = [s for s in fn.body if not (isinstance(s, ast.Expr) and isinstance(s.value, ast.Constant))]
    return len(body) >= 1 and isinstance(body[-1], ast.Raise) and exc in norm(body[-1]) and not any(isinstance(n, ast.Return) for n in ast.walk(fn))


def _literal_strings(e: ast.expr | None) -> set[str]:
    out: set[str] = set()
    if e is None:
        return out
    for x in ast.walk(e):
        if isinstance(x, ast.Constant) and isinstance(x.value, str):
            out.add(x.value)
    return out


def run(prog: Program, res: Result) -> None:  # noqa: PLR0912, PLR0915
    res.explanation = (
        "R1 enumerates every `raise UndefinedError` / `UndefinedError(` in the package and every construction of an "
        "Undefined class. R2 compares, method by method, what Undefined defines with what StrictUndefined/"
        "FalsyStrictUndefined override or block through __getattribute__ + allowed_properties. R3 classifies each "
        "env.undefined(...) site as the handler of a failed lookup or one of the engine-absent objects."
    )
    res.not_decided += ["a strict render fails only when the absent value is actually used (behavioural)", "output equality between policies on successful renders", "which filters poke() an undefined argument (per-filter value semantics)"]
    res.trusted_base += ["special-method lookup on the type bypasses instance __getattribute__"]
    und = prog.cls(U)
    strict = prog.cls("liquid2.undefined.StrictUndefined")
    falsy = prog.cls("liquid2.undefined.FalsyStrictUndefined")
    family = prog.subclasses(und)
    res.floor("C16", "Undefined family", len(family), 3)
    strict_family = [c for c in family if prog.is_subclass(c, strict)]

    # ------------------------------------------------------------------ R1
    res.rule("C16.R1", "UndefinedError is raised only inside methods of StrictUndefined (and subclasses); Undefined/DebugUndefined never raise; no Undefined class is constructed except through env.undefined(...)")
    n_raise = 0
    for mod in prog.modules.values():
        for n in ast.walk(mod.tree):
            if isinstance(n, ast.Call) and (dotted(n.func) or "").split(".")[-1] == "UndefinedError":
                n_raise += 1
                fi = prog.enclosing_function(mod, n)
                q = fi.qualname if fi else "<module>"
                what = f"`UndefinedError(...)` constructed in {q}"
                cls = fi.cls if fi else None
                if cls is None and fi is not None and fi.parent_fn is not None:
                    cls = fi.parent_fn.cls
                if cls is not None and prog.is_subclass(cls, strict):
                    res.ok("C16.R1", f"{mod.relpath}:{n.lineno} {q}", what, "inside the strict policy")
                else:
                    res.fail("C16.R1", file=mod.relpath, line=n.lineno, qualname=q, construct=n, message="UndefinedError raised outside StrictUndefined: the default policy can now fail on a missing variable", what=what)
    res.floor("C16.R1", "UndefinedError constructions", n_raise, 8)
    for c in family:
        if c in strict_family:
            continue
        for m in c.methods.values():
            for n in ast.walk(m.node):
                if isinstance(n, ast.Raise):
                    res.fail("C16.R1", file=c.file, line=n.lineno, qualname=m.qualname, construct=n, message=f"{c.name} (a non-strict undefined) raises", what=f"{c.name} never raises")
        res.ok("C16.R1", f"{c.file}:{c.node.lineno} {c.name}", f"{c.name} defines no method that raises", f"{len(c.methods)} methods scanned")
    # constructions of the classes by name
    n_ctor = 0
    for mod in prog.modules.values():
        for n in ast.walk(mod.tree):
            if isinstance(n, ast.Call):
                r = prog.resolve(mod, dotted(n.func) or "")
                if isinstance(r, ClassInfo) and prog.is_subclass(r, und):
                    n_ctor += 1
                    fi = prog.enclosing_function(mod, n)
                    res.fail("C16.R1", file=mod.relpath, line=n.lineno, qualname=fi.qualname if fi else "", construct=n, message=f"{r.name} constructed directly instead of through env.undefined: the configured policy is bypassed", what="undefined values come from env.undefined")
    res.ok("C16.R1", "liquid2/**", "no Undefined class is constructed by name", f"{n_ctor} direct constructions")
    # Environment default policy
    env = prog.cls("liquid2.environment.Environment")
    einit = env.methods.get("__init__")
    if einit is None:
        raise AnalysisError("Environment.__init__ vanished")
    dflt = None
    a = einit.node.args
    for p, d in zip(a.kwonlyargs, a.kw_defaults):
        if p.arg == "undefined" and d is not None:
            dflt = norm(d)
    what = "Environment(undefined=…) defaults to Undefined and stores it unchanged"
    stored = any(isinstance(n, ast.Assign) and is_self_attr(n.targets[0], "undefined") and norm(n.value) == "undefined" for n in ast.walk(einit.node))
    if dflt == "Undefined" and stored and isinstance(prog.resolve(einit.module, "Undefined"), ClassInfo) and prog.resolve(einit.module, "Undefined").full == U:
        res.ok("C16.R1", f"{einit.file}:{einit.node.lineno} Environment.__init__", what, "undefined: Type[Undefined] = Undefined")
    else:
        res.fail("C16.R1", file=einit.file, line=einit.node.lineno, qualname="Environment.__init__", construct=f"undefined default {dflt}", message="the default undefined policy is not liquid2.undefined.Undefined", what=what)

    # ------------------------------------------------------------------ R2
    res.rule("C16.R2", "every hook Undefined defines is, in StrictUndefined, overridden by a body that always raises UndefinedError, or blocked by __getattribute__ (name not in allowed_properties); FalsyStrictUndefined relaxes exactly __bool__ and __eq__ and lists every relaxed hook")
    base_methods = set(und.methods) - {"__init__", "__repr__"}
    ga = strict.methods.get("__getattribute__")
    allowed = _literal_strings(strict.class_attrs.get("allowed_properties"))
    if ga is None or not allowed:
        res.fail("C16.R2", file=strict.file, line=strict.node.lineno, qualname="StrictUndefined", construct="__getattribute__/allowed_properties missing", message="StrictUndefined no longer blocks attribute access", what="StrictUndefined.__getattribute__ present")
    for name in sorted(base_methods | VALUE_HOOKS):
        site = f"{strict.file}:{strict.node.lineno} StrictUndefined.{name}"
        what = f"StrictUndefined makes `{name}` raise"
        m = strict.methods.get(name)
        if m is not None:
            if _all_paths_raise(m.node, "UndefinedError"):
                res.ok("C16.R2", site, what, "overridden: body always raises UndefinedError")
            else:
                res.fail("C16.R2", file=strict.file, line=m.node.lineno, qualname=f"StrictUndefined.{name}", construct=f"StrictUndefined.{name} does not always raise", message=f"StrictUndefined.{name} can return a value: a missing variable is used silently under the strict policy", what=what)
        elif name.startswith("__") and name.endswith("__") and name in VALUE_HOOKS:
            res.fail("C16.R2", file=strict.file, line=strict.node.lineno, qualname="StrictUndefined", construct=f"missing override {name}", message=f"StrictUndefined does not override {name}: special-method lookup bypasses __getattribute__, so Undefined.{name} answers silently", what=what)
        elif name in allowed:
            res.fail("C16.R2", file=strict.file, line=strict.node.lineno, qualname="StrictUndefined", construct=f"allowed_properties contains {name}", message=f"`{name}` is allowed through StrictUndefined.__getattribute__ although Undefined.{name} returns a value", what=what)
        else:
            res.ok("C16.R2", site, what, "not overridden, but reached by name only: blocked by __getattribute__ (not in allowed_properties)")
    # allowed_properties contains only inert names
    inert = {"__repr__", "__class__", "force_liquid_default", "name", "hint", "obj", "msg", "path", "token"}
    extra = allowed - inert
    what = "StrictUndefined.allowed_properties lists only inert attributes"
    if not extra:
        res.ok("C16.R2", f"{strict.file}:{strict.node.lineno} StrictUndefined", what, f"{sorted(allowed)}")
    else:
        res.fail("C16.R2", file=strict.file, line=strict.node.lineno, qualname="StrictUndefined", construct=f"allowed_properties extra {sorted(extra)}", message=f"StrictUndefined lets {sorted(extra)} through without raising", what=what)
    # FalsyStrictUndefined
    f_over = set(falsy.methods)
    f_allowed = _literal_strings(falsy.class_attrs.get("allowed_properties"))
    what = "FalsyStrictUndefined relaxes exactly __bool__ and __eq__"
    if f_over == {"__bool__", "__eq__"}:
        res.ok("C16.R2", f"{falsy.file}:{falsy.node.lineno} FalsyStrictUndefined", what, "overrides: __bool__, __eq__")
    else:
        res.fail("C16.R2", file=falsy.file, line=falsy.node.lineno, qualname="FalsyStrictUndefined", construct=f"overrides {sorted(f_over)}", message=f"FalsyStrictUndefined overrides {sorted(f_over)}; only truthiness and equality may be relaxed", what=what)
    fb = falsy.methods.get("__bool__")
    what = "FalsyStrictUndefined.__bool__ returns False"
    if fb is not None and any(isinstance(r, ast.Return) and isinstance(r.value, ast.Constant) and r.value.value is False for r in ast.walk(fb.node)) and not any(isinstance(r, ast.Return) and not (isinstance(r.value, ast.Constant) and r.value.value is False) for r in ast.walk(fb.node)):
        res.ok("C16.R2", f"{falsy.file}:{fb.node.lineno} FalsyStrictUndefined.__bool__", what, "return False")
    else:
        res.fail("C16.R2", file=falsy.file, line=falsy.node.lineno, qualname="FalsyStrictUndefined.__bool__", construct="__bool__ result", message="a falsy-strict undefined is not falsy", what=what)
    f_extra = f_allowed - inert - {"__bool__", "__eq__", "__liquid__"}
    what = "FalsyStrictUndefined.allowed_properties = inert names + the relaxed hooks"
    if not f_extra and {"__bool__", "__eq__"} <= f_allowed:
        res.ok("C16.R2", f"{falsy.file}:{falsy.node.lineno} FalsyStrictUndefined", what, f"{sorted(f_allowed)}")
    else:
        res.fail("C16.R2", file=falsy.file, line=falsy.node.lineno, qualname="FalsyStrictUndefined", construct=f"allowed_properties {sorted(f_allowed)}", message=f"FalsyStrictUndefined allows {sorted(f_extra)} through", what=what)
    # default Undefined is total and nil-like
    expect = {"__str__": "''", "__len__": "0", "__bool__": None, "__iter__": "iter([])", "__int__": "0", "__contains__": "False", "__getitem__": "self", "__liquid__": "None", "__reversed__": "[]"}
    for name, val in expect.items():
        m = und.methods.get(name)
        if val is None:
            continue
        what = f"Undefined.{name} returns {val} (nil/empty behaviour)"
        rets = [norm(r.value) for r in ast.walk(m.node) if isinstance(r, ast.Return)] if m else []
        if rets == [val]:
            res.ok("C16.R2", f"{und.file}:{m.node.lineno} Undefined.{name}", what, f"return {val}")
        else:
            res.fail("C16.R2", file=und.file, line=m.node.lineno if m else und.node.lineno, qualname=f"Undefined.{name}", construct=f"{name} returns {rets}", message=f"the default undefined no longer behaves as nil/empty for {name}", what=what)
    iu = prog.fn_opt("liquid2/undefined.py", "is_undefined")
    what = "is_undefined(obj) is isinstance(obj, Undefined)"
    if iu is not None and [norm(r.value) for r in ast.walk(iu.node) if isinstance(r, ast.Return)] == ["isinstance(obj, Undefined)"]:
        res.ok("C16.R2", f"{iu.file}:{iu.node.lineno} is_undefined", what, "no attribute access on obj")
    else:
        res.fail("C16.R2", file="liquid2/undefined.py", line=iu.node.lineno if iu else 0, qualname="is_undefined", construct="is_undefined body", message="is_undefined inspects the object (would trip StrictUndefined) or changed meaning", what=what)

    # ------------------------------------------------------------------ R8 relaxed hooks agree with the default
    res.rule("C16.R8", "a hook that a strict undefined class answers without raising (its body is not an unconditional `raise UndefinedError`) answers exactly as the default Undefined does (same return expression; __bool__ is compared with the truth value Python derives from Undefined.__len__): otherwise a strict render can succeed with output that differs from the default policy's")
    def _canon(e: ast.AST) -> str:
        """Text of an expression with the operands of and/or chains sorted (pure tests commute)."""
        if isinstance(e, ast.BoolOp):
            op = " or " if isinstance(e.op, ast.Or) else " and "
            return "(" + op.join(sorted(_canon(v) for v in e.values)) + ")"
        if isinstance(e, ast.UnaryOp) and isinstance(e.op, ast.Not):
            return f"not {_canon(e.operand)}"
        return norm(e)

    def _body_sig(fn: ast.FunctionDef) -> list[str]:
        out = []
        for st in fn.body:
            if isinstance(st, ast.Expr) and isinstance(st.value, ast.Constant) and isinstance(st.value.value, str):
                continue
            out.append(f"return {_canon(st.value)}" if isinstance(st, ast.Return) and st.value is not None else norm(st))
        return out

    n8 = 0
    for sc in [strict, *prog.subclasses(strict, strict=True)]:
        for name, m in sorted(sc.methods.items()):
            if not (name.startswith("__") and name.endswith("__")) or name in ("__init__", "__getattribute__", "__slots__"):
                continue
            if _all_paths_raise(m.node, "UndefinedError"):
                continue
            n8 += 1
            site = f"{sc.file}:{m.node.lineno} {sc.qualname}.{name}"
            what = f"{sc.qualname}.{name} (does not raise) answers as Undefined.{name}"
            dm = und.methods.get(name)
            if dm is not None:
                expected = _body_sig(dm.node)
                src = f"Undefined.{name}"
            elif name == "__bool__" and und.methods.get("__len__") is not None and [norm(r.value) for r in ast.walk(und.methods["__len__"].node) if isinstance(r, ast.Return)] == ["0"]:
                expected = ["return False"]
                src = "bool(Undefined) (derived from Undefined.__len__ returning 0)"
            else:
                res.fail("C16.R8", file=sc.file, line=m.node.lineno, qualname=f"{sc.qualname}.{name}", construct=f"{sc.qualname}.{name}: no default counterpart", message=f"{sc.qualname}.{name} answers without raising but the default Undefined has no `{name}` to compare it with (not decided)", what=what)
                continue
            got = _body_sig(m.node)
            if got == expected:
                res.ok("C16.R8", site, what, f"same body as {src}: {'; '.join(expected)[:80]}")
            else:
                res.fail("C16.R8", file=sc.file, line=m.node.lineno, qualname=f"{sc.qualname}.{name}", construct=f"{sc.qualname}.{name} differs from the default's", message=f"{sc.qualname}.{name} answers `{'; '.join(got)[:80]}` without raising, the default policy answers `{'; '.join(expected)[:80]}` ({src}): wherever Python reaches this hook directly (list membership/equality/index, str() of a container) a render under this policy succeeds with output that differs from the default policy's", what=what)
    res.floor("C16.R8", "non-raising hooks of the strict undefined classes", n8, 2)

    # ------------------------------------------------------------------ R3 provenance
    res.rule("C16.R3", "every env.undefined(...) construction is the handler of a failed lookup (except KeyError/TypeError/IndexError around scope/get_item/loops) or one of the engine-absent objects (block.super, parentloop, missing macro / macro argument)")
    absent_table = {
        ("BlockDrop.__getitem__", "'super'"): "block.super without a parent block",
        ("RenderNode.render_to_output", "'parentloop'"): "forloop.parentloop of a `render for`",
        ("RenderNode.render_to_output_async", "'parentloop'"): "forloop.parentloop of a `render for`",
        ("CallNode.render_to_output", "self.name"): "a macro that was never defined",
        ("CallNode.render_to_output_async", "self.name"): "a macro that was never defined",
        ("CallNode.render_to_output", "name"): "a macro parameter without argument or default",
        ("CallNode.render_to_output_async", "name"): "a macro parameter without argument or default",
        ("RenderContext.get", "'<not a name>'"): "a bracketed path root that evaluated to something other than a string: no variable can have that name",
        ("RenderContext.get_async", "'<not a name>'"): "a bracketed path root that evaluated to something other than a string: no variable can have that name",
    }
    n_u = 0
    for mod in prog.modules.values():
        for n in ast.walk(mod.tree):
            if not (isinstance(n, ast.Call) and isinstance(n.func, ast.Attribute) and n.func.attr == "undefined" and norm(n.func.value).endswith("env")):
                continue
            n_u += 1
            fi = prog.enclosing_function(mod, n)
            q = fi.qualname if fi else "<module>"
            site = f"{mod.relpath}:{n.lineno} {q}"
            what = f"`{norm(n, 60)}` stands for something absent"
            handler = None
            for a_ in mod.ancestors(n):
                if isinstance(a_, ast.ExceptHandler):
                    handler = a_
                    break
                if fi is not None and a_ is fi.node:
                    break
            if handler is not None:
                names = {dotted(e) for e in (handler.type.elts if isinstance(handler.type, ast.Tuple) else [handler.type])} if handler.type is not None else set()
                if names and names <= {"KeyError", "TypeError", "IndexError", "LookupError"}:
                    res.ok("C16.R3", site, what, f"in `except {norm(handler.type)}`: a lookup failed")
                    continue
            arg0 = norm(n.args[0]) if n.args else ""
            if (q, arg0) in absent_table:
                res.ok("C16.R3", site, what, "engine-absent object: " + absent_table[(q, arg0)])
            else:
                res.fail("C16.R3", file=mod.relpath, line=n.lineno, qualname=q, construct=n, message="an undefined value is manufactured where no lookup failed: under the strict policy a render can fail although every variable it uses exists", what=what)
    res.floor("C16.R3", "env.undefined() sites", n_u, 12)

    # ------------------------------------------------------------------ R3b lookup fallbacks
    res.rule("C16.R3b", "RenderContext.get_item*: the `size` fallback returns len(obj) for every Sized object (its guard consists of isinstance tests only), so an existing empty collection never turns into an undefined")
    ctx = prog.cls("liquid2.context.RenderContext")
    for nm in ("get_item", "get_item_async"):
        m = ctx.methods.get(nm)
        if m is None:
            raise AnalysisError(f"RenderContext.{nm} vanished")
        lens = [r for r in ast.walk(m.node) if isinstance(r, ast.Return) and norm(r.value) in ("len(obj)", "length(obj)")]
        what = f"{nm}: `return len(obj)` guarded by isinstance tests only"
        ok = bool(lens)
        for r in lens:
            guard = next((a for a in m.module.ancestors(r) if isinstance(a, ast.If)), None)
            atoms = guard.test.values if guard is not None and isinstance(guard.test, ast.BoolOp) else ([guard.test] if guard is not None else [])
            if not atoms or not all(isinstance(a, ast.Call) and isinstance(a.func, ast.Name) and a.func.id == "isinstance" for a in atoms):
                ok = False
        if ok:
            res.ok("C16.R3b", f"{m.file}:{m.node.lineno} RenderContext.{nm}", what, "isinstance(obj, Sized)")
        else:
            res.fail("C16.R3b", file=m.file, line=m.node.lineno, qualname=f"RenderContext.{nm}", construct=f"{nm}: size fallback guard depends on more than the object's type", message="the `.size` fallback is skipped for some existing objects (e.g. empty ones): `items.size` of an empty list becomes undefined and fails under the strict policy although `items` exists", what=what)

    # ------------------------------------------------------------------ R4 engine-internal optional lookups
    res.rule("C16.R4", "a value obtained from context.resolve(name) without a default may be an Undefined: filters/tags must not test its truth, compare it, stringify or iterate it before an is_undefined()/isinstance() narrowing (under the strict policy that raises for a variable the template never used)")
    from sa.cfg import CFG
    from sa.util import cfg_node_of
    from sa.util import guarded_by_test

    n_res = 0
    for fi in prog.all_functions():
        maybe_undef: dict[str, ast.AST] = {}
        for n in ast.walk(fi.node):
            if isinstance(n, ast.Assign) and len(n.targets) == 1 and isinstance(n.targets[0], ast.Name):
                for c in ast.walk(n.value):
                    if isinstance(c, ast.Call) and isinstance(c.func, ast.Attribute) and c.func.attr == "resolve" and norm(c.func.value) in ("context", "ctx", "self.context") and len(c.args) == 1 and not c.keywords:
                        maybe_undef[n.targets[0].id] = n
        if not maybe_undef or prog.enclosing_function(fi.module, next(iter(maybe_undef.values()))) is not fi:
            continue
        cfg = CFG(fi.node)
        for v in sorted(maybe_undef):
            for use in ast.walk(fi.node):
                if not (isinstance(use, ast.Name) and use.id == v and isinstance(use.ctx, ast.Load)):
                    continue
                par = fi.module.parent(use)
                hazard = None
                if isinstance(par, ast.Call) and isinstance(par.func, ast.Name) and par.func.id in ("is_undefined", "isinstance") and par.args and par.args[0] is use:
                    continue
                if isinstance(par, ast.Compare):
                    if all(isinstance(o, (ast.Is, ast.IsNot)) for o in par.ops):
                        continue
                    hazard = "compared (==/in call __eq__)"
                elif isinstance(par, (ast.If, ast.While, ast.IfExp)) and par.test is use:
                    hazard = "tested for truth"
                elif isinstance(par, ast.UnaryOp) and isinstance(par.op, ast.Not):
                    hazard = "tested for truth (not)"
                elif isinstance(par, ast.BoolOp):
                    hazard = "tested for truth (and/or)"
                elif isinstance(par, ast.Call) and isinstance(par.func, ast.Name) and par.func.id in ("str", "len", "bool", "int", "list", "iter", "hash") and par.args and par.args[0] is use:
                    hazard = f"passed to {par.func.id}()"
                elif isinstance(par, (ast.For, ast.comprehension)) and par.iter is use:
                    hazard = "iterated"
                elif isinstance(par, ast.Subscript) and par.value is use:
                    hazard = "subscripted"
                elif isinstance(par, ast.FormattedValue):
                    hazard = "formatted into a string"
                if hazard is None:
                    continue
                n_res += 1
                tn = cfg_node_of(cfg, use)
                site = f"{fi.file}:{use.lineno} {fi.qualname}"
                what = f"`{v}` (from context.resolve) is {hazard} only after narrowing"

                def narrowed(test: ast.AST, v: str = v) -> bool | None:
                    t = norm(test)
                    if t == f"is_undefined({v})":
                        return True  # bad (still undefined) on the true edge
                    if t == f"not is_undefined({v})":
                        return False
                    if t.startswith(f"isinstance({v}, "):
                        return False  # bad on the false edge: the true edge is narrowed
                    return None

                from sa.util import guarded_by_test

                g = guarded_by_test(cfg, tn, narrowed) if tn is not None else None
                # the use may itself sit in the elif-chain *after* an is_undefined test: covered by guarded_by_test
                if g is not None:
                    res.ok("C16.R4", site, what, f"dominated by `{norm(g.node)}`")
                else:
                    res.fail("C16.R4", file=fi.file, line=use.lineno, qualname=fi.qualname, construct=f"{v} {hazard} in `{norm(par, 60)}`", message=f"`{v}` comes from context.resolve() without a default and is {hazard} before any is_undefined()/isinstance() check: with StrictUndefined the render fails with UndefinedError for an optional setting the template never mentions", what=what)
    res.stats["C16.R4.hazardous_uses_examined"] = n_res

    # ------------------------------------------------------------------ R4b lambda results
    # (C16.R4b - "lambda results are narrowed before they are compared/hashed/stringified" - was retired in round 4: with R2 (every
    # strict hook raises) and R8 (a relaxed hook answers exactly as the default's) an un-narrowed use either raises UndefinedError for a
    # property that really is missing, or gives the default policy's answer; the rule then fired on a change that keeps the property.)
    # ------------------------------------------------------------------ R5 operand normalisation in the value-semantics helpers
    res.rule("C16.R5", "the comparison helpers (_eq, _lt, _contains) resolve __liquid__() on an operand before Python's ==, <, in can consult that operand's own __eq__ (an undefined operand then compares as nil under every policy that does not raise)")
    ex = prog.mod("liquid2/builtin/expressions.py")
    # operand parameters exempt from normalisation, with the reason
    r5_exempt = {("_contains", "left"): "the container side: every Undefined class is an (empty or raising) Mapping; membership never calls the container's __eq__"}
    n_r5 = 0
    for hname in ("_eq", "_lt", "_contains"):
        h = ex.functions.get(hname)
        if h is None:
            raise AnalysisError(f"{hname} vanished from expressions.py")
        params = [p for p in h.params() if p not in ("token",)]
        cfg = CFG(h.node)
        for cmp_ in ast.walk(h.node):
            if not isinstance(cmp_, ast.Compare) or all(isinstance(o, (ast.Is, ast.IsNot)) for o in cmp_.ops):
                continue
            operands = [cmp_.left] + list(cmp_.comparators)
            for o in operands:
                if not (isinstance(o, ast.Name) and o.id in params):
                    continue
                n_r5 += 1
                site = f"{h.file}:{cmp_.lineno} {hname}"
                what = f"{hname}: operand `{o.id}` of `{norm(cmp_, 50)}` had __liquid__() resolved"
                if (hname, o.id) in r5_exempt:
                    res.ok("C16.R5", site, what, "exempt: " + r5_exempt[(hname, o.id)])
                    continue
                tn = cfg_node_of(cfg, cmp_)
                # the normalising statement `<p> = <p>.__liquid__()` lies on every path to the comparison, or the
                # operand was narrowed to a builtin type (isinstance(p, (str, int, …))) on the way
                def normalises(n, p=o.id):  # noqa: ANN001, ANN202
                    nd = getattr(n, "node", None)
                    if getattr(n, "kind", "") == "test" and nd is not None:
                        return False
                    return isinstance(nd, ast.If) is False and isinstance(nd, ast.Assign) and norm(nd) == f"{p} = {p}.__liquid__()"

                def has_hook_test(p=o.id):  # noqa: ANN001, ANN202
                    return any(n.kind == "test" and n.node is not None and norm(n.node) == f"hasattr({p}, '__liquid__')" for n in cfg.nodes)

                def narrowed(test: ast.AST, p: str = o.id) -> bool | None:
                    t = norm(test)
                    if t.startswith(f"isinstance({p}, ") and "Undefined" not in t:
                        return False
                    return None

                ok = None
                if has_hook_test():
                    # every path either takes the hook (assignment) or skips it because the operand has no __liquid__ - in both
                    # cases the operand reaching the comparison is not an Undefined (Undefined defines __liquid__)
                    hook = next(n for n in cfg.nodes if n.kind == "test" and n.node is not None and norm(n.node) == f"hasattr({o.id}, '__liquid__')")
                    if tn is not None and cfg.all_paths_pass(tn, lambda n, hook=hook: n is hook):
                        asg_ok = any(m.kind == "stmt" and isinstance(m.node, ast.Assign) and norm(m.node) == f"{o.id} = {o.id}.__liquid__()" for m, lab in hook.succ if lab == "true")
                        if asg_ok:
                            ok = f"`if hasattr({o.id}, '__liquid__'): {o.id} = {o.id}.__liquid__()` dominates"
                if ok is None and tn is not None:
                    g = guarded_by_test(cfg, tn, narrowed)
                    if g is not None:
                        ok = f"narrowed by `{norm(g.node, 60)}`"
                if ok is None:
                    # same-expression narrowing: isinstance(p, …) and … p <op> …
                    for a in h.module.ancestors(cmp_):
                        if isinstance(a, ast.BoolOp) and isinstance(a.op, ast.And) and any(norm(v).startswith(f"isinstance({o.id}, ") for v in a.values):
                            ok = "narrowed in the same condition"
                        if a is h.node:
                            break
                if ok:
                    res.ok("C16.R5", site, what, ok)
                else:
                    res.fail("C16.R5", file=h.file, line=cmp_.lineno, qualname=hname, construct=f"{hname}: `{norm(cmp_, 50)}` with raw operand {o.id}", message=f"`{norm(cmp_, 50)}` can run with `{o.id}` still an Undefined object: Python then asks that object's __eq__, which answers differently for Undefined (== nil) and FalsyStrictUndefined (== false) - a falsy-strict render succeeds with output that differs from the default policy", what=what)
    res.floor("C16.R5", "operand uses in comparison helpers", n_r5, 4)

    # ------------------------------------------------------------------ R7 nothing swallows the strict policy's error
    res.rule("C16.R7", "no except clause in liquid2 that can catch UndefinedError (UndefinedError itself, a base class of it, Exception, BaseException or a bare except) finishes without re-raising: a swallowed UndefinedError lets a strict render succeed with a fallback value the default policy would not produce")
    ue = prog.cls("liquid2.exceptions.UndefinedError")
    catchers = {c.name for c in prog.mro(ue)} | {"Exception", "BaseException"}
    n_h = 0
    n_sw = 0
    for mod_ in prog.modules.values():
        for h in ast.walk(mod_.tree):
            if not isinstance(h, ast.ExceptHandler):
                continue
            n_h += 1
            names = [norm(x).split(".")[-1] for x in (h.type.elts if isinstance(h.type, ast.Tuple) else ([h.type] if h.type is not None else []))]
            hit = [n for n in names if n in catchers] or (["<bare except>"] if h.type is None else [])
            if not hit:
                continue
            fi = prog.enclosing_function(mod_, h)
            q = fi.qualname if fi else "<module>"
            site = f"{mod_.relpath}:{h.lineno} {q}"
            what = f"`except {', '.join(names) or ''}` in {q} re-raises"
            def _always_raises(body: list[ast.stmt]) -> bool:
                for st in body:
                    if isinstance(st, ast.Raise):
                        return True
                    if isinstance(st, (ast.Return, ast.Continue, ast.Break)):
                        return False
                    if isinstance(st, ast.If):
                        if any(isinstance(x, (ast.Return, ast.Continue, ast.Break)) for b in st.body + st.orelse for x in ast.walk(b)):
                            return False
                        if st.orelse and _always_raises(st.body) and _always_raises(st.orelse):
                            return True
                    elif any(isinstance(x, (ast.Return, ast.Continue, ast.Break)) for x in ast.walk(st)):
                        return False
                return False

            if _always_raises(h.body):
                res.ok("C16.R7", site, what, "every path through the handler raises (adds context / converts)")
            elif any(isinstance(x, ast.Raise) for x in ast.walk(h)):
                n_sw += 1
                res.fail("C16.R7", file=mod_.relpath, line=h.lineno, qualname=q, construct=f"except {', '.join(hit)} re-raises only on some paths in {q}", message=f"{q} catches {', '.join(hit)} and re-raises on some paths only (another path returns or falls through): an UndefinedError raised by the strict policy inside the try block can be swallowed and replaced by a fallback, so a strict render succeeds with output that differs from the default policy's", what=what)
            else:
                n_sw += 1
                res.fail("C16.R7", file=mod_.relpath, line=h.lineno, qualname=q, construct=f"except {', '.join(hit)} without re-raise in {q}", message=f"{q} catches {', '.join(hit)} and carries on: an UndefinedError raised by the strict policy inside the try block is swallowed and replaced by the handler's fallback, so a strict render succeeds with output that differs from the default policy's", what=what)
    res.floor("C16.R7", "except clauses scanned", n_h, 60)
    probe = ast.parse("try:\n    x()\nexcept (ValueError, LiquidError):\n    y = 1\n")
    ph = [h for h in ast.walk(probe) if isinstance(h, ast.ExceptHandler)][0]
    if not any(norm(x).split(".")[-1] in catchers for x in ph.type.elts):
        raise AnalysisError("C16.R7 matcher self-check failed")

    # ------------------------------------------------------------------ R6 presence is decided by key, not by value
    res.rule("C16.R6", "variable lookup decides 'missing' from the failed key/index lookup (KeyError/IndexError/TypeError, `in`), never from the looked-up value: a variable bound to nil/false/0/'' exists")
    from checks.shared import check_presence_by_key

    check_presence_by_key(prog, res, "C16.R6")

    # ------------------------------------------------------------------ R9 an undefined left operand never reaches code that does not know the protocol
    res.rule("C16.R9", "under the default policy a missing variable behaves as nil in every filter: a registered filter hands its left operand, as it arrived, only to liquid2's own coercions (which implement the undefined protocol) or to Python's generic conversions - never to a stdlib/third-party function that dispatches on the argument's type (json.dumps, base64, re, …) unless an is_undefined() test on that operand precedes it")
    generic = {"str", "len", "iter", "isinstance", "bool", "repr", "type", "id", "hash", "list", "tuple", "reversed", "enumerate", "getitem", "is_undefined", "hasattr", "callable", "print", "sorted", "min", "max", "sum", "any", "all", "zip", "map", "filter", "int", "float"}
    n9 = 0
    for fname, fns in sorted(prog.filter_callables().items()):
        for f in fns:
            params = [p for p in f.params() if p != "self"]
            if not params:
                continue
            left = params[0]
            tested = any(isinstance(c, ast.Call) and isinstance(c.func, ast.Name) and c.func.id == "is_undefined" and c.args and norm(c.args[0]) == left for c in ast.walk(f.node))
            rebound = any(isinstance(a, ast.Assign) and any(isinstance(t, ast.Name) and t.id == left for t in a.targets) for a in ast.walk(f.node))
            wrapped = [norm(d) for d in f.node.decorator_list if any(k in norm(d) for k in ("string_filter", "sequence_filter", "math_filter", "array_filter", "liquid_filter", "unit_filter"))]
            for c in ast.walk(f.node):
                if not (isinstance(c, ast.Call) and any(isinstance(a, ast.Name) and a.id == left for a in c.args)):
                    continue
                q = prog.resolve(f.module, dotted(c.func) or "") if dotted(c.func) else None
                callee = dotted(c.func) or norm(c.func, 40)
                if isinstance(c.func, ast.Name) and c.func.id in generic:
                    continue
                foreign = isinstance(q, str) and not q.startswith("liquid2")  # resolves to a module outside the package
                if not foreign:
                    continue
                n9 += 1
                site = f"{f.file}:{c.lineno} {f.qualname}"
                what = f"filter `{fname}`: `{left}` reaches {callee}() only after the undefined protocol had its say"
                if wrapped or tested or rebound:
                    res.ok("C16.R9", site, what, "coercing decorator" if wrapped else ("is_undefined() test on the operand" if tested else "operand re-bound through a coercion first"))
                else:
                    res.fail("C16.R9", file=f.file, line=c.lineno, qualname=f.qualname, construct=f"filter {fname}: left operand handed to {callee}() without an undefined test", message=f"filter `{fname}` passes its left operand straight to {callee}(), which knows nothing of Undefined: under the default policy `{{{{ missing | {fname} }}}}` raises a type error where `{{{{ nil | {fname} }}}}` renders - a missing variable does not behave as nil", what=what)
    res.floor("C16.R9", "left operands handed to functions outside liquid2", n9, 1)

    res.rule("C16.R10", "the undefined policy in force is the rendering Environment's: env.undefined is read from template.env, so a caching loader shared by a strict and a default-policy environment hands a cached template only to the Environment it was parsed for - unconditionally, sync and async (shared with C14.R5): otherwise the default policy raises UndefinedError for a variable that is merely absent")
    from checks.shared import check_cache_hit_environment

    check_cache_hit_environment(prog, res, "C16.R10")

    res.rule("C16.R11", "a variable that exists in the data is never reported undefined: the environment's globals are merged into the globals of every template the Environment hands out - from_string, get_template and get_template_async pass self.make_globals(globals) - so a cache hit that rebinds a template's global_data cannot wipe them (shared with C10.R2)")
    from checks.shared import check_globals_merged

    check_globals_merged(prog, res, "C16.R11")
    from checks.shared import check_env_globals_merge_shape

    check_env_globals_merge_shape(prog, res, "C16.R11")
    res.rule("C16.R12", "a missing property behaves as nil in the selecting filters: `reject` keeps exactly the items `where` drops, branch by branch (truth table over is_undefined(r) / is_truthy(r) / the equality tests) - an item whose lambda result is undefined is dropped by where, hence kept by reject, under every undefined policy")
    from checks.shared import check_reject_complements_where

    check_reject_complements_where(prog, res, "C16.R12")
    res.rule("C16.R14", "where, find, find_index and has agree on what matches: the same three predicates (lambda result defined and truthy; property == value; property not in (false, nil)) under the same branch tests, so a missing property is 'no match' for all four under every undefined policy")
    from checks.shared import check_selection_predicates_agree

    check_selection_predicates_agree(prog, res, "C16.R14")
    # ------------------------------------------------------------------ R18 resolve() is asked with a default by keyword
    res.rule("C16.R18", "a helper that asks the context for an optional name gets its default, not an undefined: every call of RenderContext.resolve passes one positional argument (the name) and the default by keyword - a second positional argument binds to whatever parameter comes second, and a lookup that was meant to fall back to nil hands a StrictUndefined to code that only tests it for truth (`decimal` with no `locale` in the data raises UndefinedError for a variable the template never mentions)")
    n18 = 0
    for fi18 in sorted(prog.all_functions(), key=lambda f: (f.file, f.node.lineno)):
        for c18 in ast.walk(fi18.node):
            if isinstance(c18, ast.Call) and isinstance(c18.func, ast.Attribute) and c18.func.attr == "resolve" and isinstance(c18.func.value, ast.Name) and "context" in c18.func.value.id.lower() and prog.enclosing_function(fi18.module, c18) is fi18:
                n18 += 1
                site = f"{fi18.file}:{c18.lineno} {fi18.qualname}"
                what = f"{fi18.qualname}: `{norm(c18, 50)}` names its default"
                if len(c18.args) > 1:
                    res.fail("C16.R18", file=fi18.file, line=c18.lineno, qualname=fi18.qualname, construct=f"{fi18.qualname}: context.resolve() with a positional second argument", message=f"{fi18.qualname} calls `{norm(c18, 60)}`: the second positional argument is bound by position, not as `default=`; if it lands on another parameter the lookup returns the environment's undefined instead of the intended fallback, and a strict render fails on a name the template never uses", what=what)
                else:
                    res.ok("C16.R18", site, what, "one positional argument")
    res.floor("C16.R18", "calls of context.resolve", n18, 8)
    # ------------------------------------------------------------------ R17 an empty mapping is a mapping
    res.rule("C16.R17", "what a tag binds after building its context is visible in it: RenderContext.__init__ defaults its mapping parameters with `x if x is not None else …`, never with `x or …` - the namespace a `render … with` / `include … for` tag fills after copying the context is still empty (falsy) when the constructor sees it, and `or {}` replaces it by a fresh dict, so the bound variable is undefined in the partial although the data has it")
    init17 = prog.cls("liquid2.context.RenderContext").methods.get("__init__")
    if init17 is None:
        raise AnalysisError("RenderContext.__init__ vanished")
    map_params = [a.arg for a in init17.node.args.args + init17.node.args.kwonlyargs if a.annotation is not None and "Mapping" in norm(a.annotation, 200)]
    n17 = 0
    for p17 in map_params:
        n17 += 1
        ors = [b for b in ast.walk(init17.node) if isinstance(b, ast.BoolOp) and isinstance(b.op, ast.Or) and isinstance(b.values[0], ast.Name) and b.values[0].id == p17]
        site = f"{init17.file}:{init17.node.lineno} RenderContext.__init__"
        what = f"RenderContext.__init__: `{p17}` is kept when it is an empty mapping"
        if ors:
            res.fail("C16.R17", file=init17.file, line=ors[0].lineno, qualname="RenderContext.__init__", construct=f"RenderContext.__init__: `{norm(ors[0], 40)}` replaces an empty mapping", message=f"RenderContext.__init__ defaults `{p17}` with `{norm(ors[0], 40)}`: an empty mapping is falsy, so the namespace that `{{% render 'p' with x as item %}}` binds into *after* building the context is swapped for a fresh dict - `item` is undefined in the partial, and a strict render raises UndefinedError for a variable the data has", what=what)
        else:
            res.ok("C16.R17", site, what, "`is not None` (or no default)")
    res.floor("C16.R17", "mapping parameters of RenderContext.__init__", n17, 2)
    # ------------------------------------------------------------------ R15 nil is a value, not an absence
    res.rule("C16.R15", "a tag tells 'not written' from 'written, and nil' by its own field, never by the value: a local bound as `v = self.F.evaluate(context) if self.F else None` is not tested for None / truth to decide whether the tag binds it - `{% include 'card' with product.image %}` with image = nil binds `card` to nil; testing the value leaves `card` unbound, and the partial's read of it raises UndefinedError under the strict policies although nothing is missing from the data")
    n15 = 0
    nb15 = prog.cls("liquid2.ast.Node")
    for fi15 in sorted(prog.all_functions(), key=lambda f: (f.file, f.node.lineno)):
        if fi15.cls is None or not prog.is_subclass(fi15.cls, nb15) or fi15.name not in ("render_to_output", "render_to_output_async"):
            continue
        optional: dict[str, str] = {}
        for a in ast.walk(fi15.node):
            if isinstance(a, ast.Assign) and len(a.targets) == 1 and isinstance(a.targets[0], ast.Name) and isinstance(a.value, ast.IfExp) and isinstance(a.value.orelse, ast.Constant) and a.value.orelse.value is None and isinstance(a.value.test, ast.Attribute) and isinstance(a.value.test.value, ast.Name) and a.value.test.value.id == "self" and "evaluate" in norm(a.value.body, 200):
                optional[a.targets[0].id] = norm(a.value.test)
        for v15, field15 in optional.items():
            n15 += 1
            bad15 = None
            for t in ast.walk(fi15.node):
                test = t.test if isinstance(t, (ast.If, ast.IfExp, ast.While)) else None
                if test is None or (isinstance(t, ast.IfExp) and any(isinstance(p_, ast.Assign) and isinstance(p_.targets[0], ast.Name) and p_.targets[0].id == v15 for p_ in [fi15.module.parent(t)])):
                    continue
                for x in ast.walk(test):
                    if isinstance(x, ast.Compare) and isinstance(x.left, ast.Name) and x.left.id == v15 and isinstance(x.ops[0], (ast.Is, ast.IsNot)) and isinstance(x.comparators[0], ast.Constant) and x.comparators[0].value is None:
                        bad15 = (t, norm(x))
                leaves = test.values if isinstance(test, ast.BoolOp) else [test]
                for lf in leaves:
                    lf = lf.operand if isinstance(lf, ast.UnaryOp) and isinstance(lf.op, ast.Not) else lf
                    if isinstance(lf, ast.Name) and lf.id == v15:
                        bad15 = (t, norm(test, 40))
            site = f"{fi15.file}:{fi15.node.lineno} {fi15.qualname}"
            what = f"{fi15.qualname}: whether `{v15}` is bound depends on {field15}, not on its value"
            if bad15:
                res.fail("C16.R15", file=fi15.file, line=bad15[0].lineno, qualname=fi15.qualname, construct=f"{fi15.qualname}: `{bad15[1]}` decides what {field15} should", message=f"{fi15.qualname} tests `{bad15[1]}` where `{v15}` is `None` both when the tag has no {field15} and when the expression evaluates to nil: a bound value of nil is not bound, the partial sees an undefined name, and a strict render fails although the data has the property", what=what)
            else:
                res.ok("C16.R15", site, what, "only the field is tested")
    res.floor("C16.R15", "optionally evaluated locals in render methods", n15, 2)
    # ------------------------------------------------------------------ R16 no hash-based identity for data elements
    res.rule("C16.R16", "filters tell elements apart by equality, never by hash: no set / frozenset / dict.fromkeys in liquid2/builtin/filters - all undefined values are equal (and equal to nil) while Undefined hashes by path and the falsy-strict class is unhashable, so a hash-based `uniq` separates what `==` merges, and does so differently under each undefined policy (zero expected; positive example kept)")
    pos16 = ast.parse("seen = set()\nseen.add(x)")
    def _hashy(nd: ast.AST) -> bool:
        return isinstance(nd, (ast.Set, ast.SetComp)) or (isinstance(nd, ast.Call) and ((isinstance(nd.func, ast.Name) and nd.func.id in ("set", "frozenset")) or (dotted(nd.func) or "") in ("dict.fromkeys", "collections.Counter", "Counter")))
    if not any(_hashy(x) for x in ast.walk(pos16)):
        raise AnalysisError("C16.R16: positive example not matched")
    n16 = 0
    for mod16 in sorted(prog.modules.values(), key=lambda m: m.relpath):
        if not mod16.relpath.startswith("liquid2/builtin/filters/"):
            continue
        for fi16 in mod16.functions.values():
            n16 += 1
            for x in ast.walk(fi16.node):
                if _hashy(x) and prog.enclosing_function(mod16, x) is fi16:
                    res.fail("C16.R16", file=mod16.relpath, line=x.lineno, qualname=fi16.qualname, construct=f"{fi16.qualname}: hash-based collection `{norm(x, 30)}`", message=f"{fi16.qualname} builds `{norm(x, 40)}`: membership in it goes by hash first - two undefined values of different names are equal but hash apart, a falsy-strict undefined cannot be hashed at all - so the result differs between the default policy (kept apart) and falsy-strict (merged by the fallback), where `==` alone gave one answer", what=f"{fi16.qualname}: no hash-based collection of data")
    res.ok("C16.R16", "liquid2/builtin/filters/*", "no filter puts data into a set / frozenset / dict.fromkeys", f"{n16} functions; positive example matched")
    res.floor("C16.R16", "filter functions scanned", n16, 100)
    # ------------------------------------------------------------------ R13 an undefined element is a nil element
    res.rule("C16.R13", "a missing value behaves as nil where filters drop or select nil elements: a comprehension condition in liquid2/builtin/filters that compares an *element* of the input (the comprehension's own target, or a lambda result) with None also tests is_undefined() of it - `map: i => i.t` hands on an Undefined for every item without `t`, and `compact` must drop it as it drops nil")
    n13 = 0
    for mod13 in sorted(prog.modules.values(), key=lambda m: m.relpath):
        if not mod13.relpath.startswith("liquid2/builtin/filters/"):
            continue
        for comp in ast.walk(mod13.tree):
            if not isinstance(comp, (ast.ListComp, ast.GeneratorExp, ast.SetComp)):
                continue
            for g in comp.generators:
                targets = {x.id for x in ast.walk(g.target) if isinstance(x, ast.Name)}
                for cond in g.ifs:
                    nil_tests = [c for c in ast.walk(cond) if isinstance(c, ast.Compare) and len(c.ops) == 1 and isinstance(c.ops[0], (ast.Is, ast.IsNot)) and isinstance(c.left, ast.Name) and c.left.id in targets and isinstance(c.comparators[0], ast.Constant) and c.comparators[0].value is None]
                    for c in nil_tests:
                        n13 += 1
                        fi13 = prog.enclosing_function(mod13, comp)
                        q13 = fi13.qualname if fi13 else "<module>"
                        paired = any(isinstance(u, ast.Call) and isinstance(u.func, ast.Name) and u.func.id == "is_undefined" and u.args and isinstance(u.args[0], ast.Name) and u.args[0].id == c.left.id for cc in g.ifs for u in ast.walk(cc))
                        what = f"{q13}: the nil test on element `{c.left.id}` also covers undefined and map's null placeholder"
                        # map stands in a `_Null` object (== nil, but not None) for a missing property: an identity test alone keeps it
                        placeholder = any(isinstance(u, ast.Call) and isinstance(u.func, ast.Name) and u.func.id == "isinstance" and len(u.args) == 2 and isinstance(u.args[0], ast.Name) and u.args[0].id == c.left.id and "_Null" in norm(u.args[1]) for cc in g.ifs for u in ast.walk(cc))
                        is_lambda_result = isinstance(g.iter, ast.Call) and (dotted(g.iter.func) or "").endswith("zip")  # results of key.map(): Undefined for a missing property, never the placeholder
                        if paired and not placeholder and not is_lambda_result:
                            res.fail("C16.R13", file=mod13.relpath, line=c.lineno, qualname=q13, construct=f"{q13}: element `{c.left.id}` compared with None by identity, the map placeholder not recognised", message=f"{q13} keeps or drops elements by `{norm(cond, 60)}`: `map` stands in a _Null object for every item without the mapped property - equal to nil but not None - so `{{{{ items | map: 't' | compact | size }}}}` counts the items whose `t` is missing although it drops those whose `t` is nil", what=what)
                            continue
                        if paired:
                            res.ok("C16.R13", f"{mod13.relpath}:{c.lineno} {q13}", what, f"`{norm(cond, 60)}`")
                        else:
                            res.fail("C16.R13", file=mod13.relpath, line=c.lineno, qualname=q13, construct=f"{q13}: element `{c.left.id}` compared with None but not with undefined", message=f"{q13} keeps or drops elements by `{norm(cond, 50)}`: an Undefined element (what `map: i => i.t` yields for an item without `t`) is not None, so a missing value is kept where nil is dropped - `{{{{ items | map: i => i.t | compact | size }}}}` counts the items whose `t` is missing", what=what)
    res.floor("C16.R13", "nil tests on elements in filter comprehensions", n13, 3)
