"""C17 - tokens tile the source; reported positions lie inside it (lexer typestate)."""

from __future__ import annotations

import ast

from sa.cfg import CFG
from sa.util import guarded_by_test
from sa.cfg import forward
from sa.report import AnalysisError
from sa.report import Result
from sa.report import norm
from sa.srcmodel import ClassInfo
from sa.srcmodel import FunctionInfo
from sa.srcmodel import Program
from sa.srcmodel import dotted
from sa.typestate import Typestate

META = {
    "technique": "lexer emit/resync typestate over a statement CFG with method summaries; token-constructor argument audit; "
    "error-index bounds lint; scan-pointer progress analysis with regex minimum widths (termination of the lexer loops)",
    "level_text": "Decides, for every path through every lexer state function, that the scan pointers are "
    "re-synchronised (start == pos) at each hand-over between state functions and at each iteration of the "
    "markup loop, that every top-level token is built from (start|markup_start, pos), and that every error "
    "index is clamped or taken from an existing token. These are necessary conditions of tiling: one unsynced "
    "path is one input whose next token starts at the wrong offset. Not the behavioural universal.",
    "level_note": "Trusts CPython ast and the typestate transfer table printed in the evidence (which Lexer "
    "methods resynchronise is *computed* from their bodies, not assumed). Expression-token nesting and text "
    "equality of spans are not decided.",
}
META["technique"] += '; emission-to-resync no-advance typestate; who-may-build-tokens audit with position-argument provenance'
META["technique"] += '; polarity-aware path facts for the position guards; sentinel handling of the line searches; source hand-through in BaseLoader.load; unless/if parse comparator'
META["technique"] += "; template-name provenance of errors raised from stored tokens (value objects that travel between templates)"
META["technique"] += '; unconditional computed position properties in token.py'
META["technique"] += '; message-subject vs token= agreement of raised errors'
META["level_text"] += " Also decided (R1c, R4): the scan pointer does not move between a token's emission and the resync (no gap), and no token is built outside the lexer with a position of its own (only the position-less end-of-input token)."

S, U, T = "synced", "unsynced", "unknown"


def _join(a: str, b: str) -> str:
    return a if a == b else T


def _is_self_attr(e: ast.AST | None, attr: str) -> bool:
    return isinstance(e, ast.Attribute) and e.attr == attr and isinstance(e.value, ast.Name) and e.value.id == "self"


class LexerModel:
    def __init__(self, prog: Program, lexer: ClassInfo) -> None:
        self.prog = prog
        self.lexer = lexer
        self.methods: dict[str, FunctionInfo] = dict(lexer.methods)
        for name, v in lexer.class_attrs.items():  # aliases such as  skip = ignore
            if isinstance(v, ast.Name) and v.id in lexer.methods:
                self.methods[name] = lexer.methods[v.id]
        self.noreturn = {
            n for n, f in self.methods.items() if f.node.returns is not None and norm(f.node.returns) in ("Never", "NoReturn", "typing.NoReturn")
        }
        self._summ: dict[tuple[str, str], dict[str, str]] = {}
        self._active: set[tuple[str, str]] = set()
        self.cfgs: dict[str, CFG] = {}
        self.ts = Typestate(join=_join, stmt_effect=self.stmt_effect, call_effect=self.call_effect, test_refine=self.test_refine)

    def cfg(self, name: str) -> CFG:
        if name not in self.cfgs:
            self.cfgs[name] = CFG(self.methods[name].node, noreturn=self._is_noreturn_call)
        return self.cfgs[name]

    def _is_noreturn_call(self, c: ast.Call) -> bool:
        return isinstance(c.func, ast.Attribute) and isinstance(c.func.value, ast.Name) and c.func.value.id == "self" and c.func.attr in self.noreturn

    # ---- transfer table -------------------------------------------------
    def stmt_effect(self, s: ast.AST, st: str) -> str:
        if isinstance(s, ast.Assign):
            for t in s.targets:
                if _is_self_attr(t, "start"):
                    return S if _is_self_attr(s.value, "pos") else U
                if _is_self_attr(t, "pos"):
                    return S if _is_self_attr(s.value, "start") else U
        if isinstance(s, ast.AugAssign) and (_is_self_attr(s.target, "pos") or _is_self_attr(s.target, "start")):
            return U
        return st

    def call_effect(self, c: ast.Call, st: str, branch: bool | None) -> str | None:
        f = c.func
        if not (isinstance(f, ast.Attribute) and isinstance(f.value, ast.Name) and f.value.id == "self"):
            return None
        if f.attr not in self.methods:
            return None
        summ = self.summary(f.attr, st)
        if branch is True and "true" in summ:
            return summ["true"]
        if branch is False and "false" in summ:
            return summ["false"]
        return summ["any"]

    def test_refine(self, t: ast.AST, st: str, branch: bool) -> str:
        if isinstance(t, ast.Compare) and len(t.ops) == 1:
            a, b = t.left, t.comparators[0]
            pair = (_is_self_attr(a, "pos") and _is_self_attr(b, "start")) or (_is_self_attr(a, "start") and _is_self_attr(b, "pos"))
            if pair:
                if isinstance(t.ops[0], ast.Eq):
                    return S if branch else U
                if isinstance(t.ops[0], ast.NotEq):
                    return U if branch else S
        return st

    # ---- summaries --------------------------------------------------------
    def summary(self, name: str, entry: str) -> dict[str, str]:
        key = (name, entry)
        if key in self._summ:
            return self._summ[key]
        if key in self._active:
            return {"any": T}
        self._active.add(key)
        try:
            cfg = self.cfg(name)
            IN = self.ts.solve(cfg, entry)
            outs: dict[str, str] = {}

            def add(k: str, v: str) -> None:
                outs[k] = v if k not in outs else _join(outs[k], v)

            for src, label in cfg.exit.pred:
                if src.id not in IN:
                    continue
                out = self.ts.transfer(src, IN[src.id], label)
                add("any", out)
                rv = src.node.value if isinstance(src.node, ast.Return) else None
                if isinstance(rv, ast.Constant) and rv.value is True:
                    add("true", out)
                elif isinstance(rv, ast.Constant) and rv.value is False:
                    add("false", out)
                else:
                    add("true", out)
                    add("false", out)
            if "any" not in outs:  # never returns normally
                outs = {"any": T}
            self._summ[key] = outs
            return outs
        finally:
            self._active.discard(key)



def _nested_stop_rule(prog: Program, res: Result, lexer, rel: str) -> int:  # noqa: ANN001, PLR0915
    """Values: ("T", k) = k characters past the start of the terminator (k an int, or "w" for an unknown positive width); None = unknown."""
    from sa.cfg import forward

    TERMINATORS = ("RE_TAG_END", "RE_LINE_TERM", "RE_OUTPUT_END")
    n_dec = 0

    def is_self_call(e: ast.AST, names: tuple[str, ...] | None = None) -> str | None:
        if isinstance(e, ast.Call) and isinstance(e.func, ast.Attribute) and isinstance(e.func.value, ast.Name) and e.func.value.id == "self":
            if names is None or e.func.attr in names or any(e.func.attr.startswith(n) for n in names if n.endswith("_")):
                return e.func.attr
        return None

    def term_regex(e: ast.AST) -> bool:
        return any(isinstance(x, ast.Attribute) and x.attr in TERMINATORS for x in ast.walk(e))

    for fi in sorted(prog.all_functions(), key=lambda f: f.node.lineno):
        if fi.cls is not lexer:
            continue
        ctors = [c for c in ast.walk(fi.node) if isinstance(c, ast.Call) and (dotted(c.func) or "").endswith("Token") and any(k.arg == "stop" for k in c.keywords)]
        nested = []
        for c in ctors:
            par = fi.module.parent(c)
            if isinstance(par, ast.Call) and isinstance(par.func, ast.Attribute) and par.func.attr == "append" and norm(par.func.value) != "self.markup":
                nested.append(c)
        if not nested:
            continue
        cfg = CFG(fi.node)
        quote_vars = {a.targets[0].id for a in ast.walk(fi.node) if isinstance(a, ast.Assign) and len(a.targets) == 1 and isinstance(a.targets[0], ast.Name) and is_self_call(a.value, ("next",))}

        def ev(e: ast.AST, st: dict):  # noqa: ANN202
            if _is_self_attr(e, "pos"):
                return st.get("pos")
            if _is_self_attr(e, "start"):
                return st.get("start")
            if isinstance(e, ast.Name):
                return st.get("$" + e.id)
            if isinstance(e, ast.BinOp) and isinstance(e.op, (ast.Sub, ast.Add)) and isinstance(e.right, ast.Constant) and isinstance(e.right.value, int):
                b = ev(e.left, st)
                if b is not None and isinstance(b[1], int):
                    return ("T", b[1] - e.right.value if isinstance(e.op, ast.Sub) else b[1] + e.right.value)
                return None
            return None

        def transfer(n, st: dict, label: str) -> dict:  # noqa: ANN001
            if label == "exc" or n.node is None:
                return st
            nd = n.node
            st = dict(st)
            if n.kind == "test":
                # terminator tests
                if isinstance(nd, ast.NamedExpr) and term_regex(nd.value) and label == "true":
                    st["pos"] = ("T", 0)
                    st["start"] = ("T", 0) if st.get("sync") else None
                    st["$" + nd.target.id] = None
                    return st
                if is_self_call(nd, ("accept",)) and term_regex(nd):
                    if label == "true":
                        st["pos"] = ("T", "w")
                        st["start"] = ("T", 0) if st.get("sync") else None
                        st["sync"] = False
                    return st
                if isinstance(nd, ast.Compare) and len(nd.ops) == 1 and isinstance(nd.ops[0], ast.Eq) and isinstance(nd.left, ast.Name) and nd.left.id in quote_vars and norm(nd.comparators[0]) == "quote":
                    if label == "true":
                        st["pos"] = ("T", 1)
                        st["sync"] = False
                    return st
                neg = isinstance(nd, ast.UnaryOp) and isinstance(nd.op, ast.Not)
                inner = nd.operand if neg else nd
                if is_self_call(inner, ("accept_token", "accept", "accept_path")):
                    consumed = (label == "false") if neg else (label == "true")
                    if consumed:
                        st["pos"], st["sync"] = None, False
                    return st
                if any(is_self_call(x, ("next", "accept_", "accept", "lex_")) for x in ast.walk(nd)):
                    st["pos"], st["sync"] = None, False
                return st
            if n.kind != "stmt" or n.note in ("def", "unhandled"):
                return st
            for x in ast.walk(nd) if not isinstance(nd, (ast.If, ast.While, ast.For, ast.Try, ast.With, ast.Match)) else []:
                nm = is_self_call(x)
                if nm is None:
                    continue
                if nm == "ignore" or nm.startswith("ignore_"):
                    if nm != "ignore":
                        # whitespace helpers move pos then sync; relative to a terminator already passed the offset stays "after"
                        if st.get("pos") is not None and st["pos"][1] != 0:
                            st["pos"] = ("T", "w")
                        elif st.get("pos") is not None:
                            st["pos"] = None
                    st["start"] = st.get("pos")
                    st["sync"] = True
                elif nm in ("next", "accept", "accept_token", "accept_path", "accept_string", "accept_template_string", "accept_range", "backup") or nm.startswith("lex_"):
                    st["pos"], st["sync"] = None, False
            if isinstance(nd, ast.AugAssign) and _is_self_attr(nd.target, "pos"):
                cur = st.get("pos")
                st["pos"] = ("T", "w") if cur is not None else None
                st["sync"] = False
            elif isinstance(nd, ast.Assign) and len(nd.targets) == 1:
                t = nd.targets[0]
                if _is_self_attr(t, "start"):
                    st["start"] = ev(nd.value, st)
                    st["sync"] = _is_self_attr(nd.value, "pos")
                elif _is_self_attr(t, "pos"):
                    st["pos"], st["sync"] = ev(nd.value, st), False
                elif isinstance(t, ast.Name):
                    st["$" + t.id] = ev(nd.value, st)
            return st

        def join(a: dict, b: dict) -> dict:
            return {k: a[k] for k in a if k in b and a[k] == b[k]}

        IN = forward(cfg, {"sync": False}, transfer, join)
        for c in nested:
            node = next((n for n in cfg.nodes if n.node is not None and n.kind in ("stmt", "test") and n.id in IN and not isinstance(n.node, (ast.If, ast.While, ast.For, ast.Try, ast.With)) and any(x is c for x in ast.walk(n.node))), None)
            if node is None:
                continue
            stop = next(k.value for k in c.keywords if k.arg == "stop")
            val = ev(stop, IN[node.id])
            site = f"{rel}:{c.lineno} {fi.qualname}"
            what = f"{fi.qualname}: {norm(c.func)}(stop={norm(stop)}) ends where its terminator begins"
            if val is None:
                continue  # no terminator consumed on the way here (the end is decided by another rule or not at all)
            n_dec += 1
            if val == ("T", 0):
                res.ok("C17.R10", site, what, "stop evaluates to the terminator's offset")
            else:
                res.fail("C17.R10", file=rel, line=c.lineno, qualname=fi.qualname, construct=f"{fi.qualname}: {norm(c.func)} stop={norm(stop)} lies past the terminator", message=f"{fi.qualname} builds a nested {norm(c.func)} whose stop (`{norm(stop)}`) is taken after the scanner consumed the delimiter that ends it: the token's span includes the closing delimiter, so it is not the text the token was scanned from", what=what)
    return n_dec


def _error_naming_rule(prog: Program, res: Result) -> int:  # noqa: PLR0912, PLR0915
    n = 0
    EXT = "liquid2/builtin/tags/extends_tag.py"

    def root(e: ast.AST | None) -> str | None:
        while isinstance(e, (ast.Attribute, ast.Subscript, ast.Call)):
            e = e.func if isinstance(e, ast.Call) else e.value
        return e.id if isinstance(e, ast.Name) else None

    # (a) foreign block renders
    for fi in sorted(prog.all_functions(), key=lambda f: (f.file, f.node.lineno)):
        if not fi.file.startswith(("liquid2/builtin/tags/", "liquid2/shopify/tags/")):
            continue
        for c in ast.walk(fi.node):
            if not (isinstance(c, ast.Call) and isinstance(c.func, ast.Attribute) and c.func.attr in ("render", "render_async")):
                continue
            recv = c.func.value
            r = root(recv)
            txt = norm(recv)
            if r in (None, "self", "template") and not txt.startswith("self.parent."):
                continue  # the node's own block (parsed from the template that is being rendered), or a whole template
            if r not in (None, "self"):
                # a local that ranges over / is taken from the node's own fields is the node's own block as well
                defs = [a.value for a in ast.walk(fi.node) if isinstance(a, ast.Assign) and any(isinstance(t, ast.Name) and t.id == r for t in a.targets)]
                defs += [a.iter for a in ast.walk(fi.node) if isinstance(a, (ast.For, ast.AsyncFor, ast.comprehension)) and any(isinstance(t, ast.Name) and t.id == r for t in ast.walk(a.target))]
                if defs and all(root(d) == "self" and "context" not in norm(d) for d in defs):
                    continue
            if ".block" not in txt and not txt.endswith("block"):
                continue
            holder = txt.split(".block")[0]
            n += 1
            site = f"{fi.file}:{c.lineno} {fi.qualname}"
            what = f"{fi.qualname}: errors escaping `{norm(c.func, 60)}` are named after `{holder}`"
            named = False
            for a in fi.module.ancestors(c):
                if isinstance(a, ast.Try) and any(any(x is c for x in ast.walk(b)) for b in a.body):
                    for h in a.handlers:
                        catches = norm(h.type) if h.type is not None else ""
                        if "LiquidError" not in catches and catches not in ("Exception", "BaseException", ""):
                            continue
                        for st in ast.walk(h):
                            if isinstance(st, ast.Assign) and any(isinstance(t, ast.Attribute) and t.attr == "template_name" and isinstance(t.value, ast.Name) and t.value.id == h.name for t in st.targets) and norm(st.value).startswith(holder + "."):
                                named = True
                if a is fi.node:
                    break
            if named:
                res.ok("C17.R11", site, what, "handler sets err.template_name from the item the block came from")
            else:
                res.fail("C17.R11", file=fi.file, line=c.lineno, qualname=fi.qualname, construct=f"{fi.qualname}: block of `{holder}` rendered without naming escaping errors", message=f"{fi.qualname} renders a block that was parsed from another template (`{norm(c.func, 60)}`) with no handler that names escaping errors after `{holder}`: the first Template.render_with_context they pass through names them after the template that is rendering, so the line and column of the error are shown against the wrong source", what=what)
    # (b) inheritance errors: token and name from the same origin
    ext = prog.mod(EXT)
    for fi in sorted(ext.functions.values(), key=lambda f: f.node.lineno):
        origin: dict[str, str] = {}
        for a in ast.walk(fi.node):
            if isinstance(a, ast.Assign) and len(a.targets) == 1:
                t = a.targets[0]
                names = [x.id for x in ast.walk(t) if isinstance(x, ast.Name)]
                rr = root(a.value) if not isinstance(a.value, ast.Call) else None
                src = {x.id for x in ast.walk(a.value) if isinstance(x, ast.Name)}
                for nm in names:
                    if "template" in src:
                        origin[nm] = "template"
                    elif rr is not None:
                        origin[nm] = origin.get(rr, rr)
            if isinstance(a, (ast.For, ast.comprehension)):
                rr = root(a.iter)
                for x in ast.walk(a.target):
                    if isinstance(x, ast.Name) and rr is not None:
                        origin[x.id] = origin.get(rr, rr)
        for r_ in ast.walk(fi.node):
            if not (isinstance(r_, ast.Raise) and isinstance(r_.exc, ast.Call)):
                continue
            kw = {k.arg: k.value for k in r_.exc.keywords if k.arg}
            tok = kw.get("token")
            if tok is None or (isinstance(tok, ast.Constant) and tok.value is None):
                continue
            tr = root(tok)
            if tr == "self":
                nm0 = kw.get("template_name")
                if nm0 is not None and root(nm0) not in (None, "self", "context"):
                    n += 1
                    res.fail("C17.R11", file=fi.file, line=r_.lineno, qualname=fi.qualname, construct=f"{fi.qualname}: {norm(r_.exc.func)} with the node's own token and template_name from `{root(nm0)}`", message=f"{fi.qualname} raises {norm(r_.exc.func)} with its own token (`{norm(tok, 40)}`, a position in the template this node was parsed from) but names another template (`{norm(nm0, 40)}`): line and column are shown against the wrong source", what=f"{fi.qualname}: token and template_name of {norm(r_.exc.func)} belong together")
                continue  # the node's own token: named by the template that renders the node
            handles_foreign = "template" in fi.params() or (fi.parent_fn is not None and "template" in fi.parent_fn.params()) or origin.get(tr or "", tr) in ("stack_item", "block_stack", "template")
            if not handles_foreign:
                continue  # parse-time errors: the stream being parsed is the template that Environment.from_string names
            n += 1
            site = f"{fi.file}:{r_.lineno} {fi.qualname}"
            what = f"{fi.qualname}: `{norm(r_.exc.func)}` raised with token={norm(tok, 40)} names the template that token is from"
            nm = kw.get("template_name")
            t_origin = origin.get(tr or "", tr)
            n_origin = origin.get(root(nm) or "", root(nm)) if nm is not None else None
            if nm is not None and (n_origin == t_origin or (t_origin in ("template",) and n_origin == "template")):
                res.ok("C17.R11", site, what, f"token and template_name both derive from `{t_origin}`")
            else:
                res.fail("C17.R11", file=fi.file, line=r_.lineno, qualname=fi.qualname, construct=f"{fi.qualname}: {norm(r_.exc.func)} with a token of `{t_origin}` and template_name from `{n_origin}`", message=f"{fi.qualname} raises {norm(r_.exc.func)} with token `{norm(tok, 40)}` (from `{t_origin}`) but " + ("no template_name" if nm is None else f"template_name `{norm(nm, 40)}` (from `{n_origin}`)") + ": the error is shown against the source of another template than the one its position refers to", what=what)
    # (c) interrupts converted into syntax errors
    for fi in sorted(prog.all_functions(), key=lambda f: (f.file, f.node.lineno)):
        for h in ast.walk(fi.node):
            if not (isinstance(h, ast.ExceptHandler) and h.type is not None and "LiquidInterrupt" in norm(h.type) and h.name):
                continue
            for r_ in ast.walk(h):
                if not (isinstance(r_, ast.Raise) and isinstance(r_.exc, ast.Call)):
                    continue
                if fi.cls is not None and fi.cls.name == "CallNode":
                    continue  # a macro body is not part of the caller's loop: reported at the call, deliberately
                kw = {k.arg: k.value for k in r_.exc.keywords if k.arg}
                n += 1
                site = f"{fi.file}:{r_.lineno} {fi.qualname}"
                what = f"{fi.qualname}: an interrupt converted into {norm(r_.exc.func)} keeps the interrupting tag's position"
                tok_ok = kw.get("token") is not None and f"{h.name}.token" in norm(kw["token"])
                name_ok = kw.get("template_name") is not None and f"{h.name}.template_name" in norm(kw["template_name"])
                if tok_ok and name_ok:
                    res.ok("C17.R11", site, what, "token and template_name taken from the interrupt first")
                else:
                    res.fail("C17.R11", file=fi.file, line=r_.lineno, qualname=fi.qualname, construct=f"{fi.qualname}: interrupt converted without its own position", message=f"{fi.qualname} turns a loop interrupt into {norm(r_.exc.func)} positioned at the enclosing node instead of the `break`/`continue` tag that raised it (token: {'ok' if tok_ok else 'not from the interrupt'}, template_name: {'ok' if name_ok else 'not from the interrupt'})", what=what)
    return n

def run(prog: Program, res: Result) -> None:
    res.explanation = (
        "Typestate synced <=> self.start == self.pos is propagated through the CFG of every Lexer state function "
        "(methods annotated `-> StateFn | None`), with callee effects summarised from the callee bodies. Obligations: "
        "synced at every `return self.<state fn>`, at every back edge of a loop that builds a token from self.start, "
        "never definitely-unsynced at a call whose body raises when pos != start; top-level token constructors take "
        "start in {self.start, self.markup_start} and stop = self.pos; markup_start is copied from an untouched "
        "self.start; ErrorToken indexes are token positions or clamped to len(source) - 1."
    )
    res.not_decided += [
        "expression tokens nest in order inside their markup token",
        "token text equals source[start:stop] (value-level)",
        "positions carried by AST nodes are the token positions (nodes store the token itself)",
    ]
    res.trusted_base += ["CPython ast", "sa.cfg statement CFG", "typestate transfer: assignments to self.start/self.pos and computed method summaries"]

    lexer = prog.cls("liquid2.lexer.Lexer")
    mod = lexer.module
    lm = LexerModel(prog, lexer)
    rel = mod.relpath

    state_fns = [n for n, f in lexer.methods.items() if f.node.returns is not None and "StateFn" in norm(f.node.returns)]
    res.floor("C17.R1", "lexer state functions", len(state_fns), 5)
    res.stats["noreturn_methods"] = sorted(lm.noreturn)

    # ---------------------------------------------------------------- R0: initial state
    res.rule("C17.R0", "Lexer.__init__ starts the scan at start = pos = 0 (first token begins at offset 0)")
    init = lexer.methods.get("__init__")
    if init is None:
        raise AnalysisError("Lexer.__init__ vanished")
    vals: dict[str, ast.expr] = {}
    for n in ast.walk(init.node):
        if isinstance(n, ast.Assign) and len(n.targets) == 1:
            for a in ("start", "pos"):
                if _is_self_attr(n.targets[0], a):
                    vals[a] = n.value
    for a in ("start", "pos"):
        v = vals.get(a)
        if isinstance(v, ast.Constant) and v.value == 0:
            res.ok("C17.R0", f"{rel}:{v.lineno} Lexer.__init__", f"self.{a} = 0", "constant 0")
        else:
            res.fail("C17.R0", file=rel, line=init.node.lineno, qualname="Lexer.__init__", construct=f"self.{a} = {norm(v) if v else '<missing>'}", message=f"scan pointer {a} does not start at 0")

    # ---------------------------------------------------------------- R1: typestate
    res.rule(
        "C17.R1",
        "emit/resync typestate: synced at every `return <state fn>` and at every back edge of a token-emitting loop; "
        "never definitely unsynced at a call that requires sync",
    )
    # methods that require sync on entry: body tests `self.pos != self.start` and raises
    requires_sync: set[str] = set()
    for name, f in lm.methods.items():
        for n in ast.walk(f.node):
            if isinstance(n, ast.If) and isinstance(n.test, ast.Compare) and any(isinstance(x, ast.Raise) for b in n.body for x in ast.walk(b)):
                t = n.test
                if len(t.ops) == 1 and isinstance(t.ops[0], ast.NotEq):
                    a, b = t.left, t.comparators[0]
                    if (_is_self_attr(a, "pos") and _is_self_attr(b, "start")) or (_is_self_attr(a, "start") and _is_self_attr(b, "pos")):
                        requires_sync.add(name)
    res.stats["requires_sync_methods"] = sorted(requires_sync)
    resync = sorted(n for n in lm.methods if n not in state_fns and all(lm.summary(n, e).get("any") == S for e in (S, U, T)))
    res.stats["computed_resync_methods"] = resync
    res.floor("C17.R1", "methods computed to resynchronise", len(resync), 3)

    n_ret = 0
    for name in sorted(state_fns):
        f = lexer.methods[name]
        res.analysed_functions.add(f.fid)
        cfg = lm.cfg(name)
        IN = lm.ts.solve(cfg, S)
        # (a) return <state fn>
        for node in cfg.nodes:
            if node.kind != "stmt" or not isinstance(node.node, ast.Return) or node.id not in IN:
                continue
            rv = node.node.value
            targets: list[str] = []
            for sub in ast.walk(rv) if rv is not None else []:
                if _is_self_attr(sub, sub.attr if isinstance(sub, ast.Attribute) else "") and isinstance(sub, ast.Attribute) and sub.attr in state_fns:
                    targets.append(sub.attr)
            if not targets:
                if rv is None or (isinstance(rv, ast.Constant) and rv.value is None) or cfg._is_noreturn_stmt(node.node):
                    continue
                targets = [norm(rv)]  # alias / computed state function: still a hand-over
            n_ret += 1
            st = IN[node.id]
            what = f"synced at `{norm(node.node)}`"
            if st == S:
                res.ok("C17.R1", f"{rel}:{node.line} Lexer.{name}", what, "start == pos on every path to this hand-over")
            else:
                res.fail(
                    "C17.R1",
                    file=rel,
                    line=node.line,
                    qualname=f"Lexer.{name}",
                    construct=f"{norm(node.node)} [{st}]",
                    message=f"state function hands over to {targets} with self.start possibly != self.pos ({st}): "
                    "the next token will start at a stale offset (tokens overlap / do not tile)",
                    what=what,
                )
        # (b) back edges of loops that build a token from self.start
        for loop in [n for n in ast.walk(f.node) if isinstance(n, (ast.While, ast.For))]:
            emits = False
            for c in ast.walk(loop):
                if isinstance(c, ast.Call) and any(k.arg == "start" and _is_self_attr(k.value, "start") for k in c.keywords):
                    emits = True
            if not emits:
                continue
            head = next((n for n in cfg.nodes if n.kind in ("test", "for") and (n.node is loop.test if isinstance(loop, ast.While) else n.node is loop)), None)
            if head is None:
                raise AnalysisError(f"loop head not found in {name}")
            for src, label in head.pred:
                if src.id not in IN:
                    continue
                is_back = src.line >= head.line and src.kind != "entry" and any(a is loop for a in mod.ancestors(src.node)) if src.node is not None else False
                if not is_back:
                    continue
                out = lm.ts.transfer(src, IN[src.id], label)
                what = f"synced at loop back edge from `{norm(src.node, 70)}`"
                if out == S:
                    res.ok("C17.R1", f"{rel}:{src.line} Lexer.{name}", what, "start == pos when the next markup match begins")
                else:
                    # name the arm: nearest enclosing `if kind == "X"`
                    arm = ""
                    for a in mod.ancestors(src.node):
                        if isinstance(a, ast.If):
                            arm = norm(a.test, 60)
                            break
                    res.fail(
                        "C17.R1",
                        file=rel,
                        line=src.line,
                        qualname=f"Lexer.{name}",
                        construct=f"back edge in arm `{arm}` via `{norm(src.node, 60)}` [{out}]",
                        message=f"loop iteration ends with self.start possibly != self.pos ({out}) in arm `{arm}`: "
                        "the token emitted by the next iteration starts at a stale offset",
                        what=what,
                    )
        # (c) definitely-unsynced call of a sync-requiring method
        for node in cfg.nodes:
            if node.node is None or node.id not in IN or node.kind not in ("stmt", "test"):
                continue
            for c in ast.walk(node.node):
                if isinstance(c, ast.Call) and isinstance(c.func, ast.Attribute) and _is_self_attr(c.func, c.func.attr) and c.func.attr in requires_sync:
                    # state just before this call: only exact when the call is the first effect of the statement
                    first = next((x for x in ast.walk(node.node) if isinstance(x, ast.Call) and isinstance(x.func, ast.Attribute) and _is_self_attr(x.func, x.func.attr) and x.func.attr in lm.methods), None)
                    if first is not c:
                        continue
                    st = IN[node.id]
                    what = f"not unsynced at `{norm(c)}`"
                    if st == U:
                        res.fail(
                            "C17.R1",
                            file=rel,
                            line=node.line,
                            qualname=f"Lexer.{name}",
                            construct=f"{norm(c)} [unsynced]",
                            message=f"{c.func.attr}() requires start == pos but is reached definitely unsynced (raises a bare Exception)",
                            what=what,
                        )
                    else:
                        res.ok("C17.R1", f"{rel}:{node.line} Lexer.{name}", what, f"state {st}")
    res.floor("C17.R1", "state-function hand-overs", n_ret, 10)

    # ---------------------------------------------------------------- R1c: nothing is scanned between a token's end and the resync
    res.rule("C17.R1c", "after a top-level token is appended with stop=self.pos, self.pos does not move again before self.start is re-synchronised: the next token starts exactly where this one stops (no gap)")
    advancing: set[str] = set()
    changed = True
    while changed:
        changed = False
        for mname, mf in lm.methods.items():
            if mname in advancing:
                continue
            for x in ast.walk(mf.node):
                direct = isinstance(x, (ast.AugAssign, ast.Assign)) and any(_is_self_attr(t, "pos") for t in ([x.target] if isinstance(x, ast.AugAssign) else x.targets))
                via = isinstance(x, ast.Call) and isinstance(x.func, ast.Attribute) and _is_self_attr(x.func, x.func.attr) and x.func.attr in advancing
                if direct or via:
                    advancing.add(mname)
                    changed = True
                    break
    res.stats["pos_advancing_methods"] = sorted(advancing)
    n_emit = 0
    for name in sorted(state_fns):
        f = lexer.methods[name]
        cfg = lm.cfg(name)

        def _emits(nd: ast.AST) -> bool:
            return any(isinstance(c, ast.Call) and isinstance(c.func, ast.Attribute) and c.func.attr == "append" and _is_self_attr(c.func.value, "markup") for c in ast.walk(nd))

        def _syncs(nd: ast.AST) -> bool:
            if isinstance(nd, ast.Assign) and any(_is_self_attr(t, "start") for t in nd.targets) and _is_self_attr(nd.value, "pos"):
                return True
            return any(isinstance(c, ast.Call) and isinstance(c.func, ast.Attribute) and _is_self_attr(c.func, c.func.attr) and c.func.attr in resync for c in ast.walk(nd))

        def _advances(nd: ast.AST) -> str | None:
            for x in ast.walk(nd):
                if isinstance(x, (ast.AugAssign, ast.Assign)) and any(_is_self_attr(t, "pos") for t in ([x.target] if isinstance(x, ast.AugAssign) else x.targets)):
                    return norm(x, 50)
                if isinstance(x, ast.Call) and isinstance(x.func, ast.Attribute) and _is_self_attr(x.func, x.func.attr) and x.func.attr in advancing and x.func.attr not in resync:
                    return norm(x, 50)
            return None

        moved: dict[int, str] = {}

        def tr(n, st, label):  # noqa: ANN001, ANN202
            if n.node is None or n.kind not in ("stmt", "test") or label == "exc":
                return st
            cur = st
            if cur == "emitted":
                adv = _advances(n.node)
                if adv is not None and not _emits(n.node):
                    moved.setdefault(n.id, adv)  # noqa: B023
            if _emits(n.node):
                cur = "emitted"
            if _syncs(n.node):
                cur = "clean"
            return cur

        forward(cfg, "clean", tr, lambda a, b: "emitted" if "emitted" in (a, b) else "clean")
        for n in cfg.nodes:
            if n.kind == "stmt" and n.node is not None and _emits(n.node):
                n_emit += 1
        for nid, adv in sorted(moved.items()):
            n = cfg.nodes[nid]
            res.fail("C17.R1c", file=rel, line=n.line, qualname=f"Lexer.{name}", construct=f"`{adv}` after a token was appended and before the resync", message=f"Lexer.{name} advances self.pos (`{adv}`) after appending a token whose stop was taken from self.pos and before self.start is re-synchronised: the skipped characters belong to no token (gap between this token's stop and the next token's start)", what=f"Lexer.{name}: no scan between emission and resync")
        if not moved:
            res.ok("C17.R1c", f"{rel}:{f.node.lineno} Lexer.{name}", f"Lexer.{name}: no scan between a token emission and the resync", "pos is final when the token is built")
    res.floor("C17.R1c", "top-level token emissions", n_emit, 6)

    # ---------------------------------------------------------------- R1b: constructor arguments
    res.rule("C17.R1b", "every token appended to self.markup is built with start in {self.start, self.markup_start} and stop = self.pos; markup_start is copied from self.start before start moves")
    n_tok = 0
    for name in sorted(state_fns):
        f = lexer.methods[name]
        for c in ast.walk(f.node):
            if not (isinstance(c, ast.Call) and isinstance(c.func, ast.Attribute) and c.func.attr == "append" and _is_self_attr(c.func.value, "markup")):
                continue
            if not c.args or not isinstance(c.args[0], ast.Call):
                res.fail("C17.R1b", file=rel, line=c.lineno, qualname=f"Lexer.{name}", construct=c, message="self.markup.append() of something that is not a token constructor call")
                continue
            tok = c.args[0]
            n_tok += 1
            kw = {k.arg: k.value for k in tok.keywords if k.arg}
            tname = dotted(tok.func) or "?"
            ok_start = "start" in kw and (_is_self_attr(kw["start"], "start") or _is_self_attr(kw["start"], "markup_start"))
            ok_stop = "stop" in kw and _is_self_attr(kw["stop"], "pos")
            what = f"{tname}(start=…, stop=…) appended to self.markup"
            if ok_start and ok_stop:
                res.ok("C17.R1b", f"{rel}:{tok.lineno} Lexer.{name}", what, f"start={norm(kw['start'])}, stop={norm(kw['stop'])}")
            else:
                res.fail(
                    "C17.R1b",
                    file=rel,
                    line=tok.lineno,
                    qualname=f"Lexer.{name}",
                    construct=f"{tname}(start={norm(kw.get('start', '<missing>'))}, stop={norm(kw.get('stop', '<missing>'))})",
                    message="top-level token span is not (self.start|self.markup_start, self.pos)",
                    what=what,
                )
    res.floor("C17.R1b", "top-level token constructions", n_tok, 6)
    # the markup list is append-only and its tokens are never touched again
    n_mk = 0
    for name, f in sorted(lexer.methods.items()):
        for a in ast.walk(f.node):
            if _is_self_attr(a, "markup"):
                par = mod.parent(a)
                n_mk += 1
                ok = isinstance(par, ast.Attribute) and par.attr == "append" and isinstance(mod.parent(par), ast.Call) and mod.parent(par).func is par
                ok = ok or (name == "__init__" and isinstance(par, (ast.Assign, ast.AnnAssign)))
                what = f"Lexer.{name}: self.markup used only as self.markup.append(<new token>)"
                if ok:
                    res.ok("C17.R1b", f"{rel}:{a.lineno} Lexer.{name}", what, "append-only")
                else:
                    res.fail("C17.R1b", file=rel, line=a.lineno, qualname=f"Lexer.{name}", construct=f"self.markup used as {norm(par, 50)}", message="an already emitted top-level token is read back / modified / removed: its span no longer describes the text it was scanned from (tokens stop tiling)", what=what)
    res.floor("C17.R1b", "uses of self.markup", n_mk, 8)
    # markup_start assignments
    n_ms = 0
    for name, f in sorted(lm.methods.items()):
        if f.name != name:
            continue
        for a in ast.walk(f.node):
            if isinstance(a, ast.Assign) and any(_is_self_attr(t, "markup_start") for t in a.targets):
                if name == "__init__":
                    continue
                n_ms += 1
                what = f"`{norm(a)}` copies an untouched self.start"
                if not _is_self_attr(a.value, "start"):
                    res.fail("C17.R1b", file=rel, line=a.lineno, qualname=f"Lexer.{name}", construct=a, message="markup_start not taken from self.start", what=what)
                    continue
                cfg = lm.cfg(name)
                node = next((n for n in cfg.nodes if n.node is a), None)
                if node is None:
                    raise AnalysisError("markup_start assignment not in CFG")
                # start of this iteration: innermost enclosing loop head, else entry
                loop = next((x for x in mod.ancestors(a) if isinstance(x, (ast.While, ast.For))), None)
                start_node = cfg.entry
                if loop is not None:
                    start_node = next(n for n in cfg.nodes if n.kind in ("test", "for") and (n.node is loop.test if isinstance(loop, ast.While) else n.node is loop))

                def moves_start(n: "object") -> bool:
                    nd = getattr(n, "node", None)
                    if nd is None or getattr(n, "kind", "") not in ("stmt", "test"):
                        return False
                    if n is start_node:
                        return False
                    for x in ast.walk(nd):
                        if isinstance(x, ast.Assign) and any(_is_self_attr(t, "start") for t in x.targets):
                            return True
                        if isinstance(x, ast.Call) and isinstance(x.func, ast.Attribute) and _is_self_attr(x.func, x.func.attr) and x.func.attr in lm.methods:
                            callee = lm.methods[x.func.attr]
                            if any(isinstance(y, ast.Assign) and any(_is_self_attr(t, "start") for t in y.targets) for y in ast.walk(callee.node)) or x.func.attr in resync:
                                return True
                    return False

                reach = cfg.reachable(start_node, avoid=lambda n: n is not node and moves_start(n))
                # is there any path that *does* move start before reaching the assignment?
                clean = cfg.reachable(start_node)
                tainted = False
                if node.id in clean:
                    # nodes that move start and can reach the assignment
                    for n in cfg.nodes:
                        if n.id in clean and n is not node and moves_start(n) and node.id in cfg.reachable(n):
                            # ignore paths that go round the loop (through the head) first
                            if node.id in cfg.reachable(n, avoid=lambda m: m is start_node):
                                tainted = True
                if node.id in reach and not tainted:
                    res.ok("C17.R1b", f"{rel}:{a.lineno} Lexer.{name}", what, "no reassignment of self.start between the loop head and this copy")
                else:
                    res.fail("C17.R1b", file=rel, line=a.lineno, qualname=f"Lexer.{name}", construct=a, message="self.start may already have moved past the markup start when it is copied to markup_start", what=what)
    res.floor("C17.R1b", "markup_start assignments", n_ms, 3)

    # ---------------------------------------------------------------- R2: error positions
    res.rule(
        "C17.R2",
        "every ErrorToken index is a position of an existing token (<tok>.start/.index) or is clamped with "
        "min(_, len(self.source) - 1); no single-index read self.source[i] without an IndexError handler",
    )
    n_err = 0
    for fi in prog.all_functions():
        if fi.module is not mod:
            continue
        for c in ast.walk(fi.node):
            if isinstance(c, ast.Call) and (dotted(c.func) or "").endswith("ErrorToken"):
                n_err += 1
                kw = {k.arg: k.value for k in c.keywords if k.arg}
                idx = kw.get("index")
                what = f"ErrorToken(index={norm(idx) if idx is not None else '<missing>'})"
                if idx is not None and _index_in_source(idx):
                    res.ok("C17.R2", f"{rel}:{c.lineno} {fi.qualname}", what, "token position or clamped to the last character")
                elif idx is not None and _is_self_attr(idx, "start") and fi.cls is lexer and _definitely_advanced(lm, fi.name, c):
                    res.ok("C17.R2", f"{rel}:{c.lineno} {fi.qualname}", what, "self.pos was advanced past self.start on every path to this site (start < pos <= len(source))")
                else:
                    res.fail(
                        "C17.R2",
                        file=rel,
                        line=c.lineno,
                        qualname=fi.qualname,
                        construct=what,
                        message="error index can equal len(source) at end of input (position outside the source)",
                        what=what,
                    )
        # single-index reads of self.source
        for sub in ast.walk(fi.node):
            if isinstance(sub, ast.Subscript) and _is_self_attr(sub.value, "source") and not isinstance(sub.slice, ast.Slice) and isinstance(sub.ctx, ast.Load):
                guarded = False
                for a in mod.ancestors(sub):
                    if isinstance(a, ast.Try) and any(_catches(h, "IndexError") for h in a.handlers) and any(sub is x for b in a.body for x in ast.walk(b)):
                        guarded = True
                        break
                    if a is fi.node:
                        break
                what = f"`{norm(sub)}` single-index read"
                if guarded:
                    res.ok("C17.R2", f"{rel}:{sub.lineno} {fi.qualname}", what, "inside try/except IndexError")
                else:
                    res.fail("C17.R2", file=rel, line=sub.lineno, qualname=fi.qualname, construct=sub, message="unguarded single-index read of the source: raises IndexError at end of input", what=what)
    res.floor("C17.R2", "ErrorToken constructions", n_err, 5)
    # ---------------------------------------------------------------- R2b: an error token's value is the text at its index
    res.rule("C17.R2b", "every ErrorToken built by the lexer carries as `value` the source text that starts at its `index` (value = self.source[I:J] with index = I, possibly clamped; a peeked character with index = self.pos; or empty): stop = index + len(value) then lies inside the source and the span is the text it was scanned from")

    def _strip_clamp(e: ast.expr) -> ast.expr:
        if isinstance(e, ast.Call) and isinstance(e.func, ast.Name) and e.func.id in ("min", "max") and len(e.args) == 2:
            rest = [a for a in e.args if not (isinstance(a, ast.BinOp) and "len(self.source)" in norm(a)) and not (isinstance(a, ast.Constant) and a.value == 0)]
            if len(rest) == 1:
                return _strip_clamp(rest[0])
        return e

    for fi in prog.all_functions():
        if fi.module is not mod:
            continue
        for c in ast.walk(fi.node):
            if not (isinstance(c, ast.Call) and (dotted(c.func) or "").endswith("ErrorToken")):
                continue
            kw = {k.arg: k.value for k in c.keywords if k.arg}
            idx, val = kw.get("index"), kw.get("value")
            if idx is None or val is None:
                continue
            base = norm(_strip_clamp(idx))
            what = f"ErrorToken(index={norm(idx)}, value={norm(val)})"
            ok, why = False, ""
            if isinstance(val, ast.Subscript) and _is_self_attr(val.value, "source") and isinstance(val.slice, ast.Slice) and val.slice.lower is not None:
                ok = norm(val.slice.lower) == base
                why = f"value is source[{norm(val.slice.lower)}:…], index is {base}"
            elif isinstance(val, ast.Constant) and val.value == "":
                ok, why = True, "empty value"
            elif isinstance(val, ast.Name):
                # a character obtained from self.peek() (the character at self.pos, '' at the end of input)
                defs = [a.value for a in ast.walk(fi.node) if isinstance(a, ast.Assign) and any(isinstance(t, ast.Name) and t.id == val.id for t in a.targets)]
                ok = bool(defs) and all(isinstance(d, ast.Call) and norm(d) == "self.peek()" for d in defs) and base == "self.pos"
                why = f"value is the peeked character, index is {base}"
            else:
                why = "value expression not recognised"
            if ok:
                res.ok("C17.R2b", f"{rel}:{c.lineno} {fi.qualname}", what, why)
            else:
                res.fail("C17.R2b", file=rel, line=c.lineno, qualname=fi.qualname, construct=f"ErrorToken index/value disagree: {why}", message=f"{fi.qualname} builds an error token whose value does not start at its index ({why}): stop = index + len(value) can lie beyond the source and the span is not the text it was scanned from", what=what)

    # ---------------------------------------------------------------- R2c: lexer errors are positioned
    res.rule("C17.R2c", "every error raised by the lexer carries a token (raise …Error(msg, token=<not None>) or self.error()/raise_for_token()): a syntax error found while scanning always has a position to report")
    n_raise = 0
    for fi in prog.all_functions():
        if fi.module is not mod:
            continue
        for r in ast.walk(fi.node):
            if not (isinstance(r, ast.Raise) and isinstance(r.exc, ast.Call)):
                continue
            name = (dotted(r.exc.func) or "").split(".")[-1]
            if not name.endswith("Error"):
                continue
            n_raise += 1
            tok = next((k.value for k in r.exc.keywords if k.arg == "token"), None)
            what = f"{fi.qualname}: raise {name}(…, token={norm(tok) if tok is not None else '<missing>'})"
            if tok is None or (isinstance(tok, ast.Constant) and tok.value is None):
                res.fail("C17.R2c", file=rel, line=r.lineno, qualname=fi.qualname, construct=f"raise {name} without a token", message=f"{fi.qualname} raises {name} with no token: the error has no position at all although the lexer knows where it is", what=what)
            else:
                res.ok("C17.R2c", f"{rel}:{r.lineno} {fi.qualname}", what, "carries a token")
    res.floor("C17.R2c", "raise sites in the lexer", n_raise, 5)

    # ---------------------------------------------------------------- R7: scanner mode flags are per expression
    res.rule("C17.R7", "a mode flag that accept_token switches on while scanning an expression (e.g. in_range after `..`) does not outlive that expression: wherever a state function starts a fresh expression list (`self.expression = []`) it also switches every such flag off - otherwise an unfinished construct in one markup makes the lexer reject a later, valid markup and report the error there")
    at = lexer.methods.get("accept_token")
    if at is None:
        raise AnalysisError("Lexer.accept_token vanished")
    flags = sorted({t.attr for a in ast.walk(at.node) if isinstance(a, ast.Assign) and isinstance(a.value, ast.Constant) and a.value.value is True for t in a.targets if isinstance(t, ast.Attribute) and isinstance(t.value, ast.Name) and t.value.id == "self"})
    res.floor("C17.R7", "mode flags set by accept_token", len(flags), 1)
    n_reset = 0
    for fi in prog.all_functions():
        if fi.module is not mod or fi.cls is not lexer or fi.name == "__init__":
            continue
        for body_owner in ast.walk(fi.node):
            for fld in ("body", "orelse", "finalbody"):
                body = getattr(body_owner, fld, None)
                if not isinstance(body, list):
                    continue
                for st in body:
                    if isinstance(st, ast.Assign) and any(_is_self_attr(t, "expression") for t in st.targets) and isinstance(st.value, ast.List) and not st.value.elts:
                        n_reset += 1
                        site = f"{rel}:{st.lineno} {fi.qualname}"
                        what = f"{fi.qualname}: a fresh expression list starts with the flags {flags} off"
                        missing = [f for f in flags if not any(isinstance(x, ast.Assign) and any(_is_self_attr(t, f) for t in x.targets) and isinstance(x.value, ast.Constant) and x.value.value is False for x in body)]
                        if not missing:
                            res.ok("C17.R7", site, what, "reset next to `self.expression = []`")
                        else:
                            res.fail("C17.R7", file=rel, line=st.lineno, qualname=fi.qualname, construct=f"{fi.qualname}: expression list reset without resetting {missing}", message=f"{fi.qualname} starts the next markup's expression list but leaves self.{missing[0]} as the previous expression set it: after `{{% if a..b %}}` the next closing parenthesis anywhere in the template is taken for the end of a range and a valid tag is rejected, with the error positioned in that tag", what=what)
    res.floor("C17.R7", "expression-list resets in the state functions", n_reset, 4)

    # ---------------------------------------------------------------- R8: the three offset -> line searches agree
    res.rule("C17.R8", "the three functions that turn a character offset into a line (LiquidError._error_context, messages.line_number, messages.line_number_factory._line_number) run the same search: after normalising names and the offset expression their loops are identical, and each reports `<index of the line found> + 1`; _error_context's column is the offset minus the start of that line")
    check_line_searches(prog, res, "C17.R8")

    # ---------------------------------------------------------------- R7b: a list handed to a token is not reused
    res.rule("C17.R7b", "a scanner list handed to a token (expression=self.expression, statements=self.line_statements, whitespace=self.line_space) is replaced by a fresh list on every path from that emission to the end of the state function: otherwise the next markup's token starts with the previous markup's expression tokens, which lie outside its span")
    check_scratch_lists(prog, res, "C17.R7b", lm)

    # ---------------------------------------------------------------- R9: a range token spans its parentheses
    res.rule("C17.R9", "a range token spans from its opening to its closing parenthesis: RangeToken(start=<token tested to be LPAREN>.index, stop=<token tested to be RPAREN>.index + 1) - both delimiters are one character long")
    ar = lexer.methods.get("accept_range")
    if ar is None:
        raise AnalysisError("Lexer.accept_range vanished")
    kinds9: dict[str, str] = {}
    for c in ast.walk(ar.node):
        if isinstance(c, ast.Call) and (dotted(c.func) or "") == "is_token_type" and len(c.args) == 2 and isinstance(c.args[0], ast.Name):
            kinds9[c.args[0].id] = (dotted(c.args[1]) or "").split(".")[-1]
    rts = [c for c in ast.walk(ar.node) if isinstance(c, ast.Call) and (dotted(c.func) or "").endswith("RangeToken")]
    res.floor("C17.R9", "RangeToken constructions in accept_range", len(rts), 1)
    for c in rts:
        kw = {k.arg: k.value for k in c.keywords if k.arg}
        st_, sp_ = kw.get("start"), kw.get("stop")
        ok_start = isinstance(st_, ast.Attribute) and st_.attr in ("index", "start") and isinstance(st_.value, ast.Name) and kinds9.get(st_.value.id) == "LPAREN"
        ok_stop = isinstance(sp_, ast.BinOp) and isinstance(sp_.op, ast.Add) and isinstance(sp_.right, ast.Constant) and sp_.right.value == 1 and isinstance(sp_.left, ast.Attribute) and sp_.left.attr in ("index", "start") and isinstance(sp_.left.value, ast.Name) and kinds9.get(sp_.left.value.id) == "RPAREN"
        what = "RangeToken spans `(` … `)`"
        if ok_start and ok_stop:
            res.ok("C17.R9", f"{rel}:{c.lineno} Lexer.accept_range", what, f"start={norm(st_)}, stop={norm(sp_)}")
        else:
            res.fail("C17.R9", file=rel, line=c.lineno, qualname="Lexer.accept_range", construct=f"RangeToken(start={norm(st_) if st_ is not None else '?'}, stop={norm(sp_) if sp_ is not None else '?'})", message="the range token's span is not `(` through `)`: its start is not the opening parenthesis' position or its stop is not one past the closing parenthesis, so the span reported for `(a..b)` is not the text it was scanned from", what=what)

    # ---------------------------------------------------------------- R10: a nested token stops before its terminator
    res.rule("C17.R10", "a token nested in a markup token (a line statement of a liquid tag, a template string) ends where the delimiter that terminated it begins: its stop is never an offset taken after the scanner consumed that delimiter (`%}` / line break / closing quote) - forward dataflow of self.pos, self.start and locals relative to the terminator's offset T")
    n_r10 = _nested_stop_rule(prog, res, lexer, rel)
    res.floor("C17.R10", "nested token ends evaluated against their terminator", n_r10, 3)

    # ---------------------------------------------------------------- R11: an error names the template its token belongs to
    res.rule("C17.R11", "an error's template name and its token belong together (the name picks the source that line and column are shown against): (a) wherever a node renders a block parsed from another template (`<item>.block….render[_async](…)` with <item> a block-stack entry or a stored macro), a handler names escaping errors after that item before Template.render_with_context can name them after the rendering template; (b) an inheritance error raised with a token passes template_name from the same object / template the token comes from; (c) a loop interrupt turned into a syntax error is reported with the interrupt's own token and template name")
    n_r11 = _error_naming_rule(prog, res)
    res.floor("C17.R11", "naming obligations (foreign renders, inheritance errors, interrupt conversions)", n_r11, 12)

    # ---------------------------------------------------------------- R12: no position is computed for a token that has none
    res.rule("C17.R12", "the end-of-input token carries no position (start = -1, empty source): every call of LiquidError._error_context - the one place an offset becomes line and column - lies behind a test that turns a missing token or a negative start away, in each caller alike (sibling agreement of detailed_message() and context()); otherwise the error reports line 1, column -1")
    exc_mod = prog.mod("liquid2/exceptions.py")
    n12 = 0
    for fq, f in sorted(exc_mod.functions.items()):
        for c in ast.walk(f.node):
            if not (isinstance(c, ast.Call) and isinstance(c.func, ast.Attribute) and c.func.attr == "_error_context" and prog.enclosing_function(exc_mod, c) is f):
                continue
            n12 += 1
            fcfg = CFG(f.node)
            node = next((n for n in fcfg.nodes if n.node is not None and n.kind in ("stmt", "test") and any(x is c for x in ast.walk(n.node))), None)
            site = f"{exc_mod.relpath}:{c.lineno} {fq}"
            what = f"{fq}: _error_context() is reached only for a token with a position (start >= 0)"
            guarded = False
            for t in fcfg.nodes:
                if t.kind != "test" or t.node is None or node is None:
                    continue
                txt = norm(t.node, 200)
                if ".start < 0" not in txt and ".index < 0" not in txt and ".start >= 0" not in txt:
                    continue
                # the call is unreachable once this test is cut out: the test dominates it
                if node.id not in fcfg.reachable(fcfg.entry, avoid=lambda x, t=t: x is t):
                    bad = "false" if ".start >= 0" in txt else "true"
                    via_bad = any(lab == bad and (m is node or node.id in fcfg.reachable(m, avoid=lambda x, t=t: x is t)) for m, lab in t.succ)
                    if not via_bad:
                        guarded = True
            # polarity: what is *known* where the call stands - the token is there and its start is not negative
            if guarded:
                known: list[tuple[str, bool]] = []
                for t_, pol_ in _path_condition_c17(exc_mod, f.node, c):
                    known += _known_leaves(t_, pol_)
                has_start = any((txt.endswith(".start < 0") and not v) or ((txt.endswith(".start >= 0") or txt.endswith(".start > -1")) and v) for txt, v in known)
                has_token = any((txt.endswith("token is None") and not v) or (txt.endswith("token is not None") and v) or (txt.endswith("token") and v) for txt, v in known)
                if not (has_start and has_token):
                    guarded = False
            if guarded:
                res.ok("C17.R12", site, what, "dominated by a test on the token's start")
            else:
                res.fail("C17.R12", file=exc_mod.relpath, line=c.lineno, qualname=fq, construct=f"{fq}: _error_context() reachable for a token without a position", message=f"{fq} computes line and column without turning away a token whose start is negative (the end-of-input sentinel: start -1, empty source): `{{% if a == %}}` reports line 1, column -1 and an empty line instead of no position", what=what)
    res.floor("C17.R12", "callers of _error_context", n12, 2)

    progress_rule(prog, res, lexer, lm, state_fns)
    res.rule("C17.R13", "a token's value is the text it was scanned from: no Unicode normalisation or case folding in liquid2 (a WORD token's stop is index + len(value); a normalised value is shorter than the scanned text and the span loses its last characters)")
    from checks.shared import check_no_text_normalisation

    check_no_text_normalisation(prog, res, "C17.R13")
    res.rule("C17.R14", "the errors and nodes of `unless` carry the same tokens as those of `if`: UnlessTag.parse equals IfTag.parse after renaming (an error about an `elsif` without an expression points at that `elsif`, not at the opening tag)")
    from checks.shared import check_unless_mirrors_if

    check_unless_mirrors_if(prog, res, "C17.R14", only=("parse",))
    res.rule("C17.R15", "the text that is tokenized is the text the loader returned: BaseLoader.load[_async] passes `source` from get_source() to Environment.from_string() unchanged (no stripped byte order mark, no normalised line ends) - token.source, every span and every error position refer to the loader's source")
    from checks.shared import check_load_hands_through

    check_load_hands_through(prog, res, "C17.R15", "source")
    # ---------------------------------------------------------------- R17: computed positions do not depend on the token's kind
    res.rule("C17.R17", "a token's span is the text its value was scanned from: the computed `start` / `stop` properties in token.py are one unconditional expression over the stored index and the length of the stored text (start = index, stop = index + len(value)) - a case for one kind of token (`+ 2` for the quotes of a string, whose index already lies after the opening quote) makes that kind overlap its neighbour")
    tok_mod17 = prog.mod("liquid2/token.py")
    n17 = 0
    for ci17 in tok_mod17.classes.values():
        for pn in ("start", "stop"):
            pf = ci17.methods.get(pn)
            if pf is None:
                continue
            body17 = [s_ for s_ in pf.node.body if not (isinstance(s_, ast.Expr) and isinstance(s_.value, ast.Constant))]
            if not body17:
                continue  # abstract declaration
            n17 += 1
            site = f"{tok_mod17.relpath}:{pf.node.lineno} {ci17.name}.{pn}"
            what = f"{ci17.name}.{pn}: one unconditional expression over index and the stored text"
            branches = [x for x in ast.walk(pf.node) if isinstance(x, (ast.If, ast.IfExp, ast.Match, ast.BoolOp))]
            rets = [x for x in ast.walk(pf.node) if isinstance(x, ast.Return)]
            consts = [x for r_ in rets for x in ast.walk(r_) if isinstance(x, ast.Constant) and isinstance(x.value, (int, float)) and not isinstance(x.value, bool)]
            if branches or len(rets) != 1 or consts or "self.index" not in norm(rets[0], 200):
                why = "branches on the token" if branches else ("adds a constant" if consts else "is not computed from self.index")
                res.fail("C17.R17", file=tok_mod17.relpath, line=(branches or rets or [pf.node])[0].lineno, qualname=f"{ci17.name}.{pn}", construct=f"{ci17.name}.{pn} {why}", message=f"{ci17.name}.{pn} {why} (`{norm((branches or consts or rets)[0], 60)}`): the span of that kind of token is no longer index .. index + len(value) - a string token's index lies after its opening quote, so `+ 2` ends it one past the closing quote and into the next token (`'a'|upcase`)", what=what)
            else:
                res.ok("C17.R17", site, what, norm(rets[0].value, 50))
    res.floor("C17.R17", "computed position properties", n17, 4)
    # ---------------------------------------------------------------- R18: the token an error carries is the token its message is about
    res.rule("C17.R18", "an error points at what it talks about: where the message of a raised LiquidError formats `<t>.type_` / `<t>.value` of a token expression, the `token=` argument is that same expression - `expected a primitive expression, found COMMA` carrying the token *after* the comma (or the position-less end-of-input token) puts line, column and pointer on another construct")
    n18 = 0
    for fi18 in sorted(prog.all_functions(), key=lambda f: (f.file, f.node.lineno)):
        for c18 in ast.walk(fi18.node):
            if not (isinstance(c18, ast.Call) and (dotted(c18.func) or "").endswith("Error") and c18.args and isinstance(c18.args[0], ast.JoinedStr) and prog.enclosing_function(fi18.module, c18) is fi18):
                continue
            kw18 = next((k.value for k in c18.keywords if k.arg == "token"), None)
            if kw18 is None:
                continue
            subjects = set()
            for v18 in c18.args[0].values:
                if isinstance(v18, ast.FormattedValue):
                    for x18 in ast.walk(v18.value):
                        if isinstance(x18, ast.Attribute) and x18.attr in ("type_", "kind") and isinstance(x18.value, (ast.Name, ast.Call)):
                            subjects.add(norm(x18.value))
            if not subjects:
                continue
            n18 += 1
            site = f"{fi18.file}:{c18.lineno} {fi18.qualname}"
            what = f"{fi18.qualname}: the error about `{sorted(subjects)[0]}` carries that token"
            if norm(kw18) in subjects:
                res.ok("C17.R18", site, what, f"token={norm(kw18)}")
            else:
                res.fail("C17.R18", file=fi18.file, line=c18.lineno, qualname=fi18.qualname, construct=f"{fi18.qualname}: message about `{sorted(subjects)[0]}`, token=`{norm(kw18, 30)}`", message=f"{fi18.qualname} reports the kind of `{sorted(subjects)[0]}` in its message and hands `token={norm(kw18, 40)}` to the error: position, line and pointer belong to another token (the one after it, or the end-of-input token that has no position at all)", what=what)
    res.floor("C17.R18", "errors whose message names a token's kind", n18, 8)
    # ---------------------------------------------------------------- R16: a token that travels keeps its template's name with it
    res.rule("C17.R16", "an error raised from a *stored* token names the template that token belongs to: a value object that is created in one template's context and may be used while another template renders (the Undefined family: passed on as a `render` / `include` / macro argument) raises with the template name captured together with the token - otherwise render_with_context of the template in which the hook happens to fire fills in its own name, and the message shows `partial:1:18` over a line of the parent")
    node16 = [prog.cls("liquid2.ast.Node"), prog.cls("liquid2.expression.Expression"), prog.cls("liquid2.tag.Tag")]
    per_class: dict[str, list] = {}
    for fi16 in sorted(prog.all_functions(), key=lambda f: (f.file, f.node.lineno)):
        if fi16.cls is None or any(prog.is_subclass(fi16.cls, b) for b in node16) or fi16.cls.name in ("Filter",) or not fi16.file.endswith("undefined.py"):
            continue
        for c16 in ast.walk(fi16.node):
            if isinstance(c16, ast.Call) and (dotted(c16.func) or "").endswith("Error") and any(k.arg == "token" and norm(k.value).startswith("self.") for k in c16.keywords):
                per_class.setdefault(fi16.cls.name, []).append((fi16, c16, any(k.arg == "template_name" for k in c16.keywords)))
    n16 = 0
    for cname, sites in sorted(per_class.items()):
        n16 += len(sites)
        bad16 = [s_ for s_ in sites if not s_[2]]
        f0, c0, _ = sites[0]
        what = f"{cname}: errors raised from the stored token carry the stored template name"
        if bad16:
            res.fail("C17.R16", file=f0.file, line=bad16[0][1].lineno, qualname=cname, construct=f"{cname}: errors raised from a stored token carry no template name", message=f"{cname} raises `{norm(bad16[0][1], 60)}` in {len(bad16)} hook(s): the token was captured where the variable was looked up, the template name is filled in by whichever template is rendering when the hook fires - a strict undefined handed to a partial (`{{% render 'p', v: nosuch %}}`) is reported as `p:1:18` above the parent's source line", what=what)
        else:
            res.ok("C17.R16", f"{f0.file}:{f0.node.lineno} {cname}", what, f"{len(sites)} raise site(s)")
    res.floor("C17.R16", "raises from a stored token in the undefined family", n16, 10)

    # ---------------------------------------------------------------- R1d: saved start marks are fresh when a token is built from them
    res.rule("C17.R1d", "a token built with start=self.<mark> (markup_start, line_start: scan positions saved from self.start) is reached only on paths where the mark was saved after the previous token built from it - across state-function hand-overs (interprocedural fixpoint)")
    marks = sorted({t.attr for f in lexer.methods.values() for a in ast.walk(f.node) if isinstance(a, ast.Assign) and _is_self_attr(a.value, "start") for t in a.targets if isinstance(t, ast.Attribute) and isinstance(t.value, ast.Name) and t.value.id == "self" and t.attr not in ("pos", "start")})
    res.stats["start_marks"] = marks
    res.floor("C17.R1d", "saved start marks", len(marks), 2)
    n_mark_uses = 0
    for mark in marks:
        # methods (non state functions) that save the mark: calling them counts as saving
        savers = {n for n, f in lm.methods.items() if n not in state_fns and any(isinstance(a, ast.Assign) and _is_self_attr(a.value, "start") and any(_is_self_attr(t, mark) for t in a.targets) for a in ast.walk(f.node))}

        def _saves(nd: ast.AST, mark: str = mark, savers: set = savers) -> bool:
            for x in ast.walk(nd):
                if isinstance(x, ast.Assign) and any(_is_self_attr(t, mark) for t in x.targets) and _is_self_attr(x.value, "start"):
                    return True
                if isinstance(x, ast.Call) and isinstance(x.func, ast.Attribute) and _is_self_attr(x.func, x.func.attr) and x.func.attr in savers:
                    return True
            return False

        def _uses(nd: ast.AST, mark: str = mark) -> list[ast.Call]:
            return [c for c in ast.walk(nd) if isinstance(c, ast.Call) and any(k.arg == "start" and _is_self_attr(k.value, mark) for k in c.keywords)]

        entry: dict[str, frozenset] = {name: frozenset() for name in state_fns}
        first = "lex_markup" if "lex_markup" in state_fns else sorted(state_fns)[0]
        entry[first] = frozenset({"stale"})
        stale_uses: dict[tuple[str, int], ast.Call] = {}
        for _round in range(12):
            changed = False
            for name in sorted(state_fns):
                if not entry[name]:
                    continue
                cfg = lm.cfg(name)

                def tr(n, st, label, name=name):  # noqa: ANN001, ANN202
                    if n.node is None or n.kind not in ("stmt", "test") or label == "exc":
                        return st
                    cur = st
                    us = _uses(n.node)
                    if us and "stale" in cur and not _saves(n.node):
                        for u in us:
                            stale_uses[(name, u.lineno)] = u
                    if us:
                        cur = frozenset({"stale"})
                    if _saves(n.node):
                        cur = frozenset({"fresh"})
                    return cur

                IN = forward(cfg, entry[name], tr, lambda a, b: a | b)
                for node in cfg.nodes:
                    if node.kind == "stmt" and isinstance(node.node, ast.Return) and node.id in IN and node.node.value is not None:
                        out = tr(node, IN[node.id], "next")
                        for sub in ast.walk(node.node.value):
                            if isinstance(sub, ast.Attribute) and _is_self_attr(sub, sub.attr) and sub.attr in state_fns:
                                if not out <= entry[sub.attr]:
                                    entry[sub.attr] = entry[sub.attr] | out
                                    changed = True
            if not changed:
                break
        for name in sorted(state_fns):
            for c in _uses(lexer.methods[name].node):
                n_mark_uses += 1
                site = f"{rel}:{c.lineno} Lexer.{name}"
                what = f"`{norm(c.func)}(start=self.{mark}, …)` built from a mark saved for this token"
                if (name, c.lineno) in stale_uses:
                    res.fail("C17.R1d", file=rel, line=c.lineno, qualname=f"Lexer.{name}", construct=f"{norm(c.func)}(start=self.{mark}) with a stale mark", message=f"Lexer.{name} builds {norm(c.func)} with start=self.{mark}, but on some path self.{mark} was not saved since the previous token built from it (or never: it starts at -1): the token starts at an earlier token's offset or outside the source", what=what)
                else:
                    res.ok("C17.R1d", site, what, f"self.{mark} = self.start on every path since the last token built from it")
    res.floor("C17.R1d", "tokens built from a saved mark", n_mark_uses, 6)

    # ---------------------------------------------------------------- R1e / R6: path tokens
    res.rule("C17.R6", "Lexer.accept_path: a path token's stop is brought up to date after every segment it gains (never left at its placeholder when the function returns), a nested path's stop is taken before its closing bracket is skipped, and every return is guarded by a bracket-balance test against the entry depth")
    check_path_tokens(prog, res, "C17.R6")

    # ---------------------------------------------------------------- R5: one notion of "line"
    res.rule("C17.R5", "line/column computations use one notion of line break: a function that splits with str.splitlines() does not also count or search for '\\n' (and vice versa), in liquid2/exceptions.py and liquid2/messages.py")
    check_line_model(prog, res, "C17.R5")

    # ---------------------------------------------------------------- R4: who may build tokens
    res.rule("C17.R4", "tokens are built by the lexer only; a token built anywhere else either carries no position (index/start = -1, the shared end-of-input token) or copies .start/.index from an existing token - never a .stop or a computed offset, which can lie one past the last character")
    tok_classes = {c.name for c in prog.subclasses("liquid2.token.TokenT")}
    res.floor("C17.R4", "token classes", len(tok_classes), 10)
    n_out = 0

    def _pos_ok(v: ast.AST) -> bool:
        if isinstance(v, ast.UnaryOp) and isinstance(v.op, ast.USub) and isinstance(v.operand, ast.Constant) and v.operand.value == 1:
            return True
        if isinstance(v, ast.Attribute) and v.attr in ("start", "index"):
            return True
        return False

    for m_ in prog.modules.values():
        if m_.relpath == lexer.file:
            continue
        for c in ast.walk(m_.tree):
            if not (isinstance(c, ast.Call) and isinstance(c.func, (ast.Name, ast.Attribute)) and (dotted(c.func) or "").split(".")[-1] in tok_classes):
                continue
            n_out += 1
            q = prog.qual_at(m_, c)
            kw = {k.arg: k.value for k in c.keywords if k.arg in ("index", "start")}
            what = f"`{norm(c, 70)}` outside the lexer carries no position of its own"
            bad = [f"{k}={norm(v)}" for k, v in kw.items() if not _pos_ok(v)]
            if c.args:
                bad.append("positional arguments")
            if not kw and not c.args:
                bad.append("no index/start given")
            if bad:
                res.fail("C17.R4", file=m_.relpath, line=c.lineno, qualname=q, construct=f"{norm(c.func)}({', '.join(bad)}) outside the lexer", message=f"a token is built outside the lexer with {', '.join(bad)}: its position is not one the lexer produced (e.g. <last token>.stop == len(source)), so an error raised with it points outside the source", what=what)
            else:
                res.ok("C17.R4", f"{m_.relpath}:{c.lineno} {q}", what, ", ".join(f"{k}={norm(v)}" for k, v in kw.items()))
    res.floor("C17.R4", "token constructions outside the lexer", n_out, 1)


def _definitely_advanced(lm: "LexerModel", name: str, call: ast.Call) -> bool:
    """True if, whatever the entry state, the scan pointer was advanced (and start not re-synced)
    on every path to the statement containing *call*."""
    cfg = lm.cfg(name)
    IN = lm.ts.solve(cfg, T)
    for n in cfg.nodes:
        if n.node is not None and n.kind in ("stmt", "test") and any(x is call for x in ast.walk(n.node)):
            return IN.get(n.id) == U
    return False


def _catches(h: ast.ExceptHandler, name: str) -> bool:
    if h.type is None:
        return True
    names = [dotted(e) for e in (h.type.elts if isinstance(h.type, ast.Tuple) else [h.type])]
    return any(n in (name, "LookupError", "Exception", "BaseException") for n in names)


def _index_in_source(e: ast.expr) -> bool:
    # <tok>.start / <tok>.index  where tok is not self
    if isinstance(e, ast.Attribute) and e.attr in ("start", "index") and isinstance(e.value, ast.Name) and e.value.id != "self":
        return True
    # min(X, len(self.source) - 1)  (optionally inside max(0, …))
    if isinstance(e, ast.Call) and isinstance(e.func, ast.Name) and e.func.id == "max" and len(e.args) == 2:
        return any(_index_in_source(a) for a in e.args)
    if isinstance(e, ast.Call) and isinstance(e.func, ast.Name) and e.func.id == "min":
        for a in e.args:
            if isinstance(a, ast.BinOp) and isinstance(a.op, ast.Sub) and isinstance(a.right, ast.Constant) and a.right.value == 1:
                l = a.left
                if isinstance(l, ast.Call) and isinstance(l.func, ast.Name) and l.func.id == "len" and l.args and _is_self_attr(l.args[0], "source"):
                    return True
    return False


# ---------------------------------------------------------------------------------------------- R3 progress
N_, A_, M_ = "no-advance", "advanced", "maybe"

# one named symbol + reason: facts the 3-value lattice cannot derive
TRUSTED_ADVANCE = {
    "accept_token": "returns True only after `self.pos += len(value)` for a non-empty TOKEN_RULES match (checked below); the single backup() in the "
    "LBRACKET arm re-reads that same `[`, which accept_path's `[` arm consumes again",
}


def _regex_min_widths(lexer: ClassInfo) -> dict[str, int]:
    """Minimum match width of every compiled pattern attribute of the Lexer class (via re._parser)."""
    import re._parser as sp

    out: dict[str, int] = {}
    dicts: dict[str, int] = {}
    for name, v in lexer.class_attrs.items():
        if isinstance(v, ast.Call) and norm(v.func) == "re.compile" and v.args:
            pat = "".join(a.value for a in ast.walk(v.args[0]) if isinstance(a, ast.Constant) and isinstance(a.value, str))
            try:
                out[name] = sp.parse(pat).getwidth()[0]
            except Exception:  # noqa: BLE001
                out[name] = 0
        elif isinstance(v, ast.Dict):
            ws = []
            for val in v.values:
                pat = "".join(a.value for a in ast.walk(val) if isinstance(a, ast.Constant) and isinstance(a.value, str))
                if pat:
                    try:
                        ws.append(sp.parse(pat).getwidth()[0])
                    except Exception:  # noqa: BLE001
                        ws.append(0)
            if ws:
                dicts[name] = min(ws)
    for name, v in lexer.class_attrs.items():
        if isinstance(v, ast.Call) and norm(v.func) == "_compile":
            ws = [dicts.get(norm(a), 0) for a in v.args]
            out[name] = min(ws) if ws else 0
    return out


class Progress:
    """Has self.pos provably advanced since a reference point?"""

    def __init__(self, lm: LexerModel, widths: dict[str, int]) -> None:
        self.lm = lm
        self.widths = widths
        self._summ: dict[str, dict[str, str]] = {}
        self._active: set[str] = set()
        self.ts = Typestate(join=self._join, stmt_effect=self.stmt_effect, call_effect=self.call_effect, test_refine=self.test_refine)
        self.fn: FunctionInfo | None = None

    @staticmethod
    def _join(a, b):  # noqa: ANN001, ANN205
        """States: N_/A_/M_ or ("next", var, prev) = advanced if var is non-empty, else prev."""
        if a == b:
            return a

        def j(x: str, y: str) -> str:
            return x if x == y else M_

        ta, tb = isinstance(a, tuple), isinstance(b, tuple)
        if ta and tb:
            if a[1] == b[1]:
                return ("next", a[1], j(a[2], b[2]))
            return M_
        if ta or tb:
            t, s = (a, b) if ta else (b, a)
            if s == A_:
                return ("next", t[1], j(t[2], A_))
            return M_
        return j(a, b)

    def _regex_of(self, var: str, line: int = 10**9) -> str | None:
        """Name of the Lexer pattern whose match object / matched text *var* holds: the textually last binding
        at or before *line* in the current function (match variables are reused arm after arm)."""
        fn = self.fn.node if self.fn else None
        if fn is None:
            return None
        best: tuple[int, str | None] | None = None
        for n in ast.walk(fn):
            tgt = val = None
            if isinstance(n, ast.NamedExpr):
                tgt, val = n.target, n.value
            elif isinstance(n, ast.Assign) and len(n.targets) == 1:
                tgt, val = n.targets[0], n.value
            if isinstance(tgt, ast.Name) and tgt.id == var and val is not None and n.lineno <= line:
                r = None
                if isinstance(val, ast.Call) and isinstance(val.func, ast.Attribute) and val.func.attr == "match" and _is_self_attr(val.func.value, getattr(val.func.value, "attr", "")):
                    r = val.func.value.attr
                elif isinstance(val, ast.Call) and isinstance(val.func, ast.Attribute) and val.func.attr == "group" and isinstance(val.func.value, ast.Name):
                    r = self._regex_of(val.func.value.id, n.lineno)
                if best is None or n.lineno >= best[0]:
                    best = (n.lineno, r)
        return best[1] if best else None

    def _positive(self, e: ast.AST) -> bool:
        """The increment expression is >= 1."""
        line = getattr(e, "lineno", 10**9)
        if isinstance(e, ast.Constant):
            return isinstance(e.value, int) and e.value >= 1
        t = norm(e)
        import re

        m = re.fullmatch(r"(\w+)\.end\(\) - \1\.start\(\)", t)
        if m:
            r = self._regex_of(m.group(1), line)
            return r is not None and self.widths.get(r, 0) >= 1
        m = re.fullmatch(r"len\((\w+)\)", t)
        if m:
            r = self._regex_of(m.group(1), line)
            return r is not None and self.widths.get(r, 0) >= 1
        return False

    def stmt_effect(self, s: ast.AST, st):  # noqa: ANN001, ANN201
        if isinstance(s, ast.AugAssign) and _is_self_attr(s.target, "pos"):
            if isinstance(s.op, ast.Add) and self._positive(s.value):
                return A_
            return M_
        if isinstance(s, ast.Assign):
            for t in s.targets:
                if _is_self_attr(t, "pos"):
                    return M_
            # plain alias of the character variable:  c = ch
            if len(s.targets) == 1 and isinstance(s.targets[0], ast.Name) and isinstance(s.value, ast.Name) and isinstance(st, tuple) and st[1] == s.value.id:
                return ("next", s.targets[0].id, st[2])
            # c = self.next(): advanced iff c is non-empty
            if len(s.targets) == 1 and isinstance(s.targets[0], ast.Name) and isinstance(s.value, ast.Call) and _is_self_attr(s.value.func, "next"):
                prev = st if isinstance(st, str) else (A_ if st[2] == A_ else M_)
                return A_ if prev == A_ else ("next", s.targets[0].id, prev)
        return st

    def call_effect(self, c: ast.Call, st, branch):  # noqa: ANN001, ANN201
        f = c.func
        if not (isinstance(f, ast.Attribute) and isinstance(f.value, ast.Name) and f.value.id == "self" and f.attr in self.lm.methods):
            return None
        name = f.attr
        if name == "next":
            return None  # handled at the assignment (needs the result variable); a bare self.next() is 'maybe'
        if name == "accept" and c.args and isinstance(c.args[0], ast.Attribute):
            w = self.widths.get(c.args[0].attr, 0)
            if branch is True:
                return A_ if w >= 1 else st
            if branch is False:
                return st
            return self._join(st, A_) if w >= 1 else st
        if name in ("backup",):
            return M_ if st == A_ else st
        if name in TRUSTED_ADVANCE and branch is True:
            return A_
        summ = self.summary(name)
        eff = summ.get("true" if branch is True else ("false" if branch is False else "any"), summ["any"])
        if eff == A_:
            return A_
        if eff == N_:
            return st
        return st if st == A_ and summ.get("monotone") else (A_ if st == A_ and summ.get("monotone") else (M_ if st != A_ else M_ if not summ.get("monotone") else A_))

    def test_refine(self, t: ast.AST, st, branch: bool):  # noqa: ANN001, ANN201
        if isinstance(st, tuple) and st[0] == "next":
            var, prev = st[1], st[2]
            neg = False
            e = t
            if isinstance(e, ast.UnaryOp) and isinstance(e.op, ast.Not):
                neg, e = True, e.operand
            if isinstance(e, ast.Name) and e.id == var:
                truthy = branch != neg
                return A_ if truthy else prev
            if isinstance(e, ast.Compare) and isinstance(e.left, ast.Name) and e.left.id == var and len(e.ops) == 1 and isinstance(e.comparators[0], ast.Constant):
                cst = e.comparators[0].value
                eq = isinstance(e.ops[0], ast.Eq)
                holds = branch != neg
                if cst == "":
                    return (prev if holds else A_) if eq else (A_ if holds else prev)
                if isinstance(cst, str) and cst and eq and holds:
                    return A_
        return st

    def summary(self, name: str) -> dict[str, str]:
        if name in self._summ:
            return self._summ[name]
        if name in self._active:
            return {"any": M_}
        self._active.add(name)
        saved = self.fn
        try:
            m = self.lm.methods[name]
            self.fn = m
            cfg = self.lm.cfg(name)
            IN = self.ts.solve(cfg, N_)
            outs: dict[str, str] = {}

            def add(k: str, v) -> None:  # noqa: ANN001
                v = v if isinstance(v, str) else M_
                outs[k] = v if k not in outs else (v if outs[k] == v else M_)

            for src, label in cfg.exit.pred:
                if src.id not in IN:
                    continue
                out = self.ts.transfer(src, IN[src.id], label)
                add("any", out)
                rv = src.node.value if isinstance(src.node, ast.Return) else None
                if isinstance(rv, ast.Constant) and rv.value is True:
                    add("true", out)
                elif isinstance(rv, ast.Constant) and rv.value is False:
                    add("false", out)
                else:
                    add("true", out)
                    add("false", out)
            if "any" not in outs:
                outs = {"any": M_}
            # a method that never moves pos backwards keeps an earlier advance
            moves_back = any(isinstance(x, ast.AugAssign) and _is_self_attr(x.target, "pos") and isinstance(x.op, ast.Sub) for x in ast.walk(m.node)) or any(isinstance(x, ast.Assign) and any(_is_self_attr(t, "pos") for t in x.targets) for x in ast.walk(m.node))
            outs["monotone"] = "" if moves_back else "yes"
            self._summ[name] = outs
            return outs
        finally:
            self._active.discard(name)
            self.fn = saved


def progress_rule(prog: Program, res: Result, lexer: ClassInfo, lm: LexerModel, state_fns: list[str], rule: str = "C17.R3") -> None:
    res.rule(
        rule,
        "lexer progress: every `while` back edge in a Lexer method, and every hand-over `return self.<state fn>`, is reached only after "
        "self.pos advanced (regex minimum widths from re._parser): scanning terminates within len(source) steps and no state cycle spins in place",
    )
    rel = lexer.file
    widths = _regex_min_widths(lexer)
    res.stats["regex_min_widths"] = widths
    res.stats["trusted_advance"] = TRUSTED_ADVANCE
    # the trusted fact is itself guarded: accept_token must start with the non-empty match + advance and return False when nothing matches
    at = lexer.methods.get("accept_token")
    txt = norm(at.node, 20000) if at else ""
    what = "accept_token consumes a non-empty TOKEN_RULES match before returning True and returns False without moving otherwise"
    if at is not None and widths.get("TOKEN_RULES", 0) >= 1 and "match = self.TOKEN_RULES.match(self.source, pos=self.pos)" in txt and "if not match: return False" in txt and "self.pos += len(value)" in txt and "value = match.group()" in txt and sum(1 for r in ast.walk(at.node) if isinstance(r, ast.Return)) == 2:
        res.ok(rule, f"{rel}:{at.node.lineno} Lexer.accept_token", what, "guard for the trusted advance fact")
    else:
        res.fail(rule, file=rel, line=at.node.lineno if at else 0, qualname="Lexer.accept_token", construct="accept_token no longer has the match-or-False / advance shape", message="accept_token may return True without consuming input (or the token pattern can match the empty string): the expression loops may spin", what=what)
    res.floor(rule, "compiled lexer patterns", len(widths), 10)
    P = Progress(lm, widths)
    n_back = 0
    for name, f in sorted(lexer.methods.items()):
        loops = [n for n in ast.walk(f.node) if isinstance(n, ast.While)] if name != "run" else []
        if not loops and name not in state_fns:
            continue
        P.fn = f
        cfg = lm.cfg(name)
        for loop in loops:
            head = next((n for n in cfg.nodes if n.kind == "test" and n.node is loop.test), None)
            if head is None:
                continue
            # dataflow restricted to the loop body: start at the head with "no advance yet"
            body_ids = {n.id for n in cfg.nodes if n.node is not None and any(a is loop for a in lexer.module.ancestors(n.node))} | {head.id}

            def transfer(n, st, label, head=head, body_ids=body_ids):  # noqa: ANN001, ANN202
                return P.ts.transfer(n, st, label)

            # run a forward pass seeded at the loop head only
            IN = {head.id: N_}
            work = [head]
            seen_iter = 0
            while work and seen_iter < 5000:
                seen_iter += 1
                n = work.pop()
                for m_, lab in n.succ:
                    if m_.id not in body_ids or m_ is head:
                        continue
                    out = transfer(n, IN[n.id], lab)
                    old = IN.get(m_.id)
                    new = out if old is None else P._join(old, out)
                    if new != old:
                        IN[m_.id] = new
                        work.append(m_)
            for src, label in head.pred:
                if src.id not in body_ids or src.id not in IN or src is head:
                    continue
                n_back += 1
                out = P.ts.transfer(src, IN[src.id], label)
                st = out if isinstance(out, str) else M_
                site = f"{rel}:{src.line} Lexer.{name}"
                what = f"loop at line {loop.lineno}: back edge from `{norm(src.node, 50)}` only after an advance"
                if st == A_:
                    res.ok(rule, site, what, "self.pos advanced on every path of this iteration")
                else:
                    res.fail(rule, file=rel, line=src.line, qualname=f"Lexer.{name}", construct=f"loop@{norm(loop.test, 20)} back edge via `{norm(src.node, 50)}` [{st}]", message=f"an iteration of the loop in Lexer.{name} can return to the loop head without consuming input ({st}): the lexer may spin forever on some source text", what=what)
        if name in state_fns:
            IN = P.ts.solve(cfg, N_)
            for node in cfg.nodes:
                if node.kind == "stmt" and isinstance(node.node, ast.Return) and node.id in IN and node.node.value is not None and not (isinstance(node.node.value, ast.Constant) and node.node.value.value is None) and not cfg._is_noreturn_stmt(node.node):
                    n_back += 1
                    st = IN[node.id]
                    st = st if isinstance(st, str) else M_
                    site = f"{rel}:{node.line} Lexer.{name}"
                    what = f"hand-over `{norm(node.node)}` only after an advance"
                    if st == A_:
                        res.ok(rule, site, what, "input consumed since the state function was entered")
                    else:
                        res.fail(rule, file=rel, line=node.line, qualname=f"Lexer.{name}", construct=f"{norm(node.node)} without progress [{st}]", message=f"Lexer.{name} can hand over to the next state without having consumed any input ({st}): two state functions can hand over to each other forever", what=what)
    res.floor(rule, "back edges and hand-overs examined", n_back, 20)


def check_path_tokens(prog: Program, res: Result, rule: str) -> None:
    """Lexer.accept_path keeps every path token's span exact (see C17.R6)."""
    lexer = prog.cls("liquid2.lexer.Lexer")
    lm = LexerModel(prog, lexer)
    rel = lexer.file
    ap = lexer.methods.get("accept_path")
    if ap is None:
        raise AnalysisError("Lexer.accept_path vanished")
    acfg = lm.cfg("accept_path")

    def _gains(nd: ast.AST) -> bool:
        for x in ast.walk(nd):
            if isinstance(x, ast.Call) and isinstance(x.func, ast.Attribute) and x.func.attr == "append":
                tgt = norm(x.func.value)
                if tgt == "self.path_stack[-1].path":
                    return True
                if tgt == "self.path_stack" and x.args and isinstance(x.args[0], ast.Call):
                    # pushing a path that already holds its first segment is a gain; the empty root pushed on entry is not
                    pk = next((k.value for k in x.args[0].keywords if k.arg == "path"), None)
                    if not (isinstance(pk, ast.List) and not pk.elts):
                        return True
        return False

    def _stops(nd: ast.AST) -> bool:
        return isinstance(nd, ast.Assign) and any(isinstance(t, ast.Attribute) and t.attr == "stop" and norm(t.value) == "self.path_stack[-1]" for t in nd.targets)

    def _moves(nd: ast.AST) -> int:
        """Net number of characters consumed by the statement/test (3 = 'several / unknown')."""
        k = 0
        for x in ast.walk(nd):
            if isinstance(x, ast.AugAssign) and norm(x.target) == "self.pos":
                return 3
            if isinstance(x, ast.Call) and isinstance(x.func, ast.Attribute) and isinstance(x.func.value, ast.Name) and x.func.value.id == "self":
                if x.func.attr == "next":
                    k += 1
                elif x.func.attr == "backup":
                    k -= 1
                elif x.func.attr.startswith("accept"):
                    return 3
        return k

    def _syncs(nd: ast.AST) -> bool:
        """The statement brings self.start up to self.pos: `self.start = self.pos` or `self.ignore()` (skip)."""
        if isinstance(nd, ast.Assign) and any(_is_self_attr(t, "start") for t in nd.targets) and _is_self_attr(nd.value, "pos"):
            return True
        return isinstance(nd, ast.Expr) and isinstance(nd.value, ast.Call) and isinstance(nd.value.func, ast.Attribute) and _is_self_attr(nd.value.func, nd.value.func.attr) and nd.value.func.attr in ("ignore", "skip")

    def _bump(v: int, mv: int) -> int:
        if mv >= 3 or v >= 3:
            return 3 if (mv != 0 or v >= 3) else v
        return max(0, min(3, v + mv))

    def ptr(n, st, label):  # noqa: ANN001, ANN202
        """State = (fresh|stale, characters consumed since the last store of stop: 0..3, characters consumed since self.start was
        last brought up to self.pos: 0..3)."""
        if n.node is None or n.kind not in ("stmt", "test") or label == "exc":
            return st
        flag, cnt, lag = st
        mv = _moves(n.node)
        cnt = _bump(cnt, mv)
        lag = _bump(lag, mv)
        if n.kind == "test" and label == "false" and isinstance(n.node, ast.Name) and n.node.id == "carry":
            lag = 0  # without a carried word accept_path is entered on the `[` it is about to read: nothing consumed yet
        if n.kind == "stmt":
            if _syncs(n.node):
                lag = 0
            if _gains(n.node):
                flag = "stale"
            if _stops(n.node):
                flag, cnt = "fresh", 0
        return (flag, cnt, lag)

    def _pjoin(a, b):  # noqa: ANN001, ANN202
        return ("stale" if "stale" in (a[0], b[0]) else "fresh", max(a[1], b[1]), max(a[2], b[2]))

    PIN = forward(acfg, ("fresh", 0, 3), ptr, _pjoin)
    # a stop taken from self.start is only as good as self.start: exactly at the scan position (lag 0) for the path being extended,
    # exactly one character behind (the closing bracket just consumed) for a nested path that is being closed
    for n in acfg.nodes:
        if n.kind == "stmt" and isinstance(n.node, ast.Assign) and n.id in PIN and any(isinstance(t, ast.Attribute) and t.attr == "stop" for t in n.node.targets) and _is_self_attr(n.node.value, "start"):
            lag_here = PIN[n.id][2]
            own = any(norm(t.value) == "self.path_stack[-1]" for t in n.node.targets if isinstance(t, ast.Attribute))
            want = 0 if own else 1
            site = f"{rel}:{n.line} Lexer.accept_path"
            what = f"`{norm(n.node)}`: self.start is {'at' if own else 'one character behind'} the scan position"
            if lag_here == want:
                res.ok(rule, site, what, f"{lag_here} character(s) consumed since self.start was synchronised")
            else:
                res.fail(rule, file=rel, line=n.line, qualname="Lexer.accept_path", construct=f"{norm(n.node)} with a stale self.start", message=f"`{norm(n.node)}` takes the token's end from self.start, but self.start was last synchronised {('several' if lag_here >= 3 else lag_here)} character(s) ago on some path (a segment was consumed without `self.start = self.pos`): the path token's span ends before its last segment", what=what)
    rets = [n for n in acfg.nodes if n.kind == "stmt" and isinstance(n.node, ast.Return)] + [src for src, _l in acfg.exit.pred if not (src.kind == "stmt" and isinstance(src.node, ast.Return))]
    res.floor(rule, "exits of accept_path", len(rets), 2)
    depth_vars = {t.id for a in ast.walk(ap.node) if isinstance(a, ast.Assign) and norm(a.value) == "len(self.path_stack)" for t in a.targets if isinstance(t, ast.Name)}
    for r in rets:
        if r.id not in PIN:
            continue
        site = f"{rel}:{r.line} Lexer.accept_path"
        what = f"exit at line {r.line}: the path token's stop is current"
        st_end = ptr(r, PIN[r.id], "next")
        if st_end[0] == "fresh" and st_end[1] == 0:  # (the third component, the lag of self.start, is checked at each use)
            res.ok(rule, site, what, "`self.path_stack[-1].stop = …` follows every segment append on all paths, and nothing is consumed after the last store (net of backup())")
        elif st_end[0] == "fresh":
            res.fail(rule, file=rel, line=r.line, qualname="Lexer.accept_path", construct="return after consuming characters that the stored stop does not cover", message="accept_path can return after consuming part of the path (e.g. the closing bracket of an index) later than the last `self.path_stack[-1].stop = …`: the token's span ends before the text it was scanned from", what=what)
        else:
            res.fail(rule, file=rel, line=r.line, qualname="Lexer.accept_path", construct=f"return at a point where a segment was appended without updating stop", message="accept_path can return after appending a segment (or pushing a nested path) without bringing `self.path_stack[-1].stop` up to date: the token keeps its placeholder end (-1) or an end before its last segment, so its span is not the text it was scanned from", what=what)
        what_b = f"exit at line {r.line}: guarded by a bracket-balance test"

        def balance(t: ast.AST) -> bool | None:
            txt = norm(t)
            for dv in depth_vars:
                if txt in (f"len(self.path_stack) != {dv}", f"len(self.path_stack) > {dv}"):
                    return True  # bad (unbalanced) on the true edge
                if txt == f"len(self.path_stack) == {dv}":
                    return False
            return None

        g = guarded_by_test(acfg, r, balance)
        if g is not None:
            res.ok(rule, site, what_b, f"dominated by `{norm(g.node)}`")
        else:
            res.fail(rule, file=rel, line=r.line, qualname="Lexer.accept_path", construct="return without a bracket-balance test", message="accept_path can return while a nested (bracketed) path is still open: the caller pops the nested token, the outer path stays on the stack and leaks into the next markup (`{{ a[b }}` is accepted)", what=what_b)
    # nested path: stop taken before the closing bracket is skipped
    AIN = lm.ts.solve(acfg, S)
    n_nested = 0
    popped = {t.id for a in ast.walk(ap.node) if isinstance(a, ast.Assign) and norm(a.value) == "self.path_stack.pop()" for t in a.targets if isinstance(t, ast.Name)}
    for n in acfg.nodes:
        if n.kind == "stmt" and isinstance(n.node, ast.Assign) and any(isinstance(t, ast.Attribute) and t.attr == "stop" and isinstance(t.value, ast.Name) and t.value.id in popped for t in n.node.targets):
            n_nested += 1
            st = AIN.get(n.id)
            what = f"`{norm(n.node)}`: the closed nested path ends before its closing bracket"
            if _is_self_attr(n.node.value, "start") and st != S:
                res.ok(rule, f"{rel}:{n.line} Lexer.accept_path", what, f"start not yet moved past the bracket (state {st})")
            else:
                res.fail(rule, file=rel, line=n.line, qualname="Lexer.accept_path", construct=f"{norm(n.node)} after the resync", message=f"`{norm(n.node)}` runs after the closing bracket was skipped (scan pointers synced): the nested variable's span includes the `]` of the enclosing path", what=what)
    res.floor(rule, "nested path stop assignments", n_nested, 1)




def check_scratch_lists(prog: Program, res: Result, rule: str, lm=None) -> None:  # noqa: ANN001
    """A scanner list handed to a token, or whose elements are copied into one (the marker list `self.wc`), is fresh again (rebound to
    `[]` or cleared) on every path from that emission to the end of the state function (C17.R7b = C18.R9)."""
    mod = prog.mod("liquid2/lexer.py")
    lexer = mod.classes.get("Lexer")
    rel = mod.relpath
    if lexer is None:
        raise AnalysisError("Lexer class vanished")
    if lm is None:
        lm = LexerModel(prog, lexer)
    n_hand = 0
    for fi in prog.all_functions():
        if fi.module is not mod or fi.cls is not lexer:
            continue
        hands = []
        for c in ast.walk(fi.node):
            if isinstance(c, ast.Call) and (dotted(c.func) or "").endswith("Token"):
                for k in c.keywords:
                    if k.arg in ("expression", "statements", "whitespace") and isinstance(k.value, ast.Attribute) and isinstance(k.value.value, ast.Name) and k.value.value.id == "self":
                        hands.append((c, k.value.attr))
                    # a scratch list whose elements are copied into the token (wc=(self.wc[0], self.wc[1])): what is left in it is read by the next token
                    elif k.arg == "wc":
                        for x in ast.walk(k.value):
                            if isinstance(x, ast.Subscript) and isinstance(x.value, ast.Attribute) and isinstance(x.value.value, ast.Name) and x.value.value.id == "self" and x.value.attr.islower() and (c, x.value.attr) not in hands:
                                hands.append((c, x.value.attr))
        if not hands:
            continue
        fcfg = lm.cfg(fi.name) if fi.name in lm.methods else CFG(fi.node)
        for c, attr in hands:
            n_hand += 1
            node = next((n for n in fcfg.nodes if n.node is not None and n.kind in ("stmt", "test") and any(x is c for x in ast.walk(n.node))), None)
            site = f"{rel}:{c.lineno} {fi.qualname}"
            what = f"{fi.qualname}: self.{attr} is rebound to a fresh list after it was handed to `{norm(c.func)}`"

            def _rebinds(n, attr=attr):  # noqa: ANN001, ANN202
                nd = getattr(n, "node", None)
                if getattr(n, "kind", "") != "stmt":
                    return False
                if isinstance(nd, ast.Assign) and any(_is_self_attr(t, attr) for t in nd.targets) and isinstance(nd.value, ast.List) and not nd.value.elts:
                    return True
                return isinstance(nd, ast.Expr) and isinstance(nd.value, ast.Call) and isinstance(nd.value.func, ast.Attribute) and nd.value.func.attr == "clear" and _is_self_attr(nd.value.func.value, attr)

            if node is None:
                continue
            # every path from the emission to a normal exit passes a rebinding
            reach_wo = fcfg.reachable(node, avoid=lambda n: n is not node and _rebinds(n))
            exits = [n for n in fcfg.nodes if n.kind == "stmt" and isinstance(n.node, ast.Return)] + [src for src, lab in fcfg.exit.pred if lab != "exc"]
            leak = [e for e in exits if e.id in reach_wo and not _rebinds(e) and e is not node]
            if not leak:
                res.ok(rule, site, what, "fresh list on every path to the function's exits")
            else:
                res.fail(rule, file=rel, line=c.lineno, qualname=fi.qualname, construct=f"{fi.qualname}: self.{attr} handed to {norm(c.func)} and kept", message=f"{fi.qualname} hands self.{attr} to `{norm(c.func)}` and can return (line {leak[0].line}) without rebinding it to a fresh list: the tokens of this markup are also the beginning of the next markup's list", what=what)
    res.floor(rule, "scanner lists handed to tokens", n_hand, 6)

def _known_leaves(test: ast.expr, polarity: bool) -> list[tuple[str, bool]]:
    """Leaf conditions whose truth value is known when *test* evaluated to *polarity* (a conjunction that held, a disjunction that failed)."""
    if isinstance(test, ast.UnaryOp) and isinstance(test.op, ast.Not):
        return _known_leaves(test.operand, not polarity)
    if isinstance(test, ast.BoolOp):
        if (isinstance(test.op, ast.And) and polarity) or (isinstance(test.op, ast.Or) and not polarity):
            out: list[tuple[str, bool]] = []
            for v in test.values:
                out += _known_leaves(v, polarity)
            return out
        return []
    return [(norm(test, 200), polarity)]


def _path_condition_c17(mod, fn: ast.AST, node: ast.AST) -> list[tuple[ast.expr, bool]]:
    from checks.C15 import _path_condition
    return _path_condition(mod, fn, node)


def check_line_model(prog: Program, res: Result, rule: str) -> None:
    """One notion of line break in the offset -> line/column functions of exceptions.py and messages.py, and offsets summed over
    `splitlines(keepends=True)` pieces only (C17.R5 = C15.R10)."""
    n_line_fns = 0
    for mrel in ("liquid2/exceptions.py", "liquid2/messages.py"):
        pm = prog.mod(mrel)
        for fq, fn_ in pm.functions.items():
            uses_split = [c for c in ast.walk(fn_.node) if isinstance(c, ast.Call) and isinstance(c.func, ast.Attribute) and c.func.attr == "splitlines"]
            uses_nl = [c for c in ast.walk(fn_.node) if isinstance(c, ast.Call) and isinstance(c.func, ast.Attribute) and c.func.attr in ("count", "find", "rfind", "index", "rindex", "split", "rsplit", "partition", "rpartition") and c.args and isinstance(c.args[0], ast.Constant) and c.args[0].value in ("\n", "\r\n")]
            if not uses_split and not uses_nl:
                continue
            n_line_fns += 1
            site = f"{mrel}:{fn_.node.lineno} {fq}"
            what = f"{fq}: one line-break model"
            if uses_split and uses_nl:
                res.fail(rule, file=mrel, line=uses_nl[0].lineno, qualname=fq, construct=f"{fq} mixes splitlines() with `{norm(uses_nl[0], 40)}`", message=f"{fq} finds lines with str.splitlines() (which also breaks at \\r, \\x0b, \\x0c, \\x1c-\\x1e, \\x85, \\u2028, \\u2029) and positions with `{norm(uses_nl[0], 40)}`: for a source containing one of those characters the reported line/column and the displayed line disagree", what=what)
            elif uses_nl:
                res.fail(rule, file=mrel, line=uses_nl[0].lineno, qualname=fq, construct=f"{fq} counts '\\n' while its siblings use splitlines()", message=f"{fq} computes positions from '\\n' only, the other position functions use str.splitlines(): line numbers from the two disagree for sources with other line boundaries", what=what)
            else:
                res.ok(rule, site, what, "splitlines() only")
            # offsets accumulated over the lines need the terminators (one or two characters long): keepends=True, nothing added per line
            accum = [a for a in ast.walk(fn_.node) if isinstance(a, ast.AugAssign) and isinstance(a.op, ast.Add) and any(isinstance(c, ast.Call) and isinstance(c.func, ast.Name) and c.func.id == "len" for c in ast.walk(a.value))]
            if uses_split and accum:
                what2 = f"{fq}: character offsets summed over splitlines(keepends=True) pieces only"
                keep = all(any(k.arg == "keepends" and isinstance(k.value, ast.Constant) and k.value.value is True for k in c.keywords) or (c.args and isinstance(c.args[0], ast.Constant) and c.args[0].value is True) for c in uses_split)
                plain = all(isinstance(a.value, ast.Call) for a in accum)
                if keep and plain:
                    res.ok(rule, site, what2, "keepends=True and `+= len(line)`")
                else:
                    res.fail(rule, file=mrel, line=accum[0].lineno, qualname=fq, construct=f"{fq} sums line lengths {'without keepends=True' if not keep else 'plus a constant'}", message=f"{fq} turns a character offset into line/column by summing the lengths of str.splitlines() pieces {'that have lost their terminators' if not keep else 'plus a fixed amount per line'}: a terminator is one or two characters ('\\r\\n'), so for CRLF sources every preceding line shifts the reported column and the position no longer refers to the token", what=what2)
    res.floor(rule, "line/column functions", n_line_fns, 3)

def check_line_searches(prog: Program, res: Result, rule: str) -> None:
    """The three offset -> line searches of liquid2 agree (C17.R8 = C15.R8)."""
    import copy as _copy

    def _line_search(fn: ast.AST) -> tuple[str, str, str] | None:
        """(normalised loop, normalised sentinel initialisations, normalised `line number` expression) of a line search."""
        loops = [n for n in ast.walk(fn) if isinstance(n, ast.For) and isinstance(n.iter, ast.Call) and isinstance(n.iter.func, ast.Name) and n.iter.func.id == "enumerate"]
        if len(loops) != 1:
            return None
        loop = _copy.deepcopy(loops[0])
        # roles: enumerate targets, the accumulator (augmented in the loop), the result index (assigned the enumerate counter)
        names: dict[str, str] = {}
        if isinstance(loop.target, ast.Tuple) and len(loop.target.elts) == 2 and all(isinstance(e, ast.Name) for e in loop.target.elts):
            names[loop.target.elts[0].id] = "I"
            names[loop.target.elts[1].id] = "LINE"
        if isinstance(loop.iter.args[0], ast.Name):
            names[loop.iter.args[0].id] = "LINES"
        for n in ast.walk(loop):
            if isinstance(n, ast.AugAssign) and isinstance(n.target, ast.Name):
                names.setdefault(n.target.id, "ACC")
            if isinstance(n, ast.Assign) and len(n.targets) == 1 and isinstance(n.targets[0], ast.Name) and isinstance(n.value, ast.Name) and names.get(n.value.id) == "I":
                names.setdefault(n.targets[0].id, "FOUND")
        acc = next((k for k, v in names.items() if v == "ACC"), None)
        found = next((k for k, v in names.items() if v == "FOUND"), None)
        if acc is None or found is None:
            return None
        # the offset: the operand compared with the accumulator
        for n in ast.walk(loop):
            if isinstance(n, ast.Compare) and len(n.ops) == 1:
                l_, r_ = n.left, n.comparators[0]
                if isinstance(r_, ast.Name) and r_.id == acc and not (isinstance(l_, ast.Name) and l_.id in names):
                    n.left = ast.Name(id="OFFSET", ctx=ast.Load())
                elif isinstance(l_, ast.Name) and l_.id == acc and not (isinstance(r_, ast.Name) and r_.id in names):
                    n.comparators = [ast.Name(id="OFFSET", ctx=ast.Load())]
        for n in ast.walk(loop):
            if isinstance(n, ast.Name) and n.id in names:
                n.id = names[n.id]
        inits = sorted(f"{names[t.id]} = {norm(a.value)}" for a in ast.walk(fn) if isinstance(a, ast.Assign) and len(a.targets) == 1 and isinstance((t := a.targets[0]), ast.Name) and t.id in (acc, found) and isinstance(a.value, (ast.Constant, ast.UnaryOp)))
        # the reported line: the returned value (first element of a returned tuple), looked through one local
        lineexpr = ""
        for r_ in ast.walk(fn):
            if isinstance(r_, ast.Return) and r_.value is not None and not any(r_ is x for f2 in ast.walk(fn) if isinstance(f2, (ast.FunctionDef, ast.AsyncFunctionDef)) and f2 is not fn for x in ast.walk(f2)):
                v_ = r_.value.elts[0] if isinstance(r_.value, ast.Tuple) and r_.value.elts else r_.value
                if isinstance(v_, ast.Name):
                    defs_ = [a.value for a in ast.walk(fn) if isinstance(a, ast.Assign) and any(isinstance(x, ast.Name) and x.id == v_.id for x in a.targets)]
                    v_ = defs_[0] if len(defs_) == 1 else v_
                v2 = _copy.deepcopy(v_)
                for x in ast.walk(v2):
                    if isinstance(x, ast.Name) and x.id == found:
                        x.id = "FOUND"
                lineexpr = norm(v2)
        return norm(loop, 2000), "; ".join(inits), lineexpr

    sib = []
    for rel_, q_ in (("liquid2/exceptions.py", "LiquidError._error_context"), ("liquid2/messages.py", "line_number"), ("liquid2/messages.py", "line_number_factory.<locals>._line_number")):
        f_ = prog.fn_opt(rel_, q_)
        if f_ is None:
            raise AnalysisError(f"{q_} vanished")
        sib.append((f_, _line_search(f_.node)))
    from collections import Counter as _Counter

    sigs = _Counter(sig for _f, sig in sib if sig is not None)
    major = sigs.most_common(1)[0][0] if sigs else None
    for f_, sig in sib:
        site = f"{f_.file}:{f_.node.lineno} {f_.qualname}"
        what = f"{f_.qualname}: offset -> line search agrees with its siblings"
        if sig is None:
            res.fail(rule, file=f_.file, line=f_.node.lineno, qualname=f_.qualname, construct=f"{f_.qualname}: no enumerate/accumulate line search recognised", message=f"{f_.qualname} no longer finds the line of an offset the way its two siblings do (one loop over enumerate(lines) accumulating lengths): not decided - the three must be kept in step", what=what)
        elif sig == major and sigs[major] >= 2:
            res.ok(rule, site, what, f"{sig[2]} after `{sig[0][:70]}…`")
        else:
            diff = "loop" if major is None or sig[0] != major[0] else ("initial values" if sig[1] != major[1] else "line expression")
            res.fail(rule, file=f_.file, line=f_.node.lineno, qualname=f_.qualname, construct=f"{f_.qualname}: {diff} differs from the sibling line searches", message=f"{f_.qualname} searches the line of an offset differently from its siblings ({diff}: `{(sig[0] if diff == 'loop' else sig[1] if diff == 'initial values' else sig[2])[:90]}` vs `{(major[0] if diff == 'loop' else major[1] if diff == 'initial values' else major[2])[:90] if major else ''}`): error positions and message line numbers for the same token disagree, so at least one does not refer to the construct it describes", what=what)
    # the sentinel: what the search answers when the loop found no line. `found == <initial value>` (that polarity) leads to a raise or
    # to the last line, and to nothing else - negated, every offset that *was* found is moved to the last line / refused
    for f_, _sig in sib:
        loops_ = [n for n in ast.walk(f_.node) if isinstance(n, ast.For) and isinstance(n.iter, ast.Call) and isinstance(n.iter.func, ast.Name) and n.iter.func.id == "enumerate" and prog.enclosing_function(f_.module, n) is f_]
        if len(loops_) != 1:
            continue  # reported above
        found_ = next((a.targets[0].id for a in ast.walk(loops_[0]) if isinstance(a, ast.Assign) and len(a.targets) == 1 and isinstance(a.targets[0], ast.Name) and isinstance(a.value, ast.Name) and isinstance(loops_[0].target, ast.Tuple) and isinstance(loops_[0].target.elts[0], ast.Name) and a.value.id == loops_[0].target.elts[0].id), None)
        init_ = next((a.value for a in ast.walk(f_.node) if isinstance(a, ast.Assign) and len(a.targets) == 1 and isinstance(a.targets[0], ast.Name) and a.targets[0].id == found_ and isinstance(a.value, (ast.Constant, ast.UnaryOp))), None)
        site = f"{f_.file}:{f_.node.lineno} {f_.qualname}"
        what = f"{f_.qualname}: an offset past the last line is refused or put on the last line, and only such an offset"
        if found_ is None or init_ is None:
            continue
        body_ = f_.node.body
        after = body_[body_.index(loops_[0]) + 1:] if loops_[0] in body_ else []
        tests_ = [st for st in after if isinstance(st, ast.If) and found_ in {x.id for x in ast.walk(st.test) if isinstance(x, ast.Name)}]
        lines_name = norm(loops_[0].iter.args[0])
        problem = None
        if len(tests_) != 1:
            problem = f"{len(tests_)} tests of `{found_}` after the loop"
        else:
            t_ = tests_[0]
            if norm(t_.test) != f"{found_} == {norm(init_)}":
                problem = f"the test is `{norm(t_.test, 60)}`, not `{found_} == {norm(init_)}`"
            elif t_.orelse:
                problem = "the sentinel test has an else branch"
            elif not (len(t_.body) == 1 and (isinstance(t_.body[0], ast.Raise) or (isinstance(t_.body[0], ast.Assign) and norm(t_.body[0]) == f"{found_} = len({lines_name}) - 1"))):
                problem = f"the sentinel branch is `{norm(t_.body[0], 60)}`: neither a raise nor `{found_} = len({lines_name}) - 1`"
        # the lines searched are the pieces of the source, with nothing but `or [""]` (an empty source has one empty line) around them
        if problem is None:
            scope_ = f_.node if any(isinstance(a, ast.Assign) and norm(a.targets[0]) == lines_name for a in ast.walk(f_.node)) else next((a for a in f_.module.ancestors(f_.node) if isinstance(a, (ast.FunctionDef, ast.AsyncFunctionDef))), f_.node)
            for a in ast.walk(scope_):
                if isinstance(a, ast.Assign) and len(a.targets) == 1 and norm(a.targets[0]) == lines_name:
                    v_ = a.value
                    if isinstance(v_, ast.BoolOp) and isinstance(v_.op, ast.Or) and len(v_.values) == 2 and norm(v_.values[1]) in ("['']", '[""]'):
                        v_ = v_.values[0]
                    if not (isinstance(v_, ast.Call) and isinstance(v_.func, ast.Attribute) and v_.func.attr == "splitlines"):
                        problem = f"`{lines_name}` is `{norm(a.value, 60)}`, not the splitlines() pieces of the source (or `[\"\"]` for an empty one)"
        if problem:
            res.fail(rule, file=f_.file, line=(tests_[0].lineno if tests_ else f_.node.lineno), qualname=f_.qualname, construct=f"{f_.qualname}: sentinel of the line search mishandled", message=f"{f_.qualname}: {problem} - an offset the loop placed on a line is moved or refused, or an offset past the end indexes lines[{norm(init_)}]: the reported line is not the token's", what=what)
        else:
            res.ok(rule, site, what, f"`if {found_} == {norm(init_)}` -> {'raise' if isinstance(tests_[0].body[0], ast.Raise) else 'last line'}")
    # column = offset - start of the found line
    ec = sib[0][0]
    params = [a.arg for a in ec.node.args.args]
    off = params[2] if len(params) > 2 else "index"
    rets = [r.value for r in ast.walk(ec.node) if isinstance(r, ast.Return) and isinstance(r.value, ast.Tuple) and len(r.value.elts) >= 2]
    what = "_error_context: column = offset - (characters up to the end of the line found - length of that line)"
    okc = False
    for t in rets:
        col = t.elts[1]
        if isinstance(col, ast.Name):
            defs = [a.value for a in ast.walk(ec.node) if isinstance(a, ast.Assign) and any(isinstance(x, ast.Name) and x.id == col.id for x in a.targets)]
            col = defs[0] if len(defs) == 1 else col
        if isinstance(col, ast.BinOp) and isinstance(col.op, ast.Sub) and isinstance(col.left, ast.Name) and col.left.id == off and isinstance(col.right, ast.BinOp) and isinstance(col.right.op, ast.Sub) and isinstance(col.right.left, ast.Name) and isinstance(col.right.right, ast.Call) and norm(col.right.right.func) == "len" and isinstance(col.right.right.args[0], ast.Subscript):
            okc = True
    if okc:
        res.ok(rule, f"{ec.file}:{ec.node.lineno} {ec.qualname}", what, "offset - (accumulated - len(lines[found]))")
    else:
        res.fail(rule, file=ec.file, line=ec.node.lineno, qualname=ec.qualname, construct="column is not offset - start of line", message="_error_context no longer computes the column as the offset minus the start of the line it found: the reported column does not point at the token", what=what)


def check_lexer_progress(prog: Program, res: Result, rule: str) -> None:
    """The lexer's termination argument under another property's id (C02.R12 = C17.R3)."""
    mod = prog.mod("liquid2/lexer.py")
    lexer = mod.classes.get("Lexer")
    if lexer is None:
        raise AnalysisError("Lexer class vanished")
    lm = LexerModel(prog, lexer)
    state_fns = [n for n, f in lexer.methods.items() if f.node.returns is not None and "StateFn" in norm(f.node.returns)]
    progress_rule(prog, res, lexer, lm, state_fns, rule)
