"""C18 - whitespace control changes nothing but whitespace (trim shape, blank flags, carry threading)."""

from __future__ import annotations

import ast

from sa.cfg import CFG
from sa.cfg import forward
from sa.report import AnalysisError
from sa.report import Result
from sa.report import norm
from sa.srcmodel import Program
from sa.srcmodel import dotted

from checks.blank import check_blank_flags
from checks.shared import check_trim_carry_ownership

META = {
    "technique": "strip-closure dataflow on Environment.trim; blank-flag soundness rule over every Node class; sibling "
    "agreement of Parser.parse / Parser.parse_block; carry-ownership typestate over the CFG of every Tag.parse; "
    "exhaustiveness of Content.parse over the markup token classes",
    "level_text": "Decides that trimming can only strip whitespace (every return of Environment.trim is text passed through "
    "strip/lstrip/rstrip with no or a whitespace-literal argument), that a node whose render writes its own text is never "
    "left blank (so suppression removes only whitespace), that the two parser loops thread the trim carry identically, "
    "that every tag's parse enters each block with the carry of the tag immediately before that block, and that the right "
    "trim of text is taken from every kind of following markup. Output equality modulo whitespace across marker "
    "assignments is not decided.",
    "level_note": "Trusts str.strip semantics and the CFG. The claim covers the built-in and Shopify tags found in the registries.",
}
META["technique"] += '; composite blank flags (every rendered child consulted) and single reader of the suppression switch'
META["technique"] += '; unless/if constructor comparator (blank flag)'
META["level_text"] += " Also decided (R2 extensions): a composite node's blank flag consults every child block it renders, and only BlockNode reads the suppression switch or branches on a blank flag, so suppression never skips side effects."

WS_CHARS = set(" \t\r\n\f\v")


def run(prog: Program, res: Result) -> None:  # noqa: PLR0912, PLR0915
    res.explanation = (
        "R1 evaluates Environment.trim symbolically: the returned value must be in the closure of its `text` parameter "
        "under strip-family calls. R2 is the blank-flag rule shared with C01. R3 compares the arms of the two parser loops. "
        "R4 counts, on every path through each Tag.parse, how many tag tokens were consumed since stream.trim_carry was "
        "last set for the current token; entering parse_block with two or more means the block is trimmed by the wrong tag's marker."
    )
    res.not_decided += ["output equality modulo whitespace across all marker assignments (behavioural)", "unicode whitespace classes recognised by str.strip vs the documented set"]
    res.trusted_base += ["str.strip/lstrip/rstrip remove only the given / whitespace characters", "sa.cfg"]
    env = prog.cls("liquid2.environment.Environment")

    # ------------------------------------------------------------------ R1 trim is strip-only
    res.rule("C18.R1", "Environment.trim returns its text argument transformed only by strip/lstrip/rstrip (no argument or a literal of whitespace characters) on every path")
    trim = env.methods.get("trim")
    if trim is None:
        raise AnalysisError("Environment.trim vanished")
    res.analysed_functions.add(trim.fid)
    tparam = [p for p in trim.params() if p != "self"][0]

    def strip_closed(e: ast.AST) -> bool:
        if isinstance(e, ast.Name):
            return e.id == tparam
        if isinstance(e, ast.Call) and isinstance(e.func, ast.Attribute) and e.func.attr in ("strip", "lstrip", "rstrip"):
            if not strip_closed(e.func.value):
                return False
            if e.keywords:
                return False
            if not e.args:
                return True
            return len(e.args) == 1 and isinstance(e.args[0], ast.Constant) and isinstance(e.args[0].value, str) and set(e.args[0].value) <= WS_CHARS
        if isinstance(e, ast.IfExp):
            return strip_closed(e.body) and strip_closed(e.orelse)
        return False

    n_ret = 0
    for n in ast.walk(trim.node):
        if isinstance(n, ast.Return):
            n_ret += 1
            what = f"`{norm(n)}` is text stripped of whitespace only"
            if n.value is not None and strip_closed(n.value):
                res.ok("C18.R1", f"{trim.file}:{n.lineno} Environment.trim", what, "strip-closure of the text parameter")
            else:
                res.fail("C18.R1", file=trim.file, line=n.lineno, qualname="Environment.trim", construct=n, message="trim() can return something other than its text with whitespace stripped: whitespace control would change non-whitespace output", what=what)
        if isinstance(n, ast.Assign) and any(isinstance(t, ast.Name) and t.id == tparam for t in n.targets):
            n_ret += 1
            what = f"`{norm(n)}` keeps text in the strip closure"
            if strip_closed(n.value):
                res.ok("C18.R1", f"{trim.file}:{n.lineno} Environment.trim", what, "strip-family call on text")
            else:
                res.fail("C18.R1", file=trim.file, line=n.lineno, qualname="Environment.trim", construct=n, message="trim() rebinds its text to something other than a strip of it", what=what)
    res.floor("C18.R1", "returns/rebindings in trim", n_ret, 6)
    # each strip acts on the side its marker stands on, with the character set of its mode
    n_side = 0
    for n in ast.walk(trim.node):
        val = n.value if isinstance(n, (ast.Return, ast.Assign)) else None
        if not (isinstance(val, ast.Call) and isinstance(val.func, ast.Attribute) and val.func.attr in ("strip", "lstrip", "rstrip")):
            continue
        sides: set[str] = set()
        mode = None
        for a in trim.module.ancestors(n):
            if isinstance(a, ast.If) and (any(n is x for b in a.body for x in ast.walk(b))):
                names = {x.id for x in ast.walk(a.test) if isinstance(x, ast.Name) and x.id in ("left_trim", "right_trim")}
                sides |= names
                if mode is None:
                    mode = next((x.attr for x in ast.walk(a.test) if isinstance(x, ast.Attribute) and x.attr in ("MINUS", "TILDE", "PLUS", "DEFAULT")), None)
            if a is trim.node:
                break
        if not sides:
            continue
        n_side += 1
        want = "strip" if sides == {"left_trim", "right_trim"} else ("lstrip" if sides == {"left_trim"} else "rstrip")
        arg_ok = (mode == "MINUS" and not val.args) or (mode == "TILDE" and len(val.args) == 1 and isinstance(val.args[0], ast.Constant) and set(val.args[0].value) == {"\r", "\n"}) or mode not in ("MINUS", "TILDE")
        what = f"`{norm(n, 60)}` strips the side of the marker it is selected by ({'/'.join(sorted(sides))} {mode})"
        if val.func.attr == want and arg_ok:
            res.ok("C18.R1", f"{trim.file}:{n.lineno} Environment.trim", what, f"{want}({norm(val.args[0]) if val.args else ''})")
        else:
            res.fail("C18.R1", file=trim.file, line=n.lineno, qualname="Environment.trim", construct=f"{norm(n, 60)} under {'/'.join(sorted(sides))} == {mode}", message=f"under a test on {'/'.join(sorted(sides))} ({mode}) trim() applies `{val.func.attr}({norm(val.args[0]) if val.args else ''})`, expected `{want}` with the {mode} character set: the marker trims whitespace on the wrong side of the text (next to markup that carries no marker) or the wrong characters", what=what)
    res.floor("C18.R1", "side-selected strips in trim", n_side, 6)
    # with no trimming in force (PLUS on both sides) the text is returned unchanged: a `return text` path exists for equal non-MINUS/TILDE modes
    what = "trim(): with equal left/right modes other than MINUS/TILDE the text is returned unchanged"
    txt = norm(trim.node, 5000)
    if "if left_trim == right_trim:" in txt and "return text" in txt:
        res.ok("C18.R1", f"{trim.file}:{trim.node.lineno} Environment.trim", what, "return text")
    else:
        res.fail("C18.R1", file=trim.file, line=trim.node.lineno, qualname="Environment.trim", construct="no verbatim path", message="there is no path on which trim() reproduces text character for character", what=what)
    # users of trim pass author text and markers only
    n_use = 0
    for mod in prog.modules.values():
        for c in ast.walk(mod.tree):
            if isinstance(c, ast.Call) and isinstance(c.func, ast.Attribute) and c.func.attr == "trim" and norm(c.func.value).endswith("env"):
                n_use += 1
                fi = prog.enclosing_function(mod, c)
                what = f"`{norm(c, 70)}` trims node text with token markers"
                a = [norm(x) for x in c.args]
                ok = len(a) == 3 and (a[0] in ("self.text", "token.text")) and all(("trim" in x or "wc[" in x) for x in a[1:])
                if ok:
                    res.ok("C18.R1", f"{mod.relpath}:{c.lineno} {fi.qualname if fi else ''}", what, ", ".join(a))
                else:
                    res.fail("C18.R1", file=mod.relpath, line=c.lineno, qualname=fi.qualname if fi else "", construct=c, message="env.trim called with something other than (node text, left marker, right marker)", what=what)
    res.floor("C18.R1", "env.trim call sites", n_use, 2)

    # ------------------------------------------------------------------ R2 blank flags
    res.rule("C18.R2", "blank-flag soundness: a node class whose render writes its own text (not only child output) sets self.blank from that text or to False - suppression of blank blocks never removes output")
    check_blank_flags(prog, res, "C18.R2")

    # ------------------------------------------------------------------ R3 sibling loops
    res.rule("C18.R3", "Parser.parse and Parser.parse_block thread the trim carry identically: same arms, markup arms take left_trim from token.wc[-1], content resets it, the tag arm sets stream.trim_carry before dispatch and reads it after; Content.parse takes the right trim from every kind of markup token")
    from checks.shared import check_parser_trim_threading

    check_parser_trim_threading(prog, res, "C18.R3")
    from checks.shared import check_content_right_trim

    check_content_right_trim(prog, res, "C18.R3")

    # ------------------------------------------------------------------ R4 carry ownership
    res.rule("C18.R4", "in every Tag.parse, each parse_block is entered with the trim carry of the tag immediately before that block (at most one tag token consumed since the carry was set)")
    res.rule("C18.R4b", "every block tag's parse hands the parser the trim carry of the tag the stream is left on: on every path to a return the last carry event is the closing parse_block (which records the end tag's marker) or an explicit store, with no tag consumed since")
    check_trim_carry_ownership(prog, res, "C18.R4", exit_rule="C18.R4b")
    # the dispatcher refreshes the carry for every tag it dispatches (R3 arm check) and parse_block leaves it set for the end tag

    # raw text is trimmed (when inner whitespace control is on) by the two markers adjacent to it
    rawtag = prog.cls("liquid2.builtin.tags.raw_tag.RawTag").methods.get("parse")
    if rawtag is None:
        raise AnalysisError("RawTag.parse vanished")
    trims = [c for c in ast.walk(rawtag.node) if isinstance(c, ast.Call) and isinstance(c.func, ast.Attribute) and c.func.attr == "trim" and len(c.args) == 3]
    res.floor("C18.R1", "trim calls in RawTag.parse", len(trims), 1)
    for c in trims:
        idx = []
        for a in c.args[1:]:
            idx.append(a.slice.value if isinstance(a, ast.Subscript) and isinstance(a.value, ast.Attribute) and a.value.attr == "wc" and isinstance(a.slice, ast.Constant) else None)
        what = "RawTag.parse trims the raw text with the markers next to it: wc[1] (after `raw`) on the left, wc[2] (before `endraw`) on the right"
        if idx == [1, 2]:
            res.ok("C18.R1", f"{rawtag.file}:{c.lineno} RawTag.parse", what, norm(c, 70))
        else:
            res.fail("C18.R1", file=rawtag.file, line=c.lineno, qualname="RawTag.parse", construct=f"raw text trimmed with wc{idx}", message=f"RawTag.parse trims the raw text with markers {idx} of {{%(0) raw (1)%}}…{{%(2) endraw (3)%}}: a marker that is not adjacent to the raw text trims it", what=what)

    # the markers a token carries are in source order: element i of its wc tuple is the i-th marker recorded / matched
    n_wc = 0
    lx = prog.mod("liquid2/lexer.py")
    for c in ast.walk(lx.tree):
        if not (isinstance(c, ast.Call) and (dotted(c.func) or "").endswith("Token")):
            continue
        wcv = next((k.value for k in c.keywords if k.arg == "wc"), None)
        if not isinstance(wcv, ast.Tuple):
            continue
        for i, el in enumerate(wcv.elts):
            pos = None
            if isinstance(el, ast.Subscript) and norm(el.value) == "self.wc" and isinstance(el.slice, ast.Constant) and isinstance(el.slice.value, int):
                pos = el.slice.value
            else:
                g = next((x for x in ast.walk(el) if isinstance(x, ast.Call) and isinstance(x.func, ast.Attribute) and x.func.attr == "group" and x.args and isinstance(x.args[0], ast.Constant) and isinstance(x.args[0].value, str)), None)
                if g is not None and g.args[0].value[-1:].isdigit():
                    pos = int(g.args[0].value[-1])
            if pos is None:
                continue
            n_wc += 1
            fi_ = prog.enclosing_function(lx, c)
            q_ = fi_.qualname if fi_ else "<module>"
            what = f"{q_}: marker {i} of `{norm(c.func)}` is the marker written at position {i}"
            if pos == i:
                res.ok("C18.R1", f"{lx.relpath}:{c.lineno} {q_}", what, norm(el, 50))
            else:
                res.fail("C18.R1", file=lx.relpath, line=c.lineno, qualname=q_, construct=f"{norm(c.func)}: wc[{i}] taken from marker {pos}", message=f"{q_} builds `{norm(c.func)}` whose marker {i} is `{norm(el, 50)}` - the marker written at position {pos} of the markup: a whitespace-control marker then trims text on the other side of the tag", what=what)
    res.floor("C18.R1", "positional markers in token constructions", n_wc, 12)

    # ------------------------------------------------------------------ R6 token boundaries are markup boundaries
    res.rule("C18.R7", "the trim mode and blank-block suppression in force are those of the Environment that renders: default_trim is applied when text is parsed and rendered through template.env, so a caching loader shared by two environments must hand a cached template only to the Environment it was parsed for - unconditionally, sync and async (shared with C14.R5 / C04.S5): otherwise an environment with no trimming in force reproduces text trimmed under another environment's default")
    from checks.shared import check_cache_hit_environment

    check_cache_hit_environment(prog, res, "C18.R7")
    res.rule("C18.R9", "markers belong to the markup they were written on: the lexer's scratch list of markers (`self.wc`), whose elements are copied into each token, is empty again on every path from that emission to the end of the state function - a marker left behind becomes the left marker of the next tag or output and trims text the author never marked (shared with C17.R7b)")
    from checks.C17 import check_scratch_lists

    check_scratch_lists(prog, res, "C18.R9")
    res.rule("C18.R6", "no pattern of the lexer uses the `$` anchor (it also matches before a final newline): text is split into content tokens only at markup openers and at the absolute end of input (\\Z), so the whitespace a marker acts on never depends on a lexing artefact")
    import re._parser as _sp

    lexer_cls = prog.mod("liquid2/lexer.py").classes.get("Lexer")
    if lexer_cls is None:
        raise AnalysisError("Lexer class vanished")

    def _has_dollar(items) -> bool:  # noqa: ANN001
        for op, av in items:
            if str(op) == "AT" and str(av) == "AT_END":
                return True
            stack = [av]
            while stack:
                x = stack.pop()
                if isinstance(x, _sp.SubPattern):
                    if _has_dollar(x.data):
                        return True
                elif isinstance(x, (tuple, list)):
                    stack.extend(x)
        return False

    n_pat = 0
    for name, v in sorted(lexer_cls.class_attrs.items()):
        pats: list[tuple[str, str, int]] = []
        if isinstance(v, ast.Call) and norm(v.func) == "re.compile" and v.args:
            pats.append((name, "".join(a.value for a in ast.walk(v.args[0]) if isinstance(a, ast.Constant) and isinstance(a.value, str)), v.lineno))
        elif isinstance(v, ast.Dict):
            for k, val in zip(v.keys, v.values):
                pat = "".join(a.value for a in ast.walk(val) if isinstance(a, ast.Constant) and isinstance(a.value, str))
                if pat and isinstance(k, ast.Constant):
                    pats.append((f"{name}[{k.value!r}]", pat, val.lineno))
        for label, pat, line in pats:
            try:
                parsed = _sp.parse(pat)
            except Exception:  # noqa: BLE001
                continue  # not a regular expression (e.g. a keyword table)
            n_pat += 1
            what = f"Lexer.{label} has no `$` anchor"
            if _has_dollar(parsed.data):
                res.fail("C18.R6", file=lexer_cls.file, line=line, qualname=f"Lexer.{label}", construct=f"`$` in Lexer.{label}", message=f"Lexer.{label} contains the `$` anchor, which also matches before a trailing newline: a final '\\n' becomes a token of its own that the preceding markup's whitespace-control marker does not reach ('{{{{ v -}}}} \\n' keeps its newline, '{{{{ v -}}}}\\n' does not)", what=what)
            else:
                res.ok("C18.R6", f"{lexer_cls.file}:{line} Lexer.{label}", what, "only \\Z / look-ahead on markup openers")
    res.floor("C18.R6", "lexer patterns parsed", n_pat, 20)

    # ------------------------------------------------------------------ R8 every marker position accepts every marker
    res.rule("C18.R8", "every whitespace-control position of every markup pattern accepts exactly the markers WC_MAP knows (`-`, `+`, `~`, or none): a marker class that lacks one turns `{%~ # … %}` into literal text, so replacing one marker by another changes more than whitespace (character classes of the groups named *WC*, read with re._parser, compared with the keys of Lexer.WC_MAP)")
    wc_map = lexer_cls.class_attrs.get("WC_MAP")
    if not isinstance(wc_map, ast.Dict):
        raise AnalysisError("Lexer.WC_MAP vanished")
    markers = {k.value for k in wc_map.keys if isinstance(k, ast.Constant) and isinstance(k.value, str) and k.value}
    n_wc = 0

    def _marker_groups(items, groupnames: dict[int, str]):  # noqa: ANN001, ANN202
        """(group name, set of accepted characters, optional?) for every named group whose name mentions WC."""
        for op, av in items:
            o = str(op)
            if o == "SUBPATTERN":
                gid, _a, _b, sub = av
                nm = groupnames.get(gid, "")
                if "WC" in nm.upper():
                    chars: set[str] = set()
                    optional = False
                    for op2, av2 in sub.data:
                        o2 = str(op2)
                        rep = av2[2].data if o2 in ("MAX_REPEAT", "MIN_REPEAT") else None
                        if rep is not None and av2[0] == 0:
                            optional = True
                        for op3, av3 in rep if rep is not None else [(op2, av2)]:
                            if str(op3) == "IN":
                                chars |= {chr(x[1]) for x in av3 if str(x[0]) == "LITERAL"}
                            elif str(op3) == "LITERAL":
                                chars.add(chr(av3))
                    yield nm, chars, optional
                yield from _marker_groups(sub.data, groupnames)
            elif o in ("MAX_REPEAT", "MIN_REPEAT"):
                yield from _marker_groups(av[2].data, groupnames)
            elif o == "BRANCH":
                for alt in av[1]:
                    yield from _marker_groups(alt.data, groupnames)
            elif o in ("ASSERT", "ASSERT_NOT"):
                yield from _marker_groups(av[1].data, groupnames)

    for name, v in sorted(lexer_cls.class_attrs.items()):
        pats2: list[tuple[str, str, int]] = []
        if isinstance(v, ast.Call) and norm(v.func) == "re.compile" and v.args:
            pats2.append((name, "".join(a.value for a in ast.walk(v.args[0]) if isinstance(a, ast.Constant) and isinstance(a.value, str)), v.lineno))
        elif isinstance(v, ast.Dict):
            for k, val in zip(v.keys, v.values):
                pat = "".join(a.value for a in ast.walk(val) if isinstance(a, ast.Constant) and isinstance(a.value, str))
                if pat and isinstance(k, ast.Constant):
                    pats2.append((f"{name}[{k.value!r}]", pat, val.lineno))
        for label, pat, line in pats2:
            try:
                parsed = _sp.parse(pat)
            except Exception:  # noqa: BLE001
                continue
            names = {gid: nm for nm, gid in parsed.state.groupdict.items()}
            for gname, chars, optional in _marker_groups(parsed.data, names):
                n_wc += 1
                what = f"Lexer.{label}: marker group {gname} accepts {sorted(markers)} or nothing"
                if chars == markers and optional:
                    res.ok("C18.R8", f"{lexer_cls.file}:{line} Lexer.{label}", what, f"[{''.join(sorted(chars))}]?")
                else:
                    res.fail("C18.R8", file=lexer_cls.file, line=line, qualname=f"Lexer.{label}", construct=f"Lexer.{label}: marker group {gname} accepts {sorted(chars)}{'' if optional else ' (not optional)'}", message=f"the whitespace-control position {gname} of Lexer.{label} accepts {sorted(chars)}{'' if optional else ' and is not optional'} where WC_MAP knows {sorted(markers)}: markup written with a missing marker is not recognised as markup at all and comes out as literal text", what=what)
    res.floor("C18.R8", "marker groups in the lexer's patterns", n_wc, 10)

    res.rule("C18.R10", "the blank flag of `unless` is computed like that of `if` (consequence, every alternative and the default): UnlessNode.__init__ equals IfNode.__init__ after renaming")
    from checks.shared import check_unless_mirrors_if

    check_unless_mirrors_if(prog, res, "C18.R10", only=("__init__",))

    # ------------------------------------------------------------------ R5 text is carried character for character
    res.rule("C18.R5", "with no trimming in force literal text is reproduced character for character: neither the output buffers nor the loaders' file reads translate line endings (shared with C06.R2 / C20.R5)")
    from checks.shared import check_newline_transparency

    check_newline_transparency(prog, res, "C18.R5")
