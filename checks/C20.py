"""C20 - literals denote exactly what is written; json output decodes to its input (conversion paths + tables)."""

from __future__ import annotations

import ast

from sa.report import AnalysisError
from sa.report import Result
from sa.report import norm
from sa.srcmodel import FunctionInfo
from sa.srcmodel import Program
from sa.srcmodel import dotted
from sa.util import region_when_true

META = {
    "technique": "def-use lint on integer-literal construction (no float() on the path), table agreement between the lexer's "
    "escape set and the decoder's case chain, sibling agreement over every string-literal parse site (each decodes, "
    "single-quoted ones with the \\' replacement), shape check of the json filter",
    "level_text": "Decides the conversion paths and tables the round trip depends on: integer literals never pass through "
    "float(); the set of escapes the three lexer string scanners accept equals the set unescape() decodes; every site "
    "that turns a quoted-string token into a value applies unescape() (plus the single-quote replacement); quoted path "
    "segments are decoded; the json filter returns json.dumps of its untouched input. The arithmetic of unescape() "
    "itself (surrogates, code points) and float spellings are value-level and not decided.",
    "level_note": "Trusts json.dumps/json.loads round-tripping for JSON-like values and Python int arithmetic.",
}
META["technique"] += '; newline-mode audit of every output buffer construction (shared with C06.R2)'
META["technique"] += '; decoded-use rule for tokens admitted as quoted strings by a `.type_` comparison; integer-exactness rule on the math filters'
META["technique"] += '; sibling comparator decrement / increment; provenance of values handed to to_liquid_string in render methods'
META["technique"] += '; integer literals built by int_literal() only'
META["level_text"] += ' Also decided (R5): no output buffer is built with a newline mode that rewrites CR/CRLF.'

DECODERS = {"parse_string_or_identifier", "parse_string_or_path", "parse_primitive", "parse_boolean_primitive"}


def _quote_kinds(test: ast.AST) -> dict[str, set[str]]:
    """variable -> {'SINGLE','DOUBLE'} tested positively by is_token_type(var, TokenType.X_QUOTE_STRING)."""
    out: dict[str, set[str]] = {}
    for c in ast.walk(test):
        if isinstance(c, ast.Call) and (dotted(c.func) or "") == "is_token_type" and len(c.args) == 2 and isinstance(c.args[0], ast.Name):
            t = dotted(c.args[1]) or ""
            if t.endswith("SINGLE_QUOTE_STRING"):
                out.setdefault(c.args[0].id, set()).add("SINGLE")
            elif t.endswith("DOUBLE_QUOTE_STRING"):
                out.setdefault(c.args[0].id, set()).add("DOUBLE")
    return out


def run(prog: Program, res: Result) -> None:  # noqa: PLR0912, PLR0915
    res.explanation = (
        "R1 follows the value argument of every IntegerLiteral(...) construction back through local assignments and helper "
        "calls looking for float(). R2 extracts Lexer.ESCAPES, the `if ch == …` chain of _decode_escape_sequence and the "
        "escape tests of the lexer's string scanners and compares them as sets. R3 finds every branch guarded by "
        "is_token_type(tok, TokenType.*_QUOTE_STRING) outside the lexer and requires each use of tok.value in it to sit "
        "inside unescape(...), with .replace(\"\\\\'\", \"'\") for single quotes, or tok to be handed to a decoding helper."
    )
    res.not_decided += ["the surrogate-pair / code-point arithmetic inside unescape()", "float literal spellings (value-level)", "round trip over all strings as behaviour"]
    res.trusted_base += ["json.dumps / json.loads", "Python int arithmetic is exact"]
    ex = prog.mod("liquid2/builtin/expressions.py")

    # ------------------------------------------------------------------ R1
    res.rule("C20.R1", "the value of an IntegerLiteral never derives from float(...)")
    n_int = 0
    for mod in prog.modules.values():
        for c in ast.walk(mod.tree):
            if isinstance(c, ast.Call) and (dotted(c.func) or "").split(".")[-1] == "IntegerLiteral":
                fi = prog.enclosing_function(mod, c)
                if fi is None:
                    continue
                n_int += 1
                val = c.args[1] if len(c.args) > 1 else next((k.value for k in c.keywords if k.arg == "value"), None)
                site = f"{mod.relpath}:{c.lineno} {fi.qualname}"
                what = f"`{norm(c, 70)}` converts the token text exactly"
                bad = _float_on_path(prog, fi, val, 0)
                # to_int() is the converter for *data* (it accepts what a float or a numeric string may hold); a literal's text goes through int_literal()
                if not bad and val is not None and any(isinstance(x, ast.Call) and (dotted(x.func) or "").split(".")[-1] == "to_int" for x in ast.walk(val)):
                    bad = "to_int(…): the data converter, not int_literal()"
                if bad:
                    res.fail("C20.R1", file=mod.relpath, line=c.lineno, qualname=fi.qualname, construct=c, message=f"integer literal value passes through `{bad}`: integers above 2**53 change value and `1e400` overflows", what=what)
                else:
                    res.ok("C20.R1", site, what, "no float() on the conversion path")
    res.floor("C20.R1", "IntegerLiteral constructions", n_int, 2)

    # ------------------------------------------------------------------ R2 tables
    res.rule("C20.R2", "lexer ESCAPES == characters decoded by _decode_escape_sequence minus the double quote; every lexer string scanner tests `peeked in self.ESCAPES or peeked == quote`")
    lexer = prog.cls("liquid2.lexer.Lexer")
    esc_expr = lexer.class_attrs.get("ESCAPES")
    if esc_expr is None:
        raise AnalysisError("Lexer.ESCAPES vanished")
    escapes = {x.value for x in ast.walk(esc_expr) if isinstance(x, ast.Constant) and isinstance(x.value, str)}
    dec = prog.fn("liquid2/unescape.py", "_decode_escape_sequence")
    decoded: set[str] = set()
    for n in ast.walk(dec.node):
        if isinstance(n, ast.If) and isinstance(n.test, ast.Compare) and norm(n.test.left) == "ch" and isinstance(n.test.ops[0], ast.Eq) and isinstance(n.test.comparators[0], ast.Constant):
            if any(isinstance(x, ast.Return) for x in n.body):
                decoded.add(n.test.comparators[0].value)
        if isinstance(n, ast.Match):
            for case in n.cases:
                for x in ast.walk(case.pattern):
                    if isinstance(x, ast.MatchValue) and isinstance(x.value, ast.Constant):
                        decoded.add(x.value.value)
    res.floor("C20.R2", "decoded escape characters", len(decoded), 8)
    what = "ESCAPES ∪ {'\"'} == set decoded by _decode_escape_sequence"
    if escapes | {'"'} == decoded:
        res.ok("C20.R2", f"{lexer.file}:{esc_expr.lineno} Lexer.ESCAPES", what, f"{sorted(escapes)}")
    else:
        only_lex = sorted(escapes - decoded)
        only_dec = sorted(decoded - escapes - {'"'})
        res.fail("C20.R2", file=lexer.file, line=esc_expr.lineno, qualname="Lexer.ESCAPES", construct=f"lexer-only {only_lex}, decoder-only {only_dec}", message=f"escape tables disagree: the lexer accepts {only_lex} that unescape() rejects; unescape() decodes {only_dec} that the lexer rejects", what=what)
    # decoded values
    expect = {"b": "\x08", "f": "\x0c", "n": "\n", "r": "\r", "t": "\t", "/": "/", "\\": "\\", '"': '"', "$": "$"}
    got: dict[str, object] = {}
    for n in ast.walk(dec.node):
        if isinstance(n, ast.If) and isinstance(n.test, ast.Compare) and norm(n.test.left) == "ch" and isinstance(n.test.comparators[0], ast.Constant):
            for x in n.body:
                if isinstance(x, ast.Return) and isinstance(x.value, ast.Tuple) and isinstance(x.value.elts[0], ast.Constant):
                    got[n.test.comparators[0].value] = x.value.elts[0].value
    for k, v in expect.items():
        what = f"escape \\{k} decodes to {v!r}"
        if got.get(k) == v:
            res.ok("C20.R2", f"{dec.file}:{dec.node.lineno} _decode_escape_sequence", what, "constant matches the documented meaning")
        else:
            res.fail("C20.R2", file=dec.file, line=dec.node.lineno, qualname="_decode_escape_sequence", construct=f"\\{k} -> {got.get(k)!r}", message=f"escape \\{k} decodes to {got.get(k)!r}, expected {v!r}", what=what)
    n_scan = 0
    for name, m in lexer.methods.items():
        tests = [n for n in ast.walk(m.node) if isinstance(n, ast.If) and "peeked" in norm(n.test) and "ESCAPES" in norm(n.test)]
        for t in tests:
            n_scan += 1
            what = f"Lexer.{name}: escape test is `peeked in self.ESCAPES or peeked == quote`"
            core = t.test.operand if isinstance(t.test, ast.UnaryOp) and isinstance(t.test.op, ast.Not) else t.test
            if norm(core) in ("peeked in self.ESCAPES or peeked == quote", "peeked == quote or peeked in self.ESCAPES"):
                res.ok("C20.R2", f"{m.file}:{t.lineno} Lexer.{name}", what, "accepts exactly ESCAPES and the closing quote")
            else:
                res.fail("C20.R2", file=m.file, line=t.lineno, qualname=f"Lexer.{name}", construct=t.test, message="string scanner accepts a different escape set than the other scanners / the decoder", what=what)
    res.floor("C20.R2", "lexer string scanners with an escape test", n_scan, 2)
    # every backslash branch of a scanner consumes the escaped char
    # unescape(): a backslash always goes through _decode_escape_sequence
    un = prog.fn("liquid2/unescape.py", "unescape")
    what = "unescape(): every backslash is decoded by _decode_escape_sequence; other characters are kept"
    txt = norm(un.node, 3000)
    if "if ch == '\\\\':" in txt and "_decode_escape_sequence(value, index, token)" in txt and "unescaped.append(ch)" in txt and "return ''.join(unescaped)" in txt:
        res.ok("C20.R2", f"{un.file}:{un.node.lineno} unescape", what, "loop shape intact")
    else:
        res.fail("C20.R2", file=un.file, line=un.node.lineno, qualname="unescape", construct="unescape loop shape", message="unescape() no longer decodes every backslash / keeps other characters verbatim", what=what)

    # ------------------------------------------------------------------ R3 every literal site decodes
    res.rule("C20.R3", "every branch guarded by is_token_type(tok, *_QUOTE_STRING) outside the lexer uses tok.value only inside unescape(...) (with the \\' replacement for single quotes) or hands tok to a decoding helper")
    n_sites = 0
    for mod in prog.modules.values():
        if mod.relpath in ("liquid2/lexer.py", "liquid2/exceptions.py", "liquid2/token.py"):
            continue
        for node in ast.walk(mod.tree):
            if not isinstance(node, ast.If):
                continue
            kinds = _quote_kinds(node.test)
            if not kinds:
                continue
            region = region_when_true(mod, node)  # the branch taken when the token is a quoted string
            fi = prog.enclosing_function(mod, node)
            q = fi.qualname if fi else "<module>"
            for var, ks in kinds.items():
                n_sites += 1
                site = f"{mod.relpath}:{node.lineno} {q}"
                what = f"branch on {var} ∈ {sorted(ks)}_QUOTE_STRING decodes {var}.value"
                uses = [a for b in region for a in ast.walk(b) if isinstance(a, ast.Attribute) and a.attr == "value" and isinstance(a.value, ast.Name) and a.value.id == var]
                handed = [c for b in region for c in ast.walk(b) if isinstance(c, ast.Call) and any(isinstance(x, ast.Name) and x.id == var for x in c.args) and (dotted(c.func) or "").split(".")[-1] in DECODERS]
                problems = []
                for u in uses:
                    inside_unescape = False
                    replaced = False
                    for a in mod.ancestors(u):
                        if isinstance(a, ast.Call) and (dotted(a.func) or "").split(".")[-1] == "unescape":
                            inside_unescape = True
                            break
                        if isinstance(a, ast.Call) and isinstance(a.func, ast.Attribute) and a.func.attr == "replace" and [norm(x) for x in a.args] == ['"\\\\\'"', '"\'"']:
                            replaced = True
                        if isinstance(a, ast.Call) and isinstance(a.func, ast.Attribute) and a.func.attr == "replace" and len(a.args) == 2 and isinstance(a.args[0], ast.Constant) and a.args[0].value == "\\'" and isinstance(a.args[1], ast.Constant) and a.args[1].value == "'":
                            replaced = True
                        if a is node:
                            break
                    if not inside_unescape:
                        problems.append(f"`{norm(mod.parent(u), 60)}` uses {var}.value without unescape()")
                    elif "SINGLE" in ks and ks == {"SINGLE"} and not replaced:
                        problems.append(f"single-quoted `{var}.value` is decoded without replacing \\' first")
                    elif "SINGLE" in ks and "DOUBLE" in ks and not replaced:
                        problems.append(f"`{var}.value` may be single-quoted but \\' is not replaced before unescape()")
                if not uses and not handed:
                    # the branch neither reads the text nor delegates: e.g. only checks the kind
                    reads_token = any(isinstance(x, ast.Name) and x.id == var for b in region for x in ast.walk(b))
                    if reads_token:
                        # passes the token on to something that is not a known decoder
                        calls = [c for b in region for c in ast.walk(b) if isinstance(c, ast.Call) and any(isinstance(x, ast.Name) and x.id == var for x in list(c.args) + [k.value for k in c.keywords])]
                        non_ctor = [c for c in calls if (dotted(c.func) or "").split(".")[-1] not in DECODERS and not _is_token_only_use(c, var)]
                        if non_ctor:
                            problems.append(f"{var} is passed to `{norm(non_ctor[0].func)}` which is not a decoding helper")
                if problems:
                    res.fail("C20.R3", file=mod.relpath, line=node.lineno, qualname=q, construct=f"{var} in {sorted(ks)}: {problems[0]}", message=f"a quoted string literal is turned into a value without decoding its escapes: {problems[0]}", what=what)
                else:
                    res.ok("C20.R3", site, what, "unescape() applied" + (" after the \\' replacement" if "SINGLE" in ks else "") if uses else "delegated to a decoding helper")
    res.floor("C20.R3", "quoted-string parse sites", n_sites, 10)
    # R3b: the same, for kinds admitted by a comparison on `.type_` (`tok.type_ in (WORD, SINGLE_QUOTE_STRING, …)`) instead of is_token_type()
    n3b = 0
    for mod in prog.modules.values():
        if mod.relpath in ("liquid2/lexer.py", "liquid2/exceptions.py", "liquid2/token.py"):
            continue
        for fi in mod.functions.values():
            admitted: dict[str, ast.AST] = {}
            for c in ast.walk(fi.node):
                if isinstance(c, ast.Compare) and isinstance(c.left, ast.Attribute) and c.left.attr == "type_" and isinstance(c.left.value, ast.Name) and any("_QUOTE_STRING" in norm(x, 400) for x in c.comparators):
                    admitted[c.left.value.id] = c
            for var, cmp_ in admitted.items():
                n3b += 1
                # the statements that run when the token was admitted: the body of `if tok.type_ in (…)`, or what follows `if tok.type_ not in (…): raise`
                holder = next((a for a in mod.ancestors(cmp_) if isinstance(a, ast.If)), None)
                if holder is None or not any(x is cmp_ for x in ast.walk(holder.test)):
                    continue
                admit_true = isinstance(cmp_.ops[0], (ast.In, ast.Eq))
                if isinstance(holder.test, ast.UnaryOp) and isinstance(holder.test.op, ast.Not):
                    admit_true = not admit_true
                if admit_true:
                    region3 = list(holder.body)
                else:
                    region3 = list(holder.orelse)
                    if holder.body and isinstance(holder.body[-1], (ast.Return, ast.Raise, ast.Continue, ast.Break)):
                        par = mod.parent(holder)
                        for fld in ("body", "orelse", "finalbody"):
                            b_ = getattr(par, fld, None)
                            if isinstance(b_, list) and holder in b_:
                                region3 += b_[b_.index(holder) + 1 :]
                uses = [a for st_ in region3 for a in ast.walk(st_) if isinstance(a, ast.Attribute) and a.attr == "value" and isinstance(a.value, ast.Name) and a.value.id == var]
                raw = []
                for u in uses:
                    ok = False
                    for a in mod.ancestors(u):
                        if isinstance(a, ast.Call) and (dotted(a.func) or "").split(".")[-1] == "unescape":
                            ok = True
                            break
                        if isinstance(a, ast.Raise):
                            ok = True  # an error message quoting the token
                            break
                        if a is fi.node:
                            break
                    if not ok:
                        raw.append(u)
                what = f"{fi.qualname}: {var}.value of a token admitted as a quoted string is decoded"
                if raw:
                    res.fail("C20.R3", file=mod.relpath, line=raw[0].lineno, qualname=fi.qualname, construct=f"{fi.qualname}: `{var}.value` of a possibly quoted token used undecoded", message=f"{fi.qualname} admits a quoted string token (`{norm(cmp_, 70)}`) and then uses `{norm(mod.parent(raw[0]), 60)}` - the raw text between the quotes, escapes and all: `\"a\\u0062\"` names something else than `ab`; the sibling sites go through parse_string_or_identifier / unescape()", what=what)
                else:
                    res.ok("C20.R3", f"{mod.relpath}:{cmp_.lineno} {fi.qualname}", what, "no undecoded use")
    res.stats["type_compare_sites"] = n3b
    # quoted path segments: Path.__init__ decodes str segments; lexer replaces \' for single-quoted segments
    path_cls = prog.cls("liquid2.builtin.expressions.Path")
    pinit = path_cls.methods.get("__init__")
    what = "Path.__init__ decodes every string segment with unescape()"
    ok = False
    if pinit is not None:
        for n in ast.walk(pinit.node):
            if isinstance(n, ast.If) and norm(n.test) == "isinstance(segment, str)":
                # every value stored for a string segment is the decoded one - on every arm of a conditional expression, under no further test
                def _decoded(e: ast.AST) -> bool:
                    if isinstance(e, ast.IfExp):
                        return _decoded(e.body) and _decoded(e.orelse)
                    return isinstance(e, ast.Call) and (dotted(e.func) or "") == "unescape" and bool(e.args) and norm(e.args[0]) == "segment"

                stores = [c for b in n.body for c in ast.walk(b) if isinstance(c, ast.Call) and isinstance(c.func, ast.Attribute) and c.func.attr in ("append", "insert", "extend") and norm(c.func.value) == "self.path" and c.args]
                top = [b.value for b in n.body if isinstance(b, ast.Expr)]
                ok = bool(stores) and all(_decoded(c.args[-1]) for c in stores) and all(c in top for c in stores)
    if ok:
        res.ok("C20.R3", f"{path_cls.file}:{pinit.node.lineno} Path.__init__", what, "self.path.append(unescape(segment, token))")
    else:
        res.fail("C20.R3", file=path_cls.file, line=pinit.node.lineno if pinit else 0, qualname="Path.__init__", construct="string path segments not decoded", message="bracketed string path segments are not decoded", what=what)
    ap = lexer.methods.get("accept_path")
    what = "Lexer.accept_path replaces \\' in single-quoted segments and keeps double-quoted ones verbatim for unescape()"
    txt = norm(ap.node, 20000) if ap else ""
    if "if quote == '\"':" in txt and ".replace(\"\\\\'\", \"'\")" in txt:
        res.ok("C20.R3", f"{lexer.file}:{ap.node.lineno} Lexer.accept_path", what, "quote-dependent handling present")
    else:
        res.fail("C20.R3", file=lexer.file, line=ap.node.lineno if ap else 0, qualname="Lexer.accept_path", construct="quoted segment handling", message="quoted path segments lose the single-quote replacement", what=what)

    # ------------------------------------------------------------------ R4 json
    res.rule("C20.R4", "the json filter returns json.dumps(<left>, default=self.default, indent=…, allow_nan=False) of its untouched input (nothing that is not JSON is emitted)")
    filters, _ = prog.registries()
    n_json = 0
    for _n, target, _v, _m in filters.get("json", []):
        call = prog.find_method(target, "__call__") if hasattr(target, "methods") else (target if isinstance(target, FunctionInfo) else None)
        if call is None:
            continue
        n_json += 1
        left = [p for p in call.params() if p != "self"][0]
        rets = [r.value for r in ast.walk(call.node) if isinstance(r, ast.Return) and r.value is not None]
        what = "json filter serialises its left operand unchanged"
        ok = len(rets) == 1 and isinstance(rets[0], ast.Call) and (dotted(rets[0].func) or "") == "json.dumps" and rets[0].args and norm(rets[0].args[0]) == left
        kws = {k.arg: norm(k.value) for k in rets[0].keywords} if ok else {}
        if ok and kws.get("ensure_ascii", "True") in ("True", "False") and "sort_keys" not in kws and "skipkeys" not in kws and "separators" not in kws:
            def _nil_for_undefined(n: ast.AST) -> bool:
                """`left = None` inside `if is_undefined(left):` - a missing variable is nil, and nil's JSON form is null."""
                if not (isinstance(n, ast.Assign) and isinstance(n.value, ast.Constant) and n.value.value is None):
                    return False
                for a in call.module.ancestors(n):
                    if isinstance(a, ast.If) and norm(a.test) == f"is_undefined({left})" and any(n is x for b in a.body for x in ast.walk(b)):
                        return True
                return False

            reassigned = any(isinstance(n, (ast.Assign, ast.AugAssign)) and any(isinstance(t, ast.Name) and t.id == left for t in (n.targets if isinstance(n, ast.Assign) else [n.target])) and not _nil_for_undefined(n) for n in ast.walk(call.node))
            if not reassigned and kws.get("allow_nan") == "False":
                res.ok("C20.R4", f"{call.file}:{call.node.lineno} {call.qualname}", what, norm(rets[0], 80))
                continue
            if not reassigned:
                res.fail("C20.R4", file=call.file, line=call.node.lineno, qualname=call.qualname, construct="json.dumps without allow_nan=False", message="the json filter calls json.dumps with allow_nan left on: inf and nan are written as Infinity / NaN, which is not JSON and does not decode to the input", what="json filter emits JSON only")
                continue
        res.fail("C20.R4", file=call.file, line=call.node.lineno, qualname=call.qualname, construct=f"json returns {[norm(r, 60) for r in rets]}", message="the json filter pre-processes its input or post-processes json.dumps output: the result no longer decodes to the input", what=what)
    res.floor("C20.R4", "json filter implementations", n_json, 1)

    # ------------------------------------------------------------------ R6 surrogate-pair arithmetic
    res.rule("C20.R6", "the \\uXXXX\\uXXXX decoder combines a surrogate pair to 0x10000 + ((hi - 0xD800) << 10) + (lo - 0xDC00) and classifies high/low surrogates by the Unicode ranges: the combining expression and the two range predicates are evaluated (symbolically, from their source) on the boundary values of every plane")
    from sa.symprint import SymEval
    from sa.symprint import Unsupported

    un = prog.mod("liquid2/unescape.py")
    dh = un.functions.get("_decode_hex_char")
    if dh is None:
        raise AnalysisError("_decode_hex_char vanished")
    comb = [a for a in ast.walk(dh.node) if isinstance(a, ast.Assign) and len(a.targets) == 1 and isinstance(a.targets[0], ast.Name) and any(isinstance(x, ast.Name) and x.id == "low_surrogate" for x in ast.walk(a.value))]
    res.floor("C20.R6", "surrogate combining assignments", len(comb), 1)
    SE = SymEval(prog)
    his = [0xD800, 0xD801, 0xD83D, 0xD83F, 0xD840, 0xD87F, 0xD880, 0xDAFF, 0xDB40, 0xDBFF]
    los = [0xDC00, 0xDC01, 0xDE00, 0xDFFF]
    for a in comb:
        hi_name = next((x.id for x in ast.walk(a.value) if isinstance(x, ast.Name) and x.id != "low_surrogate"), None)
        bad = []
        try:
            for hi in his:
                for lo in los:
                    SE.steps = 0
                    got = SE.ev(a.value, {hi_name or "code_point": hi, "low_surrogate": lo}, dh)
                    want = 0x10000 + ((hi - 0xD800) << 10) + (lo - 0xDC00)
                    if got != want:
                        bad.append(f"\\u{hi:04X}\\u{lo:04X} -> U+{got:X} (expected U+{want:X})" if isinstance(got, int) else f"\\u{hi:04X}\\u{lo:04X} -> {got!r}")
        except Unsupported as err:
            bad.append(f"not evaluable: {err}")
            res.not_decided.append(f"C20.R6: the combining expression uses a construct outside the evaluator ({err})")
        what = f"`{norm(a, 80)}` maps every boundary pair to its code point"
        if bad:
            res.fail("C20.R6", file=un.relpath, line=a.lineno, qualname="_decode_hex_char", construct=f"surrogate combination {norm(a.value, 60)}", message=f"the surrogate-pair combination is wrong for {len(bad)} of {len(his) * len(los)} boundary pairs, e.g. {bad[0]}: an astral character written as an escaped pair evaluates to a different character", what=what)
        else:
            res.ok("C20.R6", f"{un.relpath}:{a.lineno} _decode_hex_char", what, f"{len(his) * len(los)} boundary pairs across planes 1-16")
    for fname, lo_, hi_ in (("_is_high_surrogate", 0xD800, 0xDBFF), ("_is_low_surrogate", 0xDC00, 0xDFFF)):
        f = un.functions.get(fname)
        if f is None:
            raise AnalysisError(f"{fname} vanished")
        bad = []
        try:
            for v in (lo_ - 1, lo_, lo_ + 1, hi_ - 1, hi_, hi_ + 1, 0x41, 0xFFFF):
                SE.steps = 0
                got = bool(SE.call(f, {f.params()[0]: v}))
                if got != (lo_ <= v <= hi_):
                    bad.append(f"{fname}(0x{v:X}) is {got}")
        except Unsupported as err:
            bad.append(f"not evaluable: {err}")
        what = f"{fname} is true exactly on [0x{lo_:X}, 0x{hi_:X}]"
        if bad:
            res.fail("C20.R6", file=un.relpath, line=f.node.lineno, qualname=fname, construct=f"{fname} range", message=f"{fname} misclassifies boundary code points ({'; '.join(bad[:3])}): surrogate escapes are combined or rejected wrongly", what=what)
        else:
            res.ok("C20.R6", f"{un.relpath}:{f.node.lineno} {fname}", what, "8 boundary values")

    # ------------------------------------------------------------------ R5 buffers keep characters as written
    res.rule("C20.R5", "a literal's characters reach the output unchanged: no output buffer is built with a newline mode that rewrites U+000D / CRLF (LimitedStringIO forwards newline='\\n' like StringIO()) (shared with C06.R2)")
    from checks.shared import check_newline_transparency

    check_newline_transparency(prog, res, "C20.R5")
    del ex

    # ------------------------------------------------------------------ R7 the hex digit table of \\uXXXX
    res.rule("C20.R8", "a literal denotes exactly the characters written: no Unicode normalisation or case folding of literals, names or path segments in liquid2 (`a[\"e\\u0301\"]` must read the key e + U+0301, not the precomposed é)")
    from checks.shared import check_no_text_normalisation

    check_no_text_normalisation(prog, res, "C20.R8")
    res.rule("C20.R9", "an integer literal keeps every digit through the arithmetic filters: where both operands are ints, plus / minus / times / modulo / divided_by return an integer operator applied to the operands themselves, never a value routed through float (53 bits) or Decimal (28 digits), so `{{ 12345678901234567890123456789012345 | plus: 0 | json }}` decodes to the number written (= C01.R17)")
    from checks.shared import check_integer_exactness

    check_integer_exactness(prog, res, "C20.R9")
    res.rule("C20.R10", "`decrement` reads its name as `increment` does: DecrementTag / DecrementNode equal IncrementTag / IncrementNode method by method up to the tag's name - a quoted name is decoded by both (`increment \"a\\u0062\"` and `decrement 'ab'` share one counter) (= C12.R20)")
    from checks.shared import check_sibling_tags

    check_sibling_tags(prog, res, "C20.R10", "liquid2/builtin/tags/decrement_tag.py", "liquid2/builtin/tags/increment_tag.py", (("DecrementNode", "IncrementNode"), ("DecrementTag", "IncrementTag")), (("Decrement", "Increment"), ("decrement", "increment")))
    # ------------------------------------------------------------------ R11 what a tag prints is what its expression evaluates to
    res.rule("C20.R11", "a literal printed by a tag is the literal as evaluated: in the render methods of every Node the value handed to to_liquid_string() comes from an `evaluate[_async](context)` call (directly or through a local bound to nothing else) - text precomputed from `item.value` at parse time has lost what evaluation adds (a string literal is Markup under auto-escape, so it is written as written; a plain str stand-in is escaped: `{% cycle '<b>x</b>' %}` prints `&lt;b&gt;…`)")
    n11 = 0
    nb11 = prog.cls("liquid2.ast.Node")
    for fi11 in sorted(prog.all_functions(), key=lambda f: (f.file, f.node.lineno)):
        if fi11.cls is None or not prog.is_subclass(fi11.cls, nb11) or fi11.name not in ("render_to_output", "render_to_output_async"):
            continue
        for c11 in ast.walk(fi11.node):
            if not (isinstance(c11, ast.Call) and (dotted(c11.func) or "").split(".")[-1] == "to_liquid_string" and c11.args):
                continue
            n11 += 1
            arg = c11.args[0]
            srcs = [arg]
            if isinstance(arg, ast.Name):
                srcs = [a.value for a in ast.walk(fi11.node) if isinstance(a, (ast.Assign, ast.AnnAssign)) and a.value is not None and any(isinstance(t, ast.Name) and t.id == arg.id for t in (a.targets if isinstance(a, ast.Assign) else [a.target]))] or [arg]
            def _is_eval(e: ast.AST) -> bool:
                e = e.value if isinstance(e, ast.Await) else e
                return isinstance(e, ast.Call) and isinstance(e.func, ast.Attribute) and e.func.attr in ("evaluate", "evaluate_async", "increment", "decrement", "getvalue")
            bad11 = [s_ for s_ in srcs if not _is_eval(s_)]
            site = f"{fi11.file}:{c11.lineno} {fi11.qualname}"
            what = f"{fi11.qualname}: `{norm(c11, 50)}` prints an evaluated value"
            if bad11:
                res.fail("C20.R11", file=fi11.file, line=c11.lineno, qualname=fi11.qualname, construct=f"{fi11.qualname}: prints `{norm(bad11[0], 30)}`, not an evaluated expression", message=f"{fi11.qualname} hands `{norm(bad11[0], 50)}` to to_liquid_string(): a value that did not come from evaluate() - text precomputed from a literal's `.value` is a plain str, which auto-escape rewrites, where the evaluated literal is Markup and is written as written", what=what)
            else:
                res.ok("C20.R11", site, what, "argument is an evaluate() result")
    res.floor("C20.R11", "to_liquid_string calls in render methods", n11, 6)
    res.rule("C20.R7", "_parse_hex_digits accepts exactly the 22 hexadecimal digits and gives each its value: the chain of constant comparisons on the code unit, read as a table over all 128 ASCII code units, equals int(chr(c), 16) on 0-9 A-F a-f and rejects every other unit; the accumulated value is shifted by 4 bits per digit")
    ph = prog.fn_opt("liquid2/unescape.py", "_parse_hex_digits")
    if ph is None:
        raise AnalysisError("_parse_hex_digits vanished")
    loop = next((n for n in ast.walk(ph.node) if isinstance(n, ast.For)), None)
    dvar = loop.target.id if loop is not None and isinstance(loop.target, ast.Name) else None
    what7 = "_parse_hex_digits: digit table equals 0-9 A-F a-f -> 0..15"
    table: dict[int, int | None] | None = {}
    if loop is None or dvar is None:
        table = None
    else:
        def _cmp(e: ast.AST, c: int) -> bool | None:
            if isinstance(e, ast.BoolOp):
                vs = [_cmp(v, c) for v in e.values]
                if any(v is None for v in vs):
                    return None
                return all(vs) if isinstance(e.op, ast.And) else any(vs)
            if isinstance(e, ast.UnaryOp) and isinstance(e.op, ast.Not):
                v = _cmp(e.operand, c)
                return None if v is None else not v
            if isinstance(e, ast.Compare):
                vals = []
                for x in [e.left, *e.comparators]:
                    if isinstance(x, ast.Name) and x.id == dvar:
                        vals.append(c)
                    elif isinstance(x, ast.Constant) and isinstance(x.value, int):
                        vals.append(x.value)
                    else:
                        return None
                ok = True
                for (a, b), op in zip(zip(vals, vals[1:]), e.ops):
                    r = {ast.Lt: a < b, ast.LtE: a <= b, ast.Gt: a > b, ast.GtE: a >= b, ast.Eq: a == b, ast.NotEq: a != b}.get(type(op))
                    if r is None:
                        return None
                    ok = ok and r
                return ok
            return None

        def _val(e: ast.AST, c: int) -> int | None:
            if isinstance(e, ast.Constant) and isinstance(e.value, int):
                return e.value
            if isinstance(e, ast.Name) and e.id == dvar:
                return c
            if isinstance(e, ast.BinOp) and isinstance(e.op, (ast.Add, ast.Sub)):
                a, b = _val(e.left, c), _val(e.right, c)
                return None if a is None or b is None else (a + b if isinstance(e.op, ast.Add) else a - b)
            return None

        class _Undecided(Exception):
            pass

        def _walk(body: list[ast.stmt], c: int, acc: list) -> str:
            """Follow the statements of the loop body for code unit c: 'raise' when it is rejected, 'next' when the body ends."""
            for st in body:
                if isinstance(st, ast.If):
                    t = _cmp(st.test, c)
                    if t is None:
                        raise _Undecided
                    r = _walk(st.body if t else st.orelse, c, acc)
                    if r == "raise":
                        return r
                elif isinstance(st, ast.Raise):
                    return "raise"
                elif isinstance(st, ast.AugAssign) and isinstance(st.op, ast.BitOr):
                    v = _val(st.value, c)
                    if v is None:
                        raise _Undecided
                    acc.append(v)
                elif isinstance(st, ast.AugAssign) and isinstance(st.op, ast.LShift):
                    continue
                elif isinstance(st, (ast.Pass, ast.Expr)):
                    continue
                else:
                    raise _Undecided
            return "next"

        try:
            for c in range(128):
                acc: list = []
                r = _walk(loop.body, c, acc)
                table[c] = acc[0] if (r == "next" and len(acc) == 1) else None
        except _Undecided:
            table = None
    shift_ok = loop is not None and any(isinstance(x, ast.AugAssign) and isinstance(x.op, ast.LShift) and isinstance(x.value, ast.Constant) and x.value.value == 4 for x in loop.body)
    want = {c: (int(chr(c), 16) if chr(c) in "0123456789abcdefABCDEF" else None) for c in range(128)}
    if table is not None and table == want and shift_ok:
        res.ok("C20.R7", f"{ph.file}:{ph.node.lineno} _parse_hex_digits", what7, "22 digits, values 0..15, 4-bit shift")
    else:
        bad = sorted(c for c in range(128) if table is not None and table.get(c) != want[c])
        res.fail("C20.R7", file=ph.file, line=ph.node.lineno, qualname="_parse_hex_digits", construct="hex digit table differs from 0-9 A-F a-f" if table is not None else "hex digit table not recognised", message=("_parse_hex_digits " + (f"treats {[chr(c) for c in bad[:6]]} differently from hexadecimal ({[table.get(c) for c in bad[:6]]} instead of {[want[c] for c in bad[:6]]})" if table is not None and bad else ("does not shift by 4 bits per digit" if table is not None else "is no longer a chain of constant range tests (not decided)")) + ": a \\\\uXXXX escape decodes to another character or a valid escape is rejected"), what=what7)


def _is_token_only_use(c: ast.Call, var: str) -> bool:
    """Call passes var only as a `token=`/first positional token argument alongside a decoded value (constructor)."""
    return False


def _float_on_path(prog: Program, fi: FunctionInfo, e: ast.AST | None, depth: int) -> str | None:
    if e is None or depth > 3:
        return None
    for c in ast.walk(e):
        if isinstance(c, ast.Call) and isinstance(c.func, ast.Name) and c.func.id == "float":
            return norm(c, 40)
        if isinstance(c, ast.Call) and (dotted(c.func) or "") in ("math.floor", "math.ceil", "round", "Decimal", "decimal.Decimal"):
            return norm(c, 40)
    # local variable: all its assignments
    if isinstance(e, ast.Name):
        for n in ast.walk(fi.node):
            if isinstance(n, ast.Assign) and any(isinstance(t, ast.Name) and t.id == e.id for t in n.targets):
                b = _float_on_path(prog, fi, n.value, depth + 1)
                if b:
                    return b
    # helper calls: look inside package functions called on the path
    for c in ast.walk(e):
        if isinstance(c, ast.Call):
            d = dotted(c.func)
            r = prog.resolve(fi.module, d) if d else None
            if isinstance(r, FunctionInfo) and r.name != "to_int":
                for ret in ast.walk(r.node):
                    if isinstance(ret, ast.Return):
                        b = _float_on_path(prog, r, ret.value, depth + 1)
                        if b:
                            return f"{r.name}(): {b}"
    return None
