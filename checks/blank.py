"""Blank-flag soundness (shared by C01.R2 and C18.R2)."""

from __future__ import annotations

import ast

from sa.report import Result
from sa.report import norm
from sa.srcmodel import ClassInfo
from sa.srcmodel import Program
from sa.util import is_self_attr

WRITERS = {"write"}
PARTIAL_RENDERERS = {"render_with_context", "render_with_context_async"}


def _own_output(prog: Program, ci: ClassInfo) -> list[tuple[ast.AST, str]]:
    """Sites in ci's render methods that emit text of the node itself (not a child block's output)."""
    out: list[tuple[ast.AST, str]] = []
    for name in ("render_to_output", "render_to_output_async"):
        m = prog.find_method(ci, name)
        if m is None or m.cls is None or m.cls.full == "liquid2.ast.Node":
            continue
        for c in ast.walk(m.node):
            if not (isinstance(c, ast.Call) and isinstance(c.func, ast.Attribute)):
                continue
            if c.func.attr in WRITERS and isinstance(c.func.value, ast.Name) and c.func.value.id in ("buffer", "buf"):
                arg = c.args[0] if c.args else None
                if isinstance(arg, ast.Constant) and isinstance(arg.value, str) and (not arg.value or arg.value.isspace()):
                    continue
                out.append((c, f"buffer.write({norm(arg, 40) if arg is not None else ''})"))
            elif c.func.attr in PARTIAL_RENDERERS:
                out.append((c, f"{c.func.attr}(…) of another template"))
    return out


def check_blank_flags(prog: Program, res: Result, rule: str) -> None:
    node_base = prog.cls("liquid2.ast.Node")
    n = 0
    for ci in prog.subclasses(node_base, strict=True):
        if any(b.attr == "abstractmethod" if isinstance(b, ast.Attribute) else False for b in []):
            continue
        own = _own_output(prog, ci)
        # blank assignments in constructors of ci and its bases below Node
        assigns: list[tuple[ClassInfo, ast.Assign]] = []
        for k in prog.mro(ci):
            if k.full == "liquid2.ast.Node":
                break
            init = k.methods.get("__init__")
            if init is None:
                continue
            for a in ast.walk(init.node):
                if isinstance(a, ast.Assign) and any(is_self_attr(t, "blank") for t in a.targets):
                    assigns.append((k, a))
            if assigns:
                break
        n += 1
        site = f"{ci.file}:{ci.node.lineno} {ci.name}"
        what = f"{ci.name}.blank is sound w.r.t. what its render writes"
        if not own:
            res.ok(rule, site, what, "render emits only child output (or nothing): default/child-derived blank is sound")
            continue
        if not assigns:
            res.fail(
                rule,
                file=ci.file,
                line=ci.node.lineno,
                qualname=ci.name,
                construct=f"{ci.name} writes {own[0][1]} but never assigns self.blank",
                message=f"{ci.name} emits its own text ({own[0][1]}) but inherits blank=True: inside a control-flow block with "
                "suppress_blank_control_flow_blocks the text is silently dropped",
                what=what,
            )
            continue
        k, a = assigns[-1]
        v = a.value
        sound = False
        why = ""
        if isinstance(v, ast.Constant) and v.value is False:
            sound, why = True, "self.blank = False"
        else:
            # computed from the text that is written: mentions .isspace() / `not text` on a name or self attribute
            txt = norm(v, 200)
            written_attrs = {x.attr for c, _ in own for x in ast.walk(c) if isinstance(x, ast.Attribute) and is_self_attr(x)}
            init = k.methods["__init__"]
            # parameter names assigned to those attributes
            srcs = set()
            for s in ast.walk(init.node):
                if isinstance(s, ast.Assign) and any(is_self_attr(t) and t.attr in written_attrs for t in s.targets):
                    srcs |= {x.id for x in ast.walk(s.value) if isinstance(x, ast.Name)}
            mentions = {x.id for x in ast.walk(v) if isinstance(x, ast.Name)} | {x.attr for x in ast.walk(v) if isinstance(x, ast.Attribute)}
            if ".isspace()" in txt and (mentions & (srcs | written_attrs)):
                sound, why = True, f"self.blank = {txt} (computed from the emitted text)"
        if sound:
            res.ok(rule, site, what, why)
        else:
            res.fail(
                rule,
                file=ci.file,
                line=a.lineno,
                qualname=f"{k.name}.__init__",
                construct=f"{ci.name}: self.blank = {norm(v, 80)} while render writes {own[0][1]}",
                message=f"{ci.name} emits its own text ({own[0][1]}) but its blank flag is `{norm(v, 60)}`: output can be suppressed as if it were whitespace",
                what=what,
            )
    res.floor(rule, "node classes examined for blank soundness", n, 20)
    # BlockNode derives blank from its children; ConditionalBlockNode from its block
    bn = prog.cls("liquid2.ast.BlockNode")
    init = bn.methods.get("__init__")
    what = "BlockNode.blank = all(node.blank for node in nodes)"
    if init is not None and any(isinstance(a, ast.Assign) and any(is_self_attr(t, "blank") for t in a.targets) and norm(a.value) == "all((node.blank for node in nodes))" for a in ast.walk(init.node)):
        res.ok(rule, f"{bn.file}:{init.node.lineno} BlockNode.__init__", what, "a block is blank only if every child is")
    else:
        res.fail(rule, file=bn.file, line=bn.node.lineno, qualname="BlockNode.__init__", construct="BlockNode.blank derivation", message="a block can be blank although one of its children is not: its output is suppressed", what=what)
    # suppression path: only under the flag and only when blank; renders into NullIO and returns 0
    for nm in ("render_to_output", "render_to_output_async"):
        m = bn.methods.get(nm)
        what = f"BlockNode.{nm}: suppression only when env.suppress_blank_control_flow_blocks and self.blank"
        ok = False
        if m is not None:
            for n_ in ast.walk(m.node):
                if isinstance(n_, ast.If) and norm(n_.test) == "context.env.suppress_blank_control_flow_blocks and self.blank" and any(isinstance(x, ast.Call) and norm(x.func) == "NullIO" for b in n_.body for x in ast.walk(b)):
                    ok = True
        if ok:
            res.ok(rule, f"{bn.file}:{m.node.lineno} BlockNode.{nm}", what, "guarded NullIO render")
        else:
            res.fail(rule, file=bn.file, line=m.node.lineno if m else bn.node.lineno, qualname=f"BlockNode.{nm}", construct=f"{nm} suppression guard", message="blank-block suppression is not guarded by both the environment flag and the block's blank flag", what=what)
    # nodes with child blocks that do not set blank explicitly inherit True: their own render must then only render children - covered above
