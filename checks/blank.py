"""Blank-flag soundness (shared by C01.R2 and C18.R2)."""

from __future__ import annotations

import ast

from sa.report import Result
from sa.report import norm
from sa.srcmodel import ClassInfo
from sa.srcmodel import Program
from sa.util import is_self_attr

WRITERS = {"write"}
PARTIAL_RENDERERS = {"render_with_context", "render_with_context_async"}


def _own_output(prog: Program, ci: ClassInfo) -> list[tuple[ast.AST, str]]:
    """Sites in ci's render methods that emit text of the node itself (not a child block's output)."""
    out: list[tuple[ast.AST, str]] = []
    for name in ("render_to_output", "render_to_output_async"):
        m = prog.find_method(ci, name)
        if m is None or m.cls is None or m.cls.full == "liquid2.ast.Node":
            continue
        for c in ast.walk(m.node):
            if not (isinstance(c, ast.Call) and isinstance(c.func, ast.Attribute)):
                continue
            if c.func.attr in WRITERS and isinstance(c.func.value, ast.Name) and c.func.value.id in ("buffer", "buf"):
                arg = c.args[0] if c.args else None
                if isinstance(arg, ast.Constant) and isinstance(arg.value, str) and (not arg.value or arg.value.isspace()):
                    continue
                out.append((c, f"buffer.write({norm(arg, 40) if arg is not None else ''})"))
            elif c.func.attr in PARTIAL_RENDERERS:
                out.append((c, f"{c.func.attr}(…) of another template"))
    return out


def check_blank_flags(prog: Program, res: Result, rule: str, *, only_module: str | None = None, floor: int | None = None) -> None:
    """only_module: restrict the obligation to the Node classes of one module (the inheritance tags for C08)."""
    node_base = prog.cls("liquid2.ast.Node")
    n = 0
    for ci in prog.subclasses(node_base, strict=True):
        if only_module is not None and ci.file != only_module:
            continue
        if any(b.attr == "abstractmethod" if isinstance(b, ast.Attribute) else False for b in []):
            continue
        own = _own_output(prog, ci)
        # blank assignments in constructors of ci and its bases below Node
        assigns: list[tuple[ClassInfo, ast.Assign]] = []
        for k in prog.mro(ci):
            if k.full == "liquid2.ast.Node":
                break
            init = k.methods.get("__init__")
            if init is None:
                continue
            for a in ast.walk(init.node):
                if isinstance(a, ast.Assign) and any(is_self_attr(t, "blank") for t in a.targets):
                    assigns.append((k, a))
            if assigns:
                break
        n += 1
        site = f"{ci.file}:{ci.node.lineno} {ci.name}"
        what = f"{ci.name}.blank is sound w.r.t. what its render writes"
        if not own:
            res.ok(rule, site, what, "render emits only child output (or nothing): default/child-derived blank is sound")
            continue
        if not assigns:
            res.fail(
                rule,
                file=ci.file,
                line=ci.node.lineno,
                qualname=ci.name,
                construct=f"{ci.name} writes {own[0][1]} but never assigns self.blank",
                message=f"{ci.name} emits its own text ({own[0][1]}) but inherits blank=True: inside a control-flow block with "
                "suppress_blank_control_flow_blocks the text is silently dropped",
                what=what,
            )
            continue
        k, a = assigns[-1]
        v = a.value
        sound = False
        why = ""
        if isinstance(v, ast.Constant) and v.value is False:
            sound, why = True, "self.blank = False"
        else:
            # computed from the text that is written: mentions .isspace() / `not text` on a name or self attribute
            txt = norm(v, 200)
            written_attrs = {x.attr for c, _ in own for x in ast.walk(c) if isinstance(x, ast.Attribute) and is_self_attr(x)}
            init = k.methods["__init__"]
            # parameter names assigned to those attributes
            srcs = set()
            for s in ast.walk(init.node):
                if isinstance(s, ast.Assign) and any(is_self_attr(t) and t.attr in written_attrs for t in s.targets):
                    srcs |= {x.id for x in ast.walk(s.value) if isinstance(x, ast.Name)}
            mentions = {x.id for x in ast.walk(v) if isinstance(x, ast.Name)} | {x.attr for x in ast.walk(v) if isinstance(x, ast.Attribute)}
            if ".isspace()" in txt and (mentions & (srcs | written_attrs)):
                sound, why = True, f"self.blank = {txt} (computed from the emitted text)"
        if sound:
            res.ok(rule, site, what, why)
        else:
            res.fail(
                rule,
                file=ci.file,
                line=a.lineno,
                qualname=f"{k.name}.__init__",
                construct=f"{ci.name}: self.blank = {norm(v, 80)} while render writes {own[0][1]}",
                message=f"{ci.name} emits its own text ({own[0][1]}) but its blank flag is `{norm(v, 60)}`: output can be suppressed as if it were whitespace",
                what=what,
            )
    res.floor(rule, "node classes examined for blank soundness", n, 20 if floor is None else floor)
    if only_module is not None:
        return
    # BlockNode derives blank from its children; ConditionalBlockNode from its block
    bn = prog.cls("liquid2.ast.BlockNode")
    init = bn.methods.get("__init__")
    what = "BlockNode.blank = all(node.blank for node in nodes)"
    if init is not None and any(isinstance(a, ast.Assign) and any(is_self_attr(t, "blank") for t in a.targets) and norm(a.value) == "all((node.blank for node in nodes))" for a in ast.walk(init.node)):
        res.ok(rule, f"{bn.file}:{init.node.lineno} BlockNode.__init__", what, "a block is blank only if every child is")
    else:
        res.fail(rule, file=bn.file, line=bn.node.lineno, qualname="BlockNode.__init__", construct="BlockNode.blank derivation", message="a block can be blank although one of its children is not: its output is suppressed", what=what)
    # suppression path: only under the flag and only when blank; renders into NullIO and returns 0
    for nm in ("render_to_output", "render_to_output_async"):
        m = bn.methods.get(nm)
        what = f"BlockNode.{nm}: suppression only when env.suppress_blank_control_flow_blocks and self.blank"
        ok = False
        if m is not None:
            for n_ in ast.walk(m.node):
                if isinstance(n_, ast.If) and norm(n_.test) == "context.env.suppress_blank_control_flow_blocks and self.blank" and any(isinstance(x, ast.Call) and norm(x.func) == "NullIO" for b in n_.body for x in ast.walk(b)):
                    ok = True
        if ok:
            res.ok(rule, f"{bn.file}:{m.node.lineno} BlockNode.{nm}", what, "guarded NullIO render")
        else:
            res.fail(rule, file=bn.file, line=m.node.lineno if m else bn.node.lineno, qualname=f"BlockNode.{nm}", construct=f"{nm} suppression guard", message="blank-block suppression is not guarded by both the environment flag and the block's blank flag", what=what)
    # nodes with child blocks that do not set blank explicitly inherit True: their own render must then only render children - covered above
    _check_composite_blank(prog, res, rule)
    _check_suppression_readers(prog, res, rule)
    from checks.shared import check_buffer_factories_fresh

    check_buffer_factories_fresh(prog, res, rule)


RENDER_CALLS = {"render", "render_async"}


def _rendered_child_attrs(prog: Program, ci: ClassInfo) -> dict[str, int]:
    """self attributes whose value (or whose elements) a render method of ci renders as child nodes."""
    out: dict[str, int] = {}
    for name in ("render_to_output", "render_to_output_async"):
        m = ci.methods.get(name)
        if m is None:
            continue
        # loop / comprehension variables bound from `self.A`
        alias: dict[str, str] = {}
        for n in ast.walk(m.node):
            it = tgt = None
            if isinstance(n, (ast.For, ast.AsyncFor)):
                it, tgt = n.iter, n.target
            elif isinstance(n, ast.comprehension):
                it, tgt = n.iter, n.target
            elif isinstance(n, ast.Assign) and len(n.targets) == 1:
                it, tgt = n.value, n.targets[0]
            if it is None or tgt is None:
                continue
            src = next((x.attr for x in ast.walk(it) if is_self_attr(x)), None)
            if src is None:
                src = next((alias[x.id] for x in ast.walk(it) if isinstance(x, ast.Name) and x.id in alias), None)
            if src is not None:
                for t in ast.walk(tgt):
                    if isinstance(t, ast.Name):
                        alias[t.id] = src
        for c in ast.walk(m.node):
            if isinstance(c, ast.Call) and isinstance(c.func, ast.Attribute) and c.func.attr in RENDER_CALLS and len(c.args) == 2:
                # only what goes to the node's own output buffer matters for `blank` (a capture renders into a buffer of its own)
                params = [a_.arg for a_ in m.node.args.args]
                out_param = params[2] if len(params) > 2 else "buffer"
                if not (isinstance(c.args[1], ast.Name) and c.args[1].id == out_param):
                    continue
                recv = c.func.value
                a = None
                if is_self_attr(recv):
                    a = recv.attr
                elif isinstance(recv, ast.Attribute) and is_self_attr(recv.value):
                    a = recv.value.attr
                else:
                    root = next((x for x in ast.walk(recv) if isinstance(x, ast.Name)), None)
                    if root is not None and root.id in alias:
                        a = alias[root.id]
                if a is not None:
                    out[a] = c.lineno
    return out


def _check_composite_blank(prog: Program, res: Result, rule: str) -> None:
    """A node that renders child blocks and computes its own blank flag must take every rendered child into account."""
    node_base = prog.cls("liquid2.ast.Node")
    n = 0
    for ci in prog.subclasses(node_base, strict=True):
        init = ci.methods.get("__init__")
        if init is None:
            continue
        asg = [a for a in ast.walk(init.node) if isinstance(a, ast.Assign) and any(is_self_attr(t, "blank") for t in a.targets)]
        if not asg:
            # a node that renders children but never sets its own flag inherits Node's default (blank = True)
            rendered0 = _rendered_child_attrs(prog, ci)
            inherited = any("__init__" in b.methods and any(isinstance(a, ast.Assign) and any(is_self_attr(t, "blank") for t in a.targets) for a in ast.walk(b.methods["__init__"].node)) for b in prog.mro(ci)[1:] if b.full != node_base.full)
            if rendered0 and not inherited:
                n += 1
                res.fail(rule, file=ci.file, line=init.node.lineno, qualname=f"{ci.name}.__init__", construct=f"{ci.name} renders {sorted(rendered0)} but never sets self.blank", message=f"{ci.name} renders self.{sorted(rendered0)[0]} but its __init__ leaves `blank` at Node's default (True): an enclosing block that holds nothing else counts as blank and suppresses whatever self.{sorted(rendered0)[0]} writes", what=f"{ci.name}.blank accounts for every child it renders")
            continue
        v = asg[-1].value
        if isinstance(v, ast.Constant):
            continue
        rendered = _rendered_child_attrs(prog, ci)
        if not rendered:
            continue
        n += 1
        # names standing for each attribute inside __init__: the attribute itself and the parameter stored into it
        stands: dict[str, set[str]] = {a: {a} for a in rendered}
        for s in ast.walk(init.node):
            if isinstance(s, ast.Assign):
                for t in s.targets:
                    if is_self_attr(t) and t.attr in rendered:
                        stands[t.attr] |= {x.id for x in ast.walk(s.value) if isinstance(x, ast.Name)}
        mentioned = {x.id for x in ast.walk(v) if isinstance(x, ast.Name)} | {x.attr for x in ast.walk(v) if isinstance(x, ast.Attribute)}
        missing = sorted(a for a in rendered if not (stands[a] & mentioned))
        # beyond being mentioned: the flag, read as a boolean function of its children's flags, must be False whenever one rendered
        # child is present and not blank (all others present and blank)
        if not missing:
            def _attr_of(e: ast.AST) -> str | None:
                if is_self_attr(e) and e.attr in rendered:  # type: ignore[union-attr]
                    return e.attr  # type: ignore[union-attr]
                if isinstance(e, ast.Name):
                    hits = [a for a in rendered if e.id in stands[a]]
                    return hits[0] if len(hits) == 1 else None
                return None

            def _bev(e: ast.AST, nonblank: str):  # noqa: ANN202
                if isinstance(e, ast.Constant) and isinstance(e.value, bool):
                    return e.value
                if isinstance(e, ast.Attribute) and e.attr == "blank":
                    a = _attr_of(e.value)
                    return None if a is None else (a != nonblank)
                if isinstance(e, ast.Call) and isinstance(e.func, ast.Name) and e.func.id == "all" and len(e.args) == 1 and isinstance(e.args[0], (ast.GeneratorExp, ast.ListComp)):
                    g = e.args[0]
                    if isinstance(g.elt, ast.Attribute) and g.elt.attr == "blank" and len(g.generators) == 1:
                        a = _attr_of(g.generators[0].iter)
                        return None if a is None else (a != nonblank)
                    return None
                if _attr_of(e) is not None:
                    return True  # presence test of a child that is present
                if isinstance(e, ast.Compare) and len(e.ops) == 1 and isinstance(e.comparators[0], ast.Constant) and e.comparators[0].value is None and _attr_of(e.left) is not None:
                    return isinstance(e.ops[0], (ast.IsNot, ast.NotEq))
                if isinstance(e, ast.UnaryOp) and isinstance(e.op, ast.Not):
                    x = _bev(e.operand, nonblank)
                    return None if x is None else (not x)
                if isinstance(e, ast.BoolOp):
                    xs = [_bev(x, nonblank) for x in e.values]
                    if any(x is None for x in xs):
                        return None
                    return all(xs) if isinstance(e.op, ast.And) else any(xs)
                if isinstance(e, ast.IfExp):
                    t = _bev(e.test, nonblank)
                    return None if t is None else _bev(e.body if t else e.orelse, nonblank)
                return None

            wrong = sorted(a for a in rendered if _bev(v, a) is True)
            if wrong:
                res.fail(rule, file=ci.file, line=asg[-1].lineno, qualname=f"{ci.name}.__init__", construct=f"{ci.name}.blank stays true although self.{wrong[0]} is not blank", message=f"`self.blank = {norm(v, 70)}` evaluates to True when self.{wrong[0]} holds output and the node's other children are blank: an enclosing block then counts as blank and suppresses the text/output of self.{wrong[0]}", what=f"{ci.name}.blank accounts for every child it renders ({', '.join(sorted(rendered))})")
                continue
        site = f"{ci.file}:{asg[-1].lineno} {ci.name}.__init__"
        what = f"{ci.name}.blank accounts for every child it renders ({', '.join(sorted(rendered))})"
        if not missing:
            res.ok(rule, site, what, f"self.blank = {norm(v, 90)}")
        else:
            res.fail(
                rule,
                file=ci.file,
                line=asg[-1].lineno,
                qualname=f"{ci.name}.__init__",
                construct=f"{ci.name}.blank ignores {missing}",
                message=f"{ci.name} renders self.{missing[0]} but `self.blank = {norm(v, 70)}` does not consult it: when the other children are whitespace-only the node counts as blank and an enclosing block suppresses the text/output of self.{missing[0]}",
                what=what,
            )
    res.floor(rule, "composite nodes computing their own blank flag", n, 4)


def _check_suppression_readers(prog: Program, res: Result, rule: str) -> None:
    """Blank suppression is decided in one place (BlockNode.render_to_output*, into a NullIO): no other render path skips
    work because something is blank, so state changes (assign/capture/break) inside blank blocks still happen."""
    n = 0
    for mod in prog.modules.values():
        for a in ast.walk(mod.tree):
            if isinstance(a, ast.Attribute) and isinstance(a.ctx, ast.Load) and a.attr == "suppress_blank_control_flow_blocks":
                n += 1
                fi = prog.enclosing_function(mod, a)
                q = fi.qualname if fi else "<module>"
                what = f"`{norm(a)}` read only by BlockNode.render_to_output[_async]"
                if fi is not None and fi.cls is not None and fi.cls.full == "liquid2.ast.BlockNode" and fi.name in ("render_to_output", "render_to_output_async"):
                    res.ok(rule, f"{mod.relpath}:{a.lineno} {q}", what, "the guarded NullIO render")
                else:
                    res.fail(rule, file=mod.relpath, line=a.lineno, qualname=q, construct=f"{norm(a)} read in {q}", message=f"{q} consults the blank-suppression switch itself: anything it skips on that basis (iterations, assigns, captures, breaks inside a blank block) is lost together with the whitespace", what=what)
    res.floor(rule, "reads of suppress_blank_control_flow_blocks", n, 2)
    # render methods must not branch on a blank flag either (the flag is for BlockNode's own use)
    node_base = prog.cls("liquid2.ast.Node")
    for ci in prog.subclasses(node_base, strict=True):
        if ci.full == "liquid2.ast.BlockNode":
            continue
        for nm in ("render_to_output", "render_to_output_async"):
            m = ci.methods.get(nm)
            if m is None:
                continue
            for t in ast.walk(m.node):
                test = t.test if isinstance(t, (ast.If, ast.IfExp, ast.While)) else None
                if test is not None and any(isinstance(x, ast.Attribute) and x.attr == "blank" for x in ast.walk(test)):
                    res.fail(rule, file=ci.file, line=t.lineno, qualname=f"{ci.name}.{nm}", construct=f"{ci.name}.{nm} branches on `{norm(test, 60)}`", message=f"{ci.name}.{nm} decides what to execute from a blank flag: side effects of a blank block are skipped, not only its whitespace", what=f"{ci.name}.{nm} does not branch on .blank")
